// Links scipy's OpenBLAS so that clarabel's `sdp` feature (blas/lapack crates) resolves
// offline; the Fortran symbol names are provided by trampolines in src/blas_shim.rs.
fn main() {
    let dir = "/opt/veriftools/pyvenv/lib/python3.11/site-packages/scipy.libs";
    let mut lib = None;
    if let Ok(rd) = std::fs::read_dir(dir) {
        for e in rd.flatten() {
            let n = e.file_name().to_string_lossy().to_string();
            if n.starts_with("libscipy_openblas") && n.contains(".so") {
                lib = Some(n);
            }
        }
    }
    let lib = lib.expect("scipy openblas shared library not found");
    println!("cargo:rustc-link-search=native={}", dir);
    println!("cargo:rustc-link-arg=-Wl,-rpath,{}", dir);
    println!("cargo:rustc-link-lib=dylib:+verbatim={}", lib);
    println!("cargo:rerun-if-changed=build.rs");
}
