//! One run of one property's harness: collect cases, run the implementation, run the
//! compiled Lean model on the same request lines, compare per channel, run the property
//! oracles, search for a failing input when the correspondence breaks, write the result
//! file consumed by /verif/check.
use crate::proto::{compare_lines, Req, Tol};
use crate::rng::Rng;
use serde_json::{json, Value};
use std::collections::{BTreeMap, HashSet};
use std::io::Write;
use std::panic::{catch_unwind, AssertUnwindSafe};
use std::process::{Command, Stdio};
use std::time::Instant;

pub type RunFn = fn(&Req) -> String;
pub type OracleFn = fn(&Req, &str) -> Result<(), String>;

pub struct Channel {
    /// first token of the request line
    pub name: &'static str,
    /// comparison of implementation vs model response
    pub tol: Tol,
    /// run the real implementation on a request and render the canonical response
    pub run: RunFn,
    /// direct statement of the property on the implementation's response
    pub oracle: Option<OracleFn>,
    /// does the Lean driver implement this channel?
    pub modelled: bool,
    /// the Rust function(s) this channel exercises (for reports)
    pub rust_fn: &'static str,
    /// Lean definitions / theorems that depend on this channel's model function
    pub lean: &'static str,
}

#[derive(Clone)]
struct Case {
    chan: usize,
    input: String,
    impl_out: String,
    search_only: bool,
}

pub struct Failure {
    pub kind: &'static str, // "oracle" | "correspondence"
    pub channel: String,
    pub input: String,
    pub impl_out: String,
    pub model_out: String,
    pub detail: String,
    pub no_failing_input: bool,
}

pub struct Session {
    pub prop: String,
    pub tier: String,
    pub seed: u64,
    pub rng: Rng,
    pub model_exe: Option<String>,
    pub out_path: Option<String>,
    pub replay: Option<String>,
    pub replay_dir: String,
    pub one: bool,
    channels: Vec<Channel>,
    cases: Vec<Case>,
    failures: Vec<Failure>,
    dist: BTreeMap<String, u64>,
    searching: bool,
    start: Instant,
    pub budget_scale: f64,
    notes: Vec<String>,
}

fn panic_msg(e: Box<dyn std::any::Any + Send>) -> String {
    if let Some(s) = e.downcast_ref::<&str>() {
        s.to_string()
    } else if let Some(s) = e.downcast_ref::<String>() {
        s.clone()
    } else {
        "?".to_string()
    }
}

/// Run `f`, mapping a panic to the canonical token `panic:<message-without-spaces>`.
pub fn guarded<F: FnOnce() -> String>(f: F) -> String {
    match catch_unwind(AssertUnwindSafe(f)) {
        Ok(s) => s,
        Err(e) => {
            let m: String = panic_msg(e)
                .chars()
                .map(|c| if c.is_whitespace() || c == '=' || c == ',' { '_' } else { c })
                .take(80)
                .collect();
            format!("panic:{}", m)
        }
    }
}

impl Session {
    pub fn from_args(prop: &str, channels: Vec<Channel>) -> Session {
        let args: Vec<String> = std::env::args().collect();
        let mut tier = std::env::var("VERIF_TIER").unwrap_or_else(|_| "quick".into());
        let mut seed: u64 = std::env::var("VERIF_SEED")
            .ok()
            .and_then(|s| s.parse().ok())
            .unwrap_or(1);
        let mut model_exe = None;
        let mut out_path = None;
        let mut replay = None;
        let mut replay_dir = format!("/verif/replays/{}", prop);
        let mut one = false;
        let mut i = 1;
        while i < args.len() {
            match args[i].as_str() {
                "--tier" => { tier = args[i + 1].clone(); i += 1; }
                "--seed" => { seed = args[i + 1].parse().expect("seed"); i += 1; }
                "--model" => { model_exe = Some(args[i + 1].clone()); i += 1; }
                "--out" => { out_path = Some(args[i + 1].clone()); i += 1; }
                "--replay" => { replay = Some(args[i + 1].clone()); i += 1; }
                "--replay-dir" => { replay_dir = args[i + 1].clone(); i += 1; }
                "--one" => { one = true; }
                other => panic!("unknown argument {}", other),
            }
            i += 1;
        }
        // silence panic backtraces of the implementation under test
        std::panic::set_hook(Box::new(|_| {}));
        Session {
            prop: prop.to_string(),
            tier,
            seed,
            rng: Rng::new(seed),
            model_exe,
            out_path,
            replay,
            replay_dir,
            one,
            channels,
            cases: vec![],
            failures: vec![],
            dist: BTreeMap::new(),
            searching: false,
            start: Instant::now(),
            // `check` raises the budget when /repo's source drifted from the recorded
            // fingerprints (DESIGN §2.5 step 4)
            budget_scale: std::env::var("VERIF_BUDGET_SCALE")
                .ok()
                .and_then(|s| s.parse::<f64>().ok())
                .filter(|v| *v >= 1.0 && *v <= 100.0)
                .unwrap_or(1.0),
            notes: vec![],
        }
    }

    pub fn thorough(&self) -> bool {
        self.tier == "thorough"
    }
    /// case budget: `q` in the quick tier, `t` in the thorough tier, times the search scale
    pub fn budget(&self, q: usize, t: usize) -> usize {
        let b = if self.thorough() { t } else { q };
        ((b as f64) * self.budget_scale).ceil() as usize
    }
    pub fn count(&mut self, key: &str) {
        *self.dist.entry(key.to_string()).or_insert(0) += 1;
    }
    pub fn note(&mut self, s: String) {
        self.notes.push(s);
    }
    pub fn is_searching(&self) -> bool {
        self.searching
    }

    fn chan_index(&self, name: &str) -> usize {
        self.channels
            .iter()
            .position(|c| c.name == name)
            .unwrap_or_else(|| panic!("unknown channel {}", name))
    }

    /// Execute one request on the implementation (panic-guarded) and return the response.
    pub fn run_impl(&self, line: &str) -> String {
        let req = Req::parse(line).expect("request line");
        let ci = self.chan_index(&req.chan);
        let run = self.channels[ci].run;
        guarded(|| run(&req))
    }

    /// Submit one request: runs the implementation, the oracle, and queues it for the model.
    pub fn submit(&mut self, line: String) -> String {
        let req = Req::parse(&line).expect("request line");
        let ci = self.chan_index(&req.chan);
        let run = self.channels[ci].run;
        let out = guarded(|| run(&req));
        self.count(&format!("chan:{}", req.chan));
        if out.starts_with("panic") {
            self.count(&format!("impl-panic:{}", req.chan));
        } else if out.starts_with("err") {
            self.count(&format!("impl-err:{}", req.chan));
        }
        if let Some(orc) = self.channels[ci].oracle {
            let o2 = out.clone();
            let res = catch_unwind(AssertUnwindSafe(|| orc(&req, &o2)))
                .unwrap_or_else(|e| Err(format!("oracle panicked: {}", panic_msg(e))));
            if let Err(detail) = res {
                if self.failures.iter().filter(|f| f.kind == "oracle").count() < 50 {
                    self.failures.push(Failure {
                        kind: "oracle",
                        channel: req.chan.clone(),
                        input: line.clone(),
                        impl_out: out.clone(),
                        model_out: String::new(),
                        detail,
                        no_failing_input: false,
                    });
                }
            }
        }
        self.cases.push(Case { chan: ci, input: line, impl_out: out.clone(), search_only: self.searching });
        out
    }

    /// Report a property failure found by a bespoke (non-channel) oracle.
    pub fn fail(&mut self, channel: &str, input: String, impl_out: String, detail: String) {
        self.failures.push(Failure {
            kind: "oracle",
            channel: channel.to_string(),
            input,
            impl_out,
            model_out: String::new(),
            detail,
            no_failing_input: false,
        });
    }

    fn run_model(&self, lines: &[&str]) -> Result<Vec<String>, String> {
        let exe = match &self.model_exe {
            Some(e) => e.clone(),
            None => return Err("no --model given".into()),
        };
        let mut child = Command::new(&exe)
            .stdin(Stdio::piped())
            .stdout(Stdio::piped())
            .stderr(Stdio::piped())
            .spawn()
            .map_err(|e| format!("cannot start model {}: {}", exe, e))?;
        let mut stdin = child.stdin.take().unwrap();
        let payload: String = lines.iter().map(|l| format!("{}\n", l)).collect();
        let writer = std::thread::spawn(move || {
            let _ = stdin.write_all(payload.as_bytes());
        });
        let outp = child.wait_with_output().map_err(|e| e.to_string())?;
        let _ = writer.join();
        let text = String::from_utf8_lossy(&outp.stdout).to_string();
        let v: Vec<String> = text.lines().map(|s| s.to_string()).collect();
        if v.len() != lines.len() {
            return Err(format!(
                "model produced {} lines for {} requests (status {:?}, stderr: {})",
                v.len(),
                lines.len(),
                outp.status.code(),
                String::from_utf8_lossy(&outp.stderr).chars().take(400).collect::<String>()
            ));
        }
        Ok(v)
    }

    /// Replay mode / single-request mode handling.  Returns true if handled (caller exits).
    pub fn handle_special_modes(&mut self) -> bool {
        if self.one {
            // one request on stdin, response on stdout (used for isolated execution)
            let mut line = String::new();
            std::io::stdin().read_line(&mut line).unwrap();
            let out = self.run_impl(line.trim());
            println!("{}", out);
            return true;
        }
        if let Some(path) = self.replay.clone() {
            let text = std::fs::read_to_string(&path).expect("replay file");
            let v: Value = serde_json::from_str(&text).expect("replay json");
            let line = v["input"].as_str().unwrap_or("").to_string();
            println!("replaying {} on the implementation", path);
            println!("request : {}", line);
            if line.is_empty() {
                println!("(no input recorded: {})", v["detail"]);
                std::process::exit(1);
            }
            self.submit(line.clone());
            let c = self.cases.last().unwrap().clone();
            println!("impl    : {}", c.impl_out);
            let mut bad = !self.failures.is_empty();
            for f in &self.failures {
                println!("oracle  : FAIL {}", f.detail);
            }
            if self.channels[c.chan].modelled && self.model_exe.is_some() {
                match self.run_model(&[&line]) {
                    Ok(m) => {
                        println!("model   : {}", m[0]);
                        let (ok, _) = compare_lines(&c.impl_out, &m[0], self.channels[c.chan].tol);
                        println!("agree   : {}", ok);
                        bad |= !ok;
                    }
                    Err(e) => println!("model   : error {}", e),
                }
            }
            if bad {
                println!("VIOLATION property={} replay={}", self.prop, path);
                std::process::exit(1);
            }
            println!("replay does not fail on the current tree");
            std::process::exit(0);
        }
        false
    }

    /// Main entry: `generate` is called once with the normal budget; if the correspondence
    /// breaks and no oracle failure was seen, it is called again with `searching = true`
    /// and a larger budget to look for an input on which the property itself fails.
    pub fn run<G: Fn(&mut Session)>(mut self, generate: G) -> ! {
        if self.handle_special_modes() {
            std::process::exit(0);
        }
        generate(&mut self);
        let (mut chan_stats, mut mismatches, model_error) = self.compare_all();
        let oracle_failed = self.failures.iter().any(|f| f.kind == "oracle");
        if (!mismatches.is_empty() || model_error.is_some()) && !oracle_failed {
            // failing-input search
            self.searching = true;
            self.budget_scale = if self.thorough() { 4.0 } else { 10.0 };
            self.rng = Rng::new(self.seed ^ 0x5eadc0de);
            let before = self.cases.len();
            generate(&mut self);
            self.note(format!("failing-input search ran {} extra cases", self.cases.len() - before));
            let r = self.compare_all();
            chan_stats = r.0;
            if mismatches.is_empty() {
                mismatches = r.1;
            }
        }
        let oracle_failed = self.failures.iter().any(|f| f.kind == "oracle");
        // one correspondence failure per channel (first mismatch)
        let mut seen = HashSet::new();
        for (ci, input, impl_out, model_out) in mismatches {
            if !seen.insert(ci) {
                continue;
            }
            let ch = &self.channels[ci];
            self.failures.push(Failure {
                kind: "correspondence",
                channel: ch.name.to_string(),
                input,
                impl_out,
                model_out,
                detail: format!(
                    "model and implementation disagree on channel {} (Rust: {}; Lean: {})",
                    ch.name, ch.rust_fn, ch.lean
                ),
                no_failing_input: !oracle_failed,
            });
        }
        if let Some(e) = model_error {
            self.failures.push(Failure {
                kind: "correspondence",
                channel: "*".into(),
                input: String::new(),
                impl_out: String::new(),
                model_out: String::new(),
                detail: format!("model driver failed: {}", e),
                no_failing_input: !oracle_failed,
            });
        }
        self.write_results(chan_stats);
    }

    #[allow(clippy::type_complexity)]
    fn compare_all(
        &self,
    ) -> (BTreeMap<String, Value>, Vec<(usize, String, String, String)>, Option<String>) {
        let mut stats: BTreeMap<String, (u64, u64, u64)> = BTreeMap::new(); // cases, mismatches, maxulp
        let idx: Vec<usize> = (0..self.cases.len())
            .filter(|&i| self.channels[self.cases[i].chan].modelled)
            .collect();
        let mut mismatches = vec![];
        let mut model_error = None;
        for c in &self.cases {
            stats.entry(self.channels[c.chan].name.to_string()).or_insert((0, 0, 0)).0 += 1;
        }
        if !idx.is_empty() {
            let lines: Vec<&str> = idx.iter().map(|&i| self.cases[i].input.as_str()).collect();
            match self.run_model(&lines) {
                Ok(outs) => {
                    for (k, &i) in idx.iter().enumerate() {
                        let c = &self.cases[i];
                        let ch = &self.channels[c.chan];
                        let (ok, ulp) = compare_lines(&c.impl_out, &outs[k], ch.tol);
                        let e = stats.get_mut(ch.name).unwrap();
                        e.2 = e.2.max(ulp);
                        if !ok {
                            e.1 += 1;
                            mismatches.push((c.chan, c.input.clone(), c.impl_out.clone(), outs[k].clone()));
                        }
                    }
                }
                Err(e) => model_error = Some(e),
            }
        }
        let mut out = BTreeMap::new();
        for ch in &self.channels {
            let (n, mm, ulp) = stats.get(ch.name).cloned().unwrap_or((0, 0, 0));
            out.insert(
                ch.name.to_string(),
                json!({"cases": n, "mismatches": mm, "max_ulp": ulp, "modelled": ch.modelled,
                       "has_oracle": ch.oracle.is_some(), "rust_fn": ch.rust_fn, "lean": ch.lean}),
            );
        }
        (out, mismatches, model_error)
    }

    fn write_results(&mut self, chan_stats: BTreeMap<String, Value>) -> ! {
        let mut distinct = HashSet::new();
        let mut nontrivial = 0u64;
        for c in &self.cases {
            if distinct.insert((c.chan, c.input.clone())) {
                if !c.impl_out.starts_with("panic") && !c.impl_out.starts_with("err") {
                    nontrivial += 1;
                }
            }
        }
        // samples: first case of each channel
        let mut samples = vec![];
        let mut seen = HashSet::new();
        for c in &self.cases {
            if seen.insert(c.chan) && samples.len() < 8 {
                let trunc = |s: &str| -> String { s.chars().take(600).collect() };
                samples.push(json!({"channel": self.channels[c.chan].name,
                    "request": trunc(&c.input), "impl_response": trunc(&c.impl_out)}));
            }
        }
        std::fs::create_dir_all(&self.replay_dir).ok();
        let mut fails = vec![];
        for (k, f) in self.failures.iter().enumerate() {
            let path = format!("{}/{}-{}-{}.json", self.replay_dir, f.kind, self.seed, k);
            let v = json!({
                "property": self.prop, "kind": f.kind, "channel": f.channel,
                "input": f.input, "impl_out": f.impl_out, "model_out": f.model_out,
                "detail": f.detail, "no_failing_input_found": f.no_failing_input,
                "seed": self.seed, "tier": self.tier,
            });
            std::fs::write(&path, serde_json::to_string_pretty(&v).unwrap()).ok();
            fails.push(json!({"kind": f.kind, "channel": f.channel, "replay": path,
                "detail": f.detail.chars().take(500).collect::<String>(),
                "input": f.input.chars().take(2000).collect::<String>(),
                "no_failing_input_found": f.no_failing_input}));
        }
        let search_cases = self.cases.iter().filter(|c| c.search_only).count();
        let res = json!({
            "property": self.prop, "tier": self.tier, "seed": self.seed,
            "wall_s": self.start.elapsed().as_secs_f64(),
            "evaluations": self.cases.len(),
            "search_cases": search_cases,
            "distinct_nontrivial": nontrivial,
            "channels": chan_stats,
            "distribution": self.dist,
            "samples": samples,
            "failures": fails,
            "notes": self.notes,
        });
        let text = serde_json::to_string_pretty(&res).unwrap();
        match &self.out_path {
            Some(p) => std::fs::write(p, text).expect("write results"),
            None => println!("{}", text),
        }
        std::process::exit(if self.failures.is_empty() { 0 } else { 1 });
    }
}

/// Run one request in a child process of the current executable (`--one`), with a
/// wall-clock limit and an address-space cap.  Used where the implementation may hang or
/// exhaust memory.  Returns the response, or `hang` / `abort:<status>`.
pub fn run_isolated(line: &str, timeout_s: f64, mem_mb: u64) -> String {
    let exe = std::env::current_exe().expect("current exe");
    let script = format!("ulimit -v {}; exec \"$0\" --one", mem_mb * 1024);
    let mut child = Command::new("sh")
        .arg("-c")
        .arg(&script)
        .arg(exe)
        .stdin(Stdio::piped())
        .stdout(Stdio::piped())
        .stderr(Stdio::null())
        .spawn()
        .expect("spawn child");
    {
        let mut stdin = child.stdin.take().unwrap();
        let _ = stdin.write_all(format!("{}\n", line).as_bytes());
    }
    let t0 = Instant::now();
    loop {
        match child.try_wait() {
            Ok(Some(status)) => {
                let mut s = String::new();
                use std::io::Read;
                child.stdout.take().unwrap().read_to_string(&mut s).ok();
                let s = s.trim().to_string();
                if status.success() && !s.is_empty() {
                    return s;
                }
                return format!("abort:{:?}", status.code());
            }
            Ok(None) => {
                if t0.elapsed().as_secs_f64() > timeout_s {
                    let _ = child.kill();
                    let _ = child.wait();
                    return "hang".to_string();
                }
                std::thread::sleep(std::time::Duration::from_millis(2));
            }
            Err(_) => return "abort:wait".to_string(),
        }
    }
}
