//! C05 — equivalent formulations and configurations give consistent answers; identical
//! calls are bit-reproducible.
//!
//! Two kinds of channels:
//!  * `step.*` / `kkt.solve`: the real step machinery (variables.rs, kktsystem.rs,
//!    solver.rs) against the Lean model (`ClarabelModel/{Step,KktSystem}.lean`), bit level;
//!  * `meta.*`: metamorphic oracles on whole solves (not modelled): the request is a
//!    seed, the problem and all its variants are regenerated from it, so that a failing
//!    request line is its own replay.
#![allow(non_snake_case)]
#![allow(mixed_script_confusables)]
#![allow(clippy::needless_range_loop)]
use clarabel::algebra::*;
use clarabel::solver::traits::{KKTSystem, Variables};
use clarabel::solver::*;
use clarabel::verif_hooks::cones::{CompositeCone, Cone};
use clarabel::verif_hooks::kktsolvers::{HasLinearSolverInfo, KKTSolver, LinearSolverInfo};
use clarabel::verif_hooks::step::{self, ScalingStrategy, StepDirection};
use std::sync::{Arc, Mutex};
use vharness::proto::ff;
use vharness::*;

const EPS: f64 = f64::EPSILON;

// ======================================================================= wire helpers

fn put_cones(l: Line, cones: &[(bool, usize)]) -> Line {
    let ck: Vec<usize> = cones.iter().map(|c| c.0 as usize).collect();
    let cd: Vec<usize> = cones.iter().map(|c| c.1).collect();
    l.us("ck", &ck).us("cd", &cd)
}
fn get_cones(r: &Req) -> (Vec<SupportedConeT<f64>>, Vec<bool>) {
    let ck = r.us("ck");
    let cd = r.us("cd");
    let mut v = vec![];
    let mut mask = vec![];
    for (k, d) in ck.iter().zip(cd.iter()) {
        if *k == 0 {
            v.push(ZeroConeT(*d));
        } else {
            v.push(NonnegativeConeT(*d));
        }
        for _ in 0..*d {
            mask.push(*k != 0);
        }
    }
    (v, mask)
}
fn put_vars(l: Line, p: &str, v: &DefaultVariables<f64>) -> Line {
    l.fs(&format!("{}x", p), &v.x)
        .fs(&format!("{}s", p), &v.s)
        .fs(&format!("{}z", p), &v.z)
        .f(&format!("{}tau", p), v.τ)
        .f(&format!("{}kappa", p), v.κ)
}
fn get_vars(r: &Req, p: &str) -> DefaultVariables<f64> {
    let x = r.fs(&format!("{}x", p));
    let s = r.fs(&format!("{}s", p));
    let z = r.fs(&format!("{}z", p));
    let mut v = DefaultVariables::<f64>::new(x.len(), s.len());
    v.x = x;
    v.s = s;
    v.z = z;
    v.τ = r.f(&format!("{}tau", p));
    v.κ = r.f(&format!("{}kappa", p));
    v
}
fn fmt_vars(p: &str, v: &DefaultVariables<f64>) -> String {
    put_vars(Line::out(), p, v).done()
}
fn out_vars(out: &str, p: &str) -> Option<DefaultVariables<f64>> {
    let r = Req::parse(&format!("x {}", out))?;
    if !r.has(&format!("{}tau", p)) {
        return None;
    }
    Some(get_vars(&r, p))
}

// ======================================================================= step channels

fn run_calc_mu(r: &Req) -> String {
    let mut v = DefaultVariables::<f64>::new(0, 0);
    v.τ = r.f("tau");
    v.κ = r.f("kappa");
    let res = step::residuals::from_parts(vec![], vec![], 0.0, r.f("dotsz"));
    let deg = r.u("deg");
    let list = if deg > 0 { vec![NonnegativeConeT(deg)] } else { vec![] };
    let cones = CompositeCone::<f64>::new(&list);
    format!("mu={}", ff(v.calc_mu(&res, &cones)))
}
fn oracle_calc_mu(r: &Req, out: &str) -> Result<(), String> {
    let o = Req::parse(&format!("x {}", out)).ok_or("parse")?;
    let mu = o.f("mu");
    let (d, t, k, n) = (r.f("dotsz"), r.f("tau"), r.f("kappa"), r.u("deg") as f64 + 1.0);
    let want = d + t * k;
    if !want.is_finite() || !mu.is_finite() {
        return Ok(());
    }
    let err = (mu * n - want).abs();
    if err > 8.0 * EPS * (d.abs() + (t * k).abs()) + f64::MIN_POSITIVE * n * 4.0 {
        return Err(format!("mu*(deg+1)={} but dot_sz+tau*kappa={}", mu * n, want));
    }
    Ok(())
}

fn tiny_solver() -> DefaultSolver<f64> {
    let P = CscMatrix::<f64>::zeros((1, 1));
    let A = CscMatrix::new(1, 1, vec![0, 1], vec![0], vec![1.0]);
    let st = DefaultSettingsBuilder::default().verbose(false).build().unwrap();
    DefaultSolver::new(&P, &[1.0], &A, &[1.0], &[NonnegativeConeT(1)], st)
}
fn run_centering(r: &Req) -> String {
    let s = tiny_solver();
    format!("sigma={}", ff(step::solver::centering_parameter(&s, r.f("a"))))
}
fn oracle_centering(r: &Req, out: &str) -> Result<(), String> {
    let o = Req::parse(&format!("x {}", out)).ok_or("parse")?;
    let (a, sg) = (r.f("a"), o.f("sigma"));
    if !(0.0..=1.0).contains(&a) {
        return Ok(());
    }
    if !(0.0..=1.0).contains(&sg) {
        return Err(format!("sigma={} outside [0,1] for alpha={}", sg, a));
    }
    let want = (1.0 - a).powf(3.0);
    if (sg - want).abs() > 8.0 * EPS * want.abs() + 1e-300 {
        return Err(format!("sigma={} expected (1-a)^3={}", sg, want));
    }
    Ok(())
}

fn run_add_step(r: &Req) -> String {
    let mut v = get_vars(r, "v");
    let d = get_vars(r, "d");
    v.add_step(&d, r.f("a"));
    fmt_vars("", &v)
}
fn oracle_add_step(r: &Req, out: &str) -> Result<(), String> {
    let v = get_vars(r, "v");
    let d = get_vars(r, "d");
    let a = r.f("a");
    let o = match out_vars(out, "") {
        Some(o) => o,
        None => return Ok(()),
    };
    let chk = |name: &str, v: f64, d: f64, got: f64| -> Result<(), String> {
        let want = v + a * d;
        if !want.is_finite() {
            return Ok(());
        }
        if (got - want).abs() > 4.0 * EPS * (v.abs() + (a * d).abs()) {
            return Err(format!("{}: got {} want {}", name, got, want));
        }
        Ok(())
    };
    for i in 0..v.x.len() {
        chk("x", v.x[i], d.x[i], o.x[i])?;
    }
    for i in 0..v.s.len() {
        chk("s", v.s[i], d.s[i], o.s[i])?;
        chk("z", v.z[i], d.z[i], o.z[i])?;
    }
    chk("tau", v.τ, d.τ, o.τ)?;
    chk("kappa", v.κ, d.κ, o.κ)
}

fn scaled_cones(r: &Req, v: &DefaultVariables<f64>) -> (CompositeCone<f64>, Vec<bool>) {
    let (list, mask) = get_cones(r);
    let mut cones = CompositeCone::<f64>::new(&list);
    cones.update_scaling(&v.s, &v.z, 1.0, ScalingStrategy::PrimalDual);
    (cones, mask)
}

fn run_affine_rhs(r: &Req) -> String {
    let v = get_vars(r, "v");
    let (cones, _) = scaled_cones(r, &v);
    let res = step::residuals::from_parts(r.fs("rx"), r.fs("rz"), r.f("rtau"), 0.0);
    let mut rhs = DefaultVariables::<f64>::new(v.x.len(), v.s.len());
    rhs.affine_step_rhs(&res, &v, &cones);
    fmt_vars("", &rhs)
}
fn oracle_affine_rhs(r: &Req, out: &str) -> Result<(), String> {
    let v = get_vars(r, "v");
    let (_, mask) = get_cones(r);
    let o = match out_vars(out, "") {
        Some(o) => o,
        None => return Ok(()),
    };
    if proto::ffs(&o.x) != proto::ffs(&r.fs("rx")) || proto::ffs(&o.z) != proto::ffs(&r.fs("rz")) {
        return Err("d.x / d.z are not copies of rx / rz".into());
    }
    if ff(o.τ) != ff(r.f("rtau")) {
        return Err("d.tau != r_tau".into());
    }
    for i in 0..mask.len() {
        let want = if mask[i] { v.s[i] * v.z[i] } else { 0.0 };
        if want.is_finite() && v.s[i] > 0.0 && v.z[i] > 0.0 && (o.s[i] - want).abs() > 8.0 * EPS * want.abs() + 1e-300 {
            return Err(format!("d.s[{}]={} expected s*z={}", i, o.s[i], want));
        }
        if !mask[i] && o.s[i] != 0.0 {
            return Err(format!("d.s[{}] nonzero on a zero-cone row", i));
        }
    }
    let wk = v.τ * v.κ;
    if wk.is_finite() && ff(o.κ) != ff(wk) {
        return Err("d.kappa != tau*kappa".into());
    }
    Ok(())
}

fn run_combined_rhs(r: &Req) -> String {
    let v = get_vars(r, "v");
    let mut d = get_vars(r, "d");
    let (mut cones, _) = scaled_cones(r, &v);
    let res = step::residuals::from_parts(r.fs("rx"), r.fs("rz"), r.f("rtau"), 0.0);
    let mut rhs = DefaultVariables::<f64>::new(v.x.len(), v.s.len());
    rhs.affine_step_rhs(&res, &v, &cones);
    rhs.combined_step_rhs(&res, &v, &mut cones, &mut d, r.f("sigma"), r.f("mu"), r.f("m"));
    format!("{} {}", fmt_vars("", &rhs), fmt_vars("d", &d))
}
fn oracle_combined_rhs(r: &Req, out: &str) -> Result<(), String> {
    // d.s = s∘z + m·Δs∘Δz − σμ on nonnegative rows, 0 on zero rows; d.x=(1−σ)rx; d.z=(1−σ)rz;
    // d.τ=(1−σ)rτ; d.κ = τκ + m·ΔτΔκ − σμ
    let v = get_vars(r, "v");
    let d = get_vars(r, "d");
    let (_, mask) = get_cones(r);
    let (sg, mu, m) = (r.f("sigma"), r.f("mu"), r.f("m"));
    let o = match out_vars(out, "") {
        Some(o) => o,
        None => return Ok(()),
    };
    let (rx, rz) = (r.fs("rx"), r.fs("rz"));
    let close = |got: f64, want: f64, scale: f64| !want.is_finite() || !scale.is_finite() || (got - want).abs() <= 32.0 * EPS * scale + 1e-290;
    for i in 0..rx.len() {
        let w = (1.0 - sg) * rx[i];
        if !close(o.x[i], w, w.abs()) {
            return Err(format!("d.x[{}]={} expected {}", i, o.x[i], w));
        }
    }
    for i in 0..mask.len() {
        let w = (1.0 - sg) * rz[i];
        if !close(o.z[i], w, w.abs()) {
            return Err(format!("d.z[{}]={} expected {}", i, o.z[i], w));
        }
        if mask[i] {
            if !(v.s[i] > 0.0 && v.z[i] > 0.0) {
                continue;
            }
            let t = [v.s[i] * v.z[i], m * d.s[i] * d.z[i], -sg * mu];
            let w = t[0] + t[1] + t[2];
            let sc = t.iter().map(|x| x.abs()).sum::<f64>();
            if !close(o.s[i], w, sc) {
                return Err(format!("d.s[{}]={} expected s z + m ds dz - sigma mu = {}", i, o.s[i], w));
            }
        } else if o.s[i] != 0.0 {
            return Err(format!("d.s[{}] nonzero on a zero-cone row", i));
        }
    }
    let w = (1.0 - sg) * r.f("rtau");
    if !close(o.τ, w, w.abs()) {
        return Err(format!("d.tau={} expected {}", o.τ, w));
    }
    let t = [v.τ * v.κ, m * d.τ * d.κ, -sg * mu];
    let w = t[0] + t[1] + t[2];
    if !close(o.κ, w, t.iter().map(|x| x.abs()).sum::<f64>()) {
        return Err(format!("d.kappa={} expected {}", o.κ, w));
    }
    Ok(())
}

fn run_sym_init(r: &Req) -> String {
    let mut v = get_vars(r, "v");
    let (list, _) = get_cones(r);
    let mut cones = CompositeCone::<f64>::new(&list);
    v.symmetric_initialization(&mut cones);
    fmt_vars("", &v)
}
fn oracle_sym_init(r: &Req, out: &str) -> Result<(), String> {
    let v = get_vars(r, "v");
    let (_, mask) = get_cones(r);
    let o = match out_vars(out, "") {
        Some(o) => o,
        None => return Ok(()),
    };
    if o.τ != 1.0 || o.κ != 1.0 {
        return Err("tau,kappa not reset to 1".into());
    }
    if v.s.iter().chain(v.z.iter()).any(|x| !x.is_finite() || x.abs() > 1e100) {
        return Ok(());
    }
    for i in 0..mask.len() {
        if mask[i] {
            // margin at least 1 (up to the rounding of the two-stage shift)
            let tol = 4.0 * EPS * (v.s[i].abs() + v.z[i].abs() + 1.0) * 4.0;
            let big = v.s.iter().chain(v.z.iter()).fold(1.0f64, |a, x| a.max(x.abs()));
            if o.s[i] < 1.0 - tol - 8.0 * EPS * big || o.z[i] < 1.0 - tol - 8.0 * EPS * big {
                return Err(format!("row {}: s={} z={} not shifted to margin >= 1", i, o.s[i], o.z[i]));
            }
        } else {
            if o.s[i] != 0.0 {
                return Err(format!("zero-cone slack s[{}]={} not zeroed", i, o.s[i]));
            }
            if ff(o.z[i]) != ff(v.z[i]) {
                return Err(format!("zero-cone dual z[{}] changed", i));
            }
        }
    }
    // the shift is uniform over the nonnegative rows
    let nn: Vec<usize> = (0..mask.len()).filter(|&i| mask[i]).collect();
    for w in nn.windows(2) {
        let (a, b) = (w[0], w[1]);
        let d1 = (o.s[a] - v.s[a]) - (o.s[b] - v.s[b]);
        let sc = o.s[a].abs() + v.s[a].abs() + o.s[b].abs() + v.s[b].abs();
        if d1.abs() > 16.0 * EPS * sc {
            return Err(format!("shift of s differs between rows {} and {}", a, b));
        }
    }
    Ok(())
}

fn run_step_length(r: &Req) -> String {
    let v = get_vars(r, "v");
    let d = get_vars(r, "d");
    let (list, _) = get_cones(r);
    let mut cones = CompositeCone::<f64>::new(&list);
    let mut st = DefaultSettingsBuilder::default().verbose(false).build().unwrap();
    st.max_step_fraction = r.f("msf");
    let dir = if r.b("combined") { StepDirection::Combined } else { StepDirection::Affine };
    format!("alpha={}", ff(v.calc_step_length(&d, &mut cones, &st, dir)))
}
fn oracle_step_length(r: &Req, out: &str) -> Result<(), String> {
    let v = get_vars(r, "v");
    let d = get_vars(r, "d");
    let (_, mask) = get_cones(r);
    let o = Req::parse(&format!("x {}", out)).ok_or("parse")?;
    let a = o.f("alpha");
    let msf = r.f("msf");
    let a0 = if r.b("combined") { a / msf } else { a };
    if !(a0 <= 1.0 + 4.0 * EPS) || a0 < 0.0 {
        return Err(format!("alpha={} outside [0,1]", a0));
    }
    let safe = |x: f64, dx: f64| x + a0 * dx >= -8.0 * EPS * (x.abs() + (a0 * dx).abs());
    for i in 0..mask.len() {
        if mask[i] && v.s[i] > 0.0 && v.z[i] > 0.0 && (!safe(v.s[i], d.s[i]) || !safe(v.z[i], d.z[i])) {
            return Err(format!("row {} leaves the cone at alpha={}", i, a0));
        }
    }
    if v.τ > 0.0 && v.κ > 0.0 && (!safe(v.τ, d.τ) || !safe(v.κ, d.κ)) {
        return Err("tau/kappa become negative".into());
    }
    // tight: some blocking component reaches (nearly) zero unless alpha = 1
    if a0 < 1.0 - 1e-12 {
        let mut minrel = f64::INFINITY;
        let mut upd = |x: f64, dx: f64| {
            if dx < 0.0 {
                minrel = minrel.min((x + a0 * dx).abs() / x.abs().max(1e-300));
            }
        };
        for i in 0..mask.len() {
            if mask[i] {
                upd(v.s[i], d.s[i]);
                upd(v.z[i], d.z[i]);
            }
        }
        upd(v.τ, d.τ);
        upd(v.κ, d.κ);
        if minrel > 1e-9 {
            return Err(format!("alpha={} < 1 but no component is blocking (min ratio {})", a0, minrel));
        }
    }
    Ok(())
}

// ---- kktsystem.solve around a stub linear solver ------------------------------------

struct StubSolver {
    x1: Vec<f64>,
    z1: Vec<f64>,
    rhs: Arc<Mutex<(Vec<f64>, Vec<f64>)>>,
}
impl HasLinearSolverInfo for StubSolver {
    fn linear_solver_info(&self) -> LinearSolverInfo {
        LinearSolverInfo::default()
    }
}
impl KKTSolver<f64> for StubSolver {
    fn update(&mut self, _c: &CompositeCone<f64>, _s: &CoreSettings<f64>) -> bool {
        true
    }
    fn setrhs(&mut self, x: &[f64], z: &[f64]) {
        *self.rhs.lock().unwrap() = (x.to_vec(), z.to_vec());
    }
    fn solve(&mut self, x: Option<&mut [f64]>, z: Option<&mut [f64]>, _s: &CoreSettings<f64>) -> bool {
        if let Some(x) = x {
            x.copy_from_slice(&self.x1);
        }
        if let Some(z) = z {
            z.copy_from_slice(&self.z1);
        }
        true
    }
    fn update_P(&mut self, _P: &CscMatrix<f64>) {}
    fn update_A(&mut self, _A: &CscMatrix<f64>) {}
}

fn run_kkt_solve(r: &Req) -> String {
    let P = r.csc("P");
    let v = get_vars(r, "v");
    let rhs = get_vars(r, "r");
    let (q, b) = (r.fs("q"), r.fs("b"));
    let (n, m) = (v.x.len(), v.s.len());
    let (list, _) = get_cones(r);
    let mut cones = CompositeCone::<f64>::new(&list);
    cones.update_scaling(&v.s, &v.z, 1.0, ScalingStrategy::PrimalDual);
    let mut st = DefaultSettingsBuilder::default().verbose(false).build().unwrap();
    st.equilibrate_enable = false;
    st.presolve_enable = false;
    let A = CscMatrix::<f64>::zeros((m, n));
    let data = DefaultProblemData::new(&P, &q, &A, &b, &list, &st);
    if proto::ffs(&data.q) != proto::ffs(&q) || proto::ffs(&data.b) != proto::ffs(&b) {
        return "err:data-changed".into();
    }
    let sent = Arc::new(Mutex::new((vec![], vec![])));
    let stub = StubSolver { x1: r.fs("x1"), z1: r.fs("z1"), rhs: sent.clone() };
    let mut ks = step::kktsystem::with_kktsolver(Box::new(stub), r.fs("x2"), r.fs("z2"));
    let mut lhs = DefaultVariables::<f64>::new(n, m);
    let dir = if r.b("affine") { StepDirection::Affine } else { StepDirection::Combined };
    let ok = ks.solve(&mut lhs, &rhs, &data, &v, &mut cones, dir, &st);
    if !ok {
        return "err:solve-false".into();
    }
    let g = sent.lock().unwrap();
    Line(fmt_vars("", &lhs)).fs("workx", &g.0).fs("workz", &g.1).done()
}
fn dense_sym_from_triu(P: &CscMatrix<f64>) -> Vec<Vec<f64>> {
    let n = P.n;
    let mut d = vec![vec![0.0; n]; n];
    for c in 0..n {
        for k in P.colptr[c]..P.colptr[c + 1] {
            let rr = P.rowval[k];
            d[rr][c] += P.nzval[k];
            if rr != c {
                d[c][rr] += P.nzval[k];
            }
        }
    }
    d
}
fn oracle_kkt_solve(r: &Req, out: &str) -> Result<(), String> {
    // Newton equations that do not involve the linear solver:
    //   Δx = x1 + Δτ x2, Δz = z1 + Δτ z2, Hs Δz + Δs = −c, κΔτ + τΔκ = −dκ,
    //   q·Δx + b·Δz + Δκ + 2ξᵀPΔx − ξᵀPξ Δτ = −dτ     (ξ = x/τ)
    let o = match out_vars(out, "") {
        Some(o) => o,
        None => return Ok(()),
    };
    let P = dense_sym_from_triu(&r.csc("P"));
    let v = get_vars(r, "v");
    let rhs = get_vars(r, "r");
    let (q, b) = (r.fs("q"), r.fs("b"));
    let (x1, z1, x2, z2) = (r.fs("x1"), r.fs("z1"), r.fs("x2"), r.fs("z2"));
    let (_, mask) = get_cones(r);
    let (n, m) = (v.x.len(), v.s.len());
    let all: Vec<f64> = [&o.x[..], &o.s[..], &o.z[..], &[o.τ, o.κ][..]].concat();
    if all.iter().any(|x| !x.is_finite()) {
        return Ok(());
    }
    let dt = o.τ;
    for i in 0..n {
        let w = x1[i] + dt * x2[i];
        if (o.x[i] - w).abs() > 8.0 * EPS * (x1[i].abs() + (dt * x2[i]).abs()) {
            return Err(format!("dx[{}] != x1 + dtau x2", i));
        }
    }
    for i in 0..m {
        let w = z1[i] + dt * z2[i];
        if (o.z[i] - w).abs() > 8.0 * EPS * (z1[i].abs() + (dt * z2[i]).abs()) {
            return Err(format!("dz[{}] != z1 + dtau z2", i));
        }
        // Hs dz + ds = -c
        let (hs, c) = if mask[i] {
            (v.s[i] / v.z[i], if r.b("affine") { v.s[i] } else { rhs.s[i] / v.z[i] })
        } else {
            (0.0, if r.b("affine") { v.s[i] } else { 0.0 })
        };
        let t = [hs * o.z[i], o.s[i], c];
        let sc: f64 = t.iter().map(|x| x.abs()).sum();
        if (t[0] + t[1] + t[2]).abs() > 64.0 * EPS * sc {
            return Err(format!("row {}: Hs dz + ds + c = {} (scale {})", i, t[0] + t[1] + t[2], sc));
        }
    }
    let t = [v.κ * dt, v.τ * o.κ, rhs.κ];
    let sc: f64 = t.iter().map(|x| x.abs()).sum();
    if (t[0] + t[1] + t[2]).abs() > 64.0 * EPS * sc {
        return Err(format!("kappa dtau + tau dkappa + d.kappa = {}", t[0] + t[1] + t[2]));
    }
    // τ row, with the sum of absolute values of all products as the rounding scale
    let xi: Vec<f64> = v.x.iter().map(|x| x / v.τ).collect();
    let mut acc = 0.0;
    let mut sc = 0.0;
    let mut add = |t: f64| {
        acc += t;
        sc += t.abs();
    };
    for i in 0..n {
        add(q[i] * o.x[i]);
    }
    for i in 0..m {
        add(b[i] * o.z[i]);
    }
    add(o.κ);
    add(rhs.τ);
    for i in 0..n {
        for j in 0..n {
            add(2.0 * xi[i] * P[i][j] * o.x[j]);
            add(-xi[i] * P[i][j] * xi[j] * dt);
        }
    }
    // the equation is solved through a division by tau_den: scale by the terms of both
    let mut sc2 = sc;
    for i in 0..n {
        sc2 += (q[i] * x1[i]).abs() + (dt * q[i] * x2[i]).abs();
        for j in 0..n {
            sc2 += (2.0 * xi[i] * P[i][j] * x1[j]).abs() + (2.0 * dt * xi[i] * P[i][j] * x2[j]).abs();
            sc2 += (dt * x2[i] * P[i][j] * x2[j]).abs() * 2.0;
        }
    }
    for i in 0..m {
        sc2 += (b[i] * z1[i]).abs() + (dt * b[i] * z2[i]).abs();
    }
    sc2 += (rhs.κ / v.τ).abs() + (v.κ / v.τ * dt).abs();
    if acc.abs() > 256.0 * ((n + m + 4) as f64) * EPS * sc2 {
        return Err(format!("tau row residual {} (scale {})", acc, sc2));
    }
    Ok(())
}

// ======================================================================= problems

#[derive(Clone)]
struct Prob {
    n: usize,
    P: Vec<Vec<f64>>, // dense symmetric
    q: Vec<f64>,
    A: Vec<Vec<f64>>, // dense m×n
    b: Vec<f64>,
    cones: Vec<SupportedConeT<f64>>,
}

fn cone_dim(c: &SupportedConeT<f64>) -> usize {
    match c {
        ZeroConeT(k) | NonnegativeConeT(k) | SecondOrderConeT(k) => *k,
        ExponentialConeT() | PowerConeT(_) => 3,
        GenPowerConeT(a, d) => a.len() + d,
        PSDTriangleConeT(k) => k * (k + 1) / 2,
    }
}

/// strictly interior points of K and K*
fn interior(c: &SupportedConeT<f64>, rng: &mut Rng) -> (Vec<f64>, Vec<f64>) {
    match c {
        ZeroConeT(k) => (vec![0.0; *k], (0..*k).map(|_| rng.normal()).collect()),
        NonnegativeConeT(k) => (
            (0..*k).map(|_| rng.uniform(0.2, 2.0)).collect(),
            (0..*k).map(|_| rng.uniform(0.2, 2.0)).collect(),
        ),
        SecondOrderConeT(k) => {
            let mut f = |rng: &mut Rng| {
                let v: Vec<f64> = (1..*k).map(|_| rng.normal()).collect();
                let nv = v.iter().map(|x| x * x).sum::<f64>().sqrt();
                let mut s = vec![nv + rng.uniform(0.2, 1.5)];
                s.extend(v);
                s
            };
            (f(rng), f(rng))
        }
        ExponentialConeT() => {
            let (x, y) = (rng.uniform(-1.0, 1.0), rng.uniform(0.5, 2.0));
            let s = vec![x, y, y * (x / y).exp() + rng.uniform(0.2, 1.0)];
            let (u, v) = (-rng.uniform(0.5, 2.0), rng.uniform(-1.0, 1.0));
            let z = vec![u, v, -u * (v / u).exp() / std::f64::consts::E + rng.uniform(0.2, 1.0)];
            (s, z)
        }
        PowerConeT(a) => {
            let (x, y) = (rng.uniform(0.5, 2.0), rng.uniform(0.5, 2.0));
            let s = vec![x, y, rng.uniform(-0.7, 0.7) * x.powf(*a) * y.powf(1.0 - a)];
            let (u, v) = (rng.uniform(0.5, 2.0), rng.uniform(0.5, 2.0));
            let z = vec![u, v, rng.uniform(-0.7, 0.7) * (u / a).powf(*a) * (v / (1.0 - a)).powf(1.0 - a)];
            (s, z)
        }
        GenPowerConeT(al, d2) => {
            let xs: Vec<f64> = al.iter().map(|_| rng.uniform(0.5, 2.0)).collect();
            let bound: f64 = xs.iter().zip(al).map(|(x, a)| x.powf(*a)).product();
            let mut w: Vec<f64> = (0..*d2).map(|_| rng.normal()).collect();
            let nw = w.iter().map(|x| x * x).sum::<f64>().sqrt().max(1e-9);
            let sc = rng.uniform(0.0, 0.7) * bound / nw;
            w.iter_mut().for_each(|x| *x *= sc);
            let s = [xs, w].concat();
            let us: Vec<f64> = al.iter().map(|_| rng.uniform(0.5, 2.0)).collect();
            let bound: f64 = us.iter().zip(al).map(|(u, a)| (u / a).powf(*a)).product();
            let mut w: Vec<f64> = (0..*d2).map(|_| rng.normal()).collect();
            let nw = w.iter().map(|x| x * x).sum::<f64>().sqrt().max(1e-9);
            let sc = rng.uniform(0.0, 0.7) * bound / nw;
            w.iter_mut().for_each(|x| *x *= sc);
            (s, [us, w].concat())
        }
        PSDTriangleConeT(k) => {
            let mut f = |rng: &mut Rng| {
                let g: Vec<Vec<f64>> = (0..*k).map(|_| (0..*k).map(|_| rng.normal()).collect()).collect();
                let mut v = vec![];
                for c in 0..*k {
                    for r in 0..=c {
                        let mut e: f64 = (0..*k).map(|t| g[r][t] * g[c][t]).sum::<f64>() / (*k as f64);
                        if r == c {
                            e += 0.5;
                        } else {
                            e *= std::f64::consts::SQRT_2;
                        }
                        v.push(e);
                    }
                }
                v
            };
            (f(rng), f(rng))
        }
    }
}

fn matvec(A: &[Vec<f64>], x: &[f64]) -> Vec<f64> {
    A.iter().map(|row| row.iter().zip(x).map(|(a, b)| a * b).sum()).collect()
}
fn matTvec(A: &[Vec<f64>], n: usize, z: &[f64]) -> Vec<f64> {
    let mut out = vec![0.0; n];
    for (row, zi) in A.iter().zip(z) {
        for j in 0..n {
            out[j] += row[j] * zi;
        }
    }
    out
}
fn dot(a: &[f64], b: &[f64]) -> f64 {
    a.iter().zip(b).map(|(x, y)| x * y).sum()
}

fn random_cones(rng: &mut Rng, fam: &str, budget: usize) -> Vec<SupportedConeT<f64>> {
    let mut v = vec![];
    let mut m = 0;
    let kinds: &[&str] = match fam {
        "lp" | "qp" | "pinf" | "dinf" => &["nn", "nn", "zero"],
        "socp" => &["soc", "nn", "soc", "zero"],
        "exp" => &["exp", "nn", "exp", "zero"],
        "pow" => &["pow", "nn", "genpow", "zero"],
        "psd" => &["psd", "nn", "zero"],
        _ => &["nn", "zero", "soc", "exp", "pow", "psd", "genpow", "nn"],
    };
    let want = 1 + rng.below(4);
    let mut tries = 0;
    while v.len() < want && tries < 40 {
        tries += 1;
        let c = match *rng.choose(kinds) {
            "nn" => NonnegativeConeT(1 + rng.below(4)),
            "zero" => ZeroConeT(1 + rng.below(2)),
            // dimensions > 4 use the sparse KKT expansion (SOC_NO_EXPANSION_MAX_SIZE = 4)
            "soc" => SecondOrderConeT(*rng.choose(&[2, 3, 4, 5, 6, 8])),
            "exp" => ExponentialConeT(),
            "pow" => PowerConeT(*rng.choose(&[0.5, 0.3, 0.75])),
            "genpow" => GenPowerConeT(vec![0.4, 0.6], 1 + rng.below(2)),
            _ => PSDTriangleConeT(2 + rng.below(2)),
        };
        if m + cone_dim(&c) <= budget {
            m += cone_dim(&c);
            v.push(c);
        }
    }
    if v.iter().all(|c| matches!(c, ZeroConeT(_))) {
        v.push(NonnegativeConeT(2));
    }
    v
}

/// planted problem: `kind` ∈ feas / pinf / dinf
fn gen_problem(rng: &mut Rng, fam: &str) -> Prob {
    let n = 1 + rng.below(10);
    let cones = random_cones(rng, fam, 14);
    let m: usize = cones.iter().map(cone_dim).sum();
    let dens = *rng.choose(&[0.5, 0.8, 1.0]);
    let mut A: Vec<Vec<f64>> = (0..m)
        .map(|_| (0..n).map(|_| if rng.bool(dens) { rng.normal() } else { 0.0 }).collect())
        .collect();
    let (mut s0, mut z0) = (vec![], vec![]);
    for c in &cones {
        let (s, z) = interior(c, rng);
        s0.extend(s);
        z0.extend(z);
    }
    let x0: Vec<f64> = (0..n).map(|_| rng.normal()).collect();
    let quad = matches!(fam, "qp") || (!matches!(fam, "lp") && rng.bool(0.4));
    let rnk = if quad { 1 + rng.below(n) } else { 0 };
    let mut G: Vec<Vec<f64>> = (0..rnk).map(|_| (0..n).map(|_| rng.normal()).collect()).collect();
    match fam {
        "pinf" => {
            // certificate z0 ∈ int K*: A'z0 = 0, b'z0 = -1
            let zz = dot(&z0, &z0);
            let atz = matTvec(&A, n, &z0);
            for i in 0..m {
                for j in 0..n {
                    A[i][j] -= z0[i] * atz[j] / zz;
                }
            }
        }
        "dinf" => {
            // certificate x0: P x0 = 0, A x0 + s0 = 0, q'x0 = -1
            let xx = dot(&x0, &x0);
            let ax = matvec(&A, &x0);
            for i in 0..m {
                for j in 0..n {
                    A[i][j] -= (ax[i] + s0[i]) * x0[j] / xx;
                }
            }
            let gx = matvec(&G, &x0);
            for i in 0..rnk {
                for j in 0..n {
                    G[i][j] -= gx[i] * x0[j] / xx;
                }
            }
        }
        _ => {}
    }
    let mut P = vec![vec![0.0; n]; n];
    for i in 0..n {
        for j in 0..=i {
            let e: f64 = (0..rnk).map(|t| G[t][i] * G[t][j]).sum();
            P[i][j] = e;
            P[j][i] = e;
        }
    }
    // a strictly feasible primal point (x1,s1) and dual point (x1', z1)
    let x1: Vec<f64> = if fam == "dinf" { (0..n).map(|_| rng.normal()).collect() } else { x0.clone() };
    let (s1, z1) = if fam == "pinf" || fam == "dinf" {
        let (mut s, mut z) = (vec![], vec![]);
        for c in &cones {
            let (a, b) = interior(c, rng);
            s.extend(a);
            z.extend(b);
        }
        (s, z)
    } else {
        (s0.clone(), z0.clone())
    };
    let mut b: Vec<f64> = matvec(&A, &x1).iter().zip(&s1).map(|(a, s)| a + s).collect();
    let px = matvec(&P, &x1);
    let atz = matTvec(&A, n, &z1);
    let mut q: Vec<f64> = (0..n).map(|j| -px[j] - atz[j]).collect();
    match fam {
        "pinf" => {
            let zz = dot(&z0, &z0);
            let t = (dot(&b, &z0) + 1.0) / zz;
            for i in 0..m {
                b[i] -= z0[i] * t;
            }
        }
        "dinf" => {
            let xx = dot(&x0, &x0);
            let t = (dot(&q, &x0) + 1.0) / xx;
            for j in 0..n {
                q[j] -= x0[j] * t;
            }
        }
        _ => {}
    }
    Prob { n, P, q, A, b, cones }
}

fn csc_from_dense(d: &[Vec<f64>], m: usize, n: usize, triu: bool) -> CscMatrix<f64> {
    let mut colptr = vec![0];
    let mut rowval = vec![];
    let mut nzval = vec![];
    for c in 0..n {
        for r in 0..m {
            if triu && r > c {
                continue;
            }
            if d[r][c] != 0.0 {
                rowval.push(r);
                nzval.push(d[r][c]);
            }
        }
        colptr.push(rowval.len());
    }
    CscMatrix::new(m, n, colptr, rowval, nzval)
}

#[derive(Clone, Debug)]
struct RunOut {
    status: SolverStatus,
    x: Vec<f64>,
    s: Vec<f64>,
    z: Vec<f64>,
    pobj: f64,
    dobj: f64,
    iters: u32,
    r_prim: f64,
    r_dual: f64,
}
impl RunOut {
    fn bits(&self) -> String {
        format!(
            "{:?}|{}|{}|{}|{}|{}|{}|{}|{}",
            self.status,
            proto::ffs(&self.x),
            proto::ffs(&self.s),
            proto::ffs(&self.z),
            ff(self.pobj),
            ff(self.dobj),
            self.iters,
            ff(self.r_prim),
            ff(self.r_dual)
        )
    }
}
fn harvest(s: &DefaultSolver<f64>) -> RunOut {
    let so = &s.solution;
    RunOut {
        status: so.status,
        x: so.x.clone(),
        s: so.s.clone(),
        z: so.z.clone(),
        pobj: so.obj_val,
        dobj: so.obj_val_dual,
        iters: so.iterations,
        r_prim: so.r_prim,
        r_dual: so.r_dual,
    }
}
fn base_settings() -> DefaultSettings<f64> {
    let mut st = DefaultSettingsBuilder::default().verbose(false).build().unwrap();
    st.direct_solve_method = "qdldl".into();
    st.max_threads = 1;
    st
}
fn build(pr: &Prob, pfull: bool, st: &DefaultSettings<f64>) -> DefaultSolver<f64> {
    let m = pr.b.len();
    let P = csc_from_dense(&pr.P, pr.n, pr.n, !pfull);
    let A = csc_from_dense(&pr.A, m, pr.n, false);
    DefaultSolver::new(&P, &pr.q, &A, &pr.b, &pr.cones, st.clone())
}
fn solve(pr: &Prob, pfull: bool, st: &DefaultSettings<f64>) -> RunOut {
    let mut s = build(pr, pfull, st);
    s.solve();
    if std::env::var("VERIF_DEBUG").is_ok() {
        let px = matvec(&pr.P, &s.solution.x);
        let xpx = dot(&s.solution.x, &px);
        let bz = dot(&pr.b, &s.solution.z);
        let qx = dot(&pr.q, &s.solution.x);
        let l1 = |v: &[f64]| v.iter().map(|x| x.abs()).fold(0.0, f64::max);
        eprintln!("DBG status={:?} it={} pobj={:e} (formula {:e}) dobj={:e} (formula {:e}) b'z={:e} x'Px={:e} |x|={:e} |z|={:e} |s|={:e} |P|max={:e} |q|={:e} |b|={:e}", s.solution.status, s.solution.iterations, s.solution.obj_val, 0.5 * xpx + qx, s.solution.obj_val_dual, -bz - 0.5 * xpx, bz, xpx, l1(&s.solution.x), l1(&s.solution.z), l1(&s.solution.s), pr.P.iter().map(|r| l1(r)).fold(0.0, f64::max), l1(&pr.q), l1(&pr.b));
    }
    harvest(&s)
}

// ---- variants ------------------------------------------------------------------------

struct Variant {
    name: String,
    pr: Prob,
    st: DefaultSettings<f64>,
    pfull: bool,
    /// x_base[j] = x_var[col[j]]
    col: Vec<usize>,
    /// s_base[i] = s_var[row[i]]
    row: Vec<usize>,
    /// objective scale
    c: f64,
}

fn permute_rows(pr: &Prob, row: &[usize], cones: Vec<SupportedConeT<f64>>) -> Prob {
    // new row `row[i]` holds old row i
    let m = pr.b.len();
    let mut A = vec![vec![]; m];
    let mut b = vec![0.0; m];
    for i in 0..m {
        A[row[i]] = pr.A[i].clone();
        b[row[i]] = pr.b[i];
    }
    Prob { n: pr.n, P: pr.P.clone(), q: pr.q.clone(), A, b, cones }
}

fn variants(pr: &Prob, rng: &mut Rng, wide_k: bool) -> Vec<Variant> {
    let m = pr.b.len();
    let n = pr.n;
    let idm: Vec<usize> = (0..m).collect();
    let idn: Vec<usize> = (0..n).collect();
    let st0 = base_settings();
    let mk = |name: &str, p: Prob, st: DefaultSettings<f64>| Variant {
        name: name.into(), pr: p, st, pfull: false, col: idn.clone(), row: idm.clone(), c: 1.0,
    };
    let mut v = vec![mk("base", pr.clone(), st0.clone())];
    // offsets of the cones
    let mut off = vec![0];
    for c in &pr.cones {
        off.push(off.last().unwrap() + cone_dim(c));
    }
    // rows permuted within a nonnegative cone
    let nn: Vec<usize> = (0..pr.cones.len())
        .filter(|&i| matches!(pr.cones[i], NonnegativeConeT(k) if k >= 2))
        .collect();
    if !nn.is_empty() {
        let ci = *rng.choose(&nn);
        let k = cone_dim(&pr.cones[ci]);
        let p = rng.perm(k);
        let mut row = idm.clone();
        for t in 0..k {
            row[off[ci] + t] = off[ci] + p[t];
        }
        let mut x = mk("rowperm-nn", permute_rows(pr, &row, pr.cones.clone()), st0.clone());
        x.row = row;
        v.push(x);
        // split the cone in two (rows unchanged) and add an empty cone
        let a = 1 + rng.below(k - 1);
        let mut cones = vec![];
        for (i, c) in pr.cones.iter().enumerate() {
            if i == ci {
                cones.push(NonnegativeConeT(a));
                cones.push(NonnegativeConeT(0));
                cones.push(NonnegativeConeT(k - a));
            } else {
                cones.push(c.clone());
            }
        }
        let mut p2 = pr.clone();
        p2.cones = cones;
        v.push(mk("nn-split", p2, st0.clone()));
    }
    // a nonnegative cone written as singleton second-order / PSD cones (SOC(1) = PSD(1) = R_+),
    // preferring one that directly follows a zero cone (rows unchanged)
    if !nn.is_empty() || pr.cones.iter().any(|c| matches!(c, NonnegativeConeT(1))) {
        let all_nn: Vec<usize> = (0..pr.cones.len()).filter(|&i| matches!(pr.cones[i], NonnegativeConeT(k) if k >= 1)).collect();
        let after_zero: Vec<usize> = all_nn.iter().cloned().filter(|&i| i > 0 && matches!(pr.cones[i - 1], ZeroConeT(k) if k >= 1)).collect();
        let ci = if !after_zero.is_empty() { *rng.choose(&after_zero) } else { *rng.choose(&all_nn) };
        let k = cone_dim(&pr.cones[ci]);
        let mut cones = vec![];
        for (i, c) in pr.cones.iter().enumerate() {
            if i == ci {
                for t in 0..k {
                    cones.push(if t % 2 == 0 { SecondOrderConeT(1) } else { PSDTriangleConeT(1) });
                }
            } else {
                cones.push(c.clone());
            }
        }
        let mut p2 = pr.clone();
        p2.cones = cones;
        v.push(mk("nn-as-singletons", p2, st0.clone()));
    }
    // merge adjacent nonnegative cones
    if let Some(i) = (0..pr.cones.len().saturating_sub(1)).find(|&i| {
        matches!(pr.cones[i], NonnegativeConeT(_)) && matches!(pr.cones[i + 1], NonnegativeConeT(_))
    }) {
        let mut cones = pr.cones.clone();
        let k = cone_dim(&cones[i]) + cone_dim(&cones[i + 1]);
        cones[i] = NonnegativeConeT(k);
        cones.remove(i + 1);
        let mut p2 = pr.clone();
        p2.cones = cones;
        v.push(mk("nn-merge", p2, st0.clone()));
    }
    // cones reordered
    if pr.cones.len() >= 2 {
        let order = rng.perm(pr.cones.len()); // new position t holds old cone order[t]
        let mut row = vec![0; m];
        let mut pos = 0;
        let mut cones = vec![];
        for &ci in &order {
            for t in 0..cone_dim(&pr.cones[ci]) {
                row[off[ci] + t] = pos + t;
            }
            pos += cone_dim(&pr.cones[ci]);
            cones.push(pr.cones[ci].clone());
        }
        let mut x = mk("cone-reorder", permute_rows(pr, &row, cones), st0.clone());
        x.row = row;
        v.push(x);
    }
    // variables permuted
    if n >= 2 {
        let col = rng.perm(n); // new column col[j] holds old variable j
        let mut p2 = pr.clone();
        for j in 0..n {
            p2.q[col[j]] = pr.q[j];
            for i in 0..m {
                p2.A[i][col[j]] = pr.A[i][j];
            }
            for k in 0..n {
                p2.P[col[j]][col[k]] = pr.P[j][k];
            }
        }
        let mut x = mk("var-perm", p2, st0.clone());
        x.col = col;
        v.push(x);
    }
    // P full
    {
        let mut x = mk("P-full", pr.clone(), st0.clone());
        x.pfull = true;
        v.push(x);
    }
    // objective scaled by k = 10^U(-8,8) (default settings: equilibration on, so that the
    // cost scaling of the Ruiz loop meets its clip bounds for large |log k|); three draws,
    // one of them forced to |log10 k| >= 6.  Every quantity is mapped back through k in
    // `map_back`, so the pair oracle states  dobj_k/k - pobj_1 <= slack  (and vice versa).
    for t in 0..3 {
        let e = if t == 0 {
            rng.uniform(6.0, 8.0) * if rng.bool(0.5) { 1.0 } else { -1.0 }
        } else {
            rng.uniform(-8.0, 8.0)
        };
        // planted infeasible problems: keep the objective at a comparable scale, the
        // infeasibility tests use absolute thresholds on q'x and b'z
        let e = if wide_k { e } else { e / 4.0 };
        let c = 10f64.powf(e);
        let mut p2 = pr.clone();
        p2.q.iter_mut().for_each(|x| *x *= c);
        p2.P.iter_mut().for_each(|r| r.iter_mut().for_each(|x| *x *= c));
        let mut x = mk(&format!("obj-scale-1e{:+.1}", e), p2, st0.clone());
        x.c = c;
        v.push(x);
    }
    // settings
    {
        let mut st = st0.clone();
        st.presolve_enable = false;
        v.push(mk("presolve-off", pr.clone(), st));
        let mut st = st0.clone();
        st.equilibrate_enable = false;
        v.push(mk("equil-off", pr.clone(), st));
        let mut st = st0.clone();
        st.direct_solve_method = "auto".into();
        v.push(mk("backend-auto", pr.clone(), st));
        let mut st = st0.clone();
        st.direct_solve_method = "faer".into();
        v.push(mk("backend-faer", pr.clone(), st));
        let mut st = st0.clone();
        st.direct_solve_method = "faer".into();
        st.max_threads = 2;
        v.push(mk("faer-2threads", pr.clone(), st));
        let mut st = st0.clone();
        st.max_threads = 4;
        st.direct_solve_method = "auto".into();
        v.push(mk("auto-4threads", pr.clone(), st));
    }
    v
}

fn class_of(s: SolverStatus) -> &'static str {
    match s {
        SolverStatus::Solved | SolverStatus::AlmostSolved => "optimal",
        SolverStatus::PrimalInfeasible | SolverStatus::AlmostPrimalInfeasible => "pinf",
        SolverStatus::DualInfeasible | SolverStatus::AlmostDualInfeasible => "dinf",
        _ => "other",
    }
}

/// one run mapped back to the base formulation, with the tolerances the verdict promises
struct Mapped {
    name: String,
    status: SolverStatus,
    x: Vec<f64>,
    s: Vec<f64>,
    z: Vec<f64>,
    pobj: f64,
    dobj: f64,
    /// bound on ‖A x + s − b‖₂ promised by the status (base units)
    tp: f64,
    /// bound on ‖P x + A'z + q‖₂ promised by the status (base units)
    td: f64,
    /// bound on pobj − dobj promised by the status (base units)
    tg: f64,
    iters: u32,
}
fn norm2(v: &[f64]) -> f64 {
    v.iter().map(|x| x * x).sum::<f64>().sqrt()
}
fn norminf(v: &[f64]) -> f64 {
    v.iter().fold(0.0, |a, x| a.max(x.abs()))
}
fn map_back(var: &Variant, o: &RunOut) -> Mapped {
    let almost = matches!(o.status, SolverStatus::AlmostSolved);
    let st = &var.st;
    let (tf, ta, tr) = if almost {
        (st.reduced_tol_feas, st.reduced_tol_gap_abs, st.reduced_tol_gap_rel)
    } else {
        (st.tol_feas, st.tol_gap_abs, st.tol_gap_rel)
    };
    // the normalisations of `info.update` (variant's own units)
    let tp = tf * 1f64.max(norminf(&var.pr.b) + norm2(&o.x) + norm2(&o.s));
    let td = tf * 1f64.max(norminf(&var.pr.q) + norm2(&o.x) + norm2(&o.z));
    let tg = ta.max(tr * 1f64.max(o.pobj.abs().min(o.dobj.abs())));
    let c = var.c;
    Mapped {
        name: var.name.clone(),
        status: o.status,
        x: (0..var.col.len()).map(|j| o.x[var.col[j]]).collect(),
        s: (0..var.row.len()).map(|i| o.s[var.row[i]]).collect(),
        z: (0..var.row.len()).map(|i| o.z[var.row[i]] / c).collect(),
        pobj: o.pobj / c,
        dobj: o.dobj / c,
        tp,
        td: td / c,
        tg: tg / c,
        iters: o.iters,
    }
}

/// The pair oracle.  For two runs i (primal side) and j (dual side) of one problem
/// (theorem `C05.weak_duality_slack` and its corollary `weak_duality_slack_tol`):
///   dobj_j − pobj_i = −½dᵀPd − s_i·z_j + rp_i·z_j − rd_j·x_i  ≤  rp_i·z_j − rd_j·x_i
///                   ≤ Tp_i ‖z_j‖₁ + Td_j ‖x_i‖₁
/// with rp = A x + s − b, rd = P x + A'z + q, and Tp, Td the residual bounds that the
/// Solved verdicts promise.  Both inequalities are checked, each with a rounding allowance
/// proportional to ε·Σ|terms|.
fn pair_check(pr: &Prob, i: &Mapped, j: &Mapped) -> Result<f64, String> {
    let (n, m) = (pr.n, pr.b.len());
    // rp_i and rd_j with their absolute-value companions
    let mut exact = 0.0; // rp_i·z_j − rd_j·x_i
    let mut sc = 0.0; // Σ|terms|
    for k in 0..m {
        let mut r = i.s[k] - pr.b[k];
        let mut ra = i.s[k].abs() + pr.b[k].abs();
        for l in 0..n {
            r += pr.A[k][l] * i.x[l];
            ra += (pr.A[k][l] * i.x[l]).abs();
        }
        exact += r * j.z[k];
        sc += ra * j.z[k].abs();
    }
    for l in 0..n {
        let mut r = pr.q[l];
        let mut ra = pr.q[l].abs();
        for k in 0..n {
            r += pr.P[l][k] * j.x[k];
            ra += (pr.P[l][k] * j.x[k]).abs();
        }
        for k in 0..m {
            r += pr.A[k][l] * j.z[k];
            ra += (pr.A[k][l] * j.z[k]).abs();
        }
        exact -= r * i.x[l];
        sc += ra * i.x[l].abs();
    }
    // magnitudes entering the reported objectives and the cross terms
    let pxi = matvec(&pr.P, &i.x);
    let pxj = matvec(&pr.P, &j.x);
    // (the products P·x are taken with absolute values term by term: for an x with a large
    // component near the null space of P the entries of P·x are themselves cancellation results,
    // and both the solver's reported objectives and this re-evaluation carry that rounding)
    let absmv = |x: &[f64]| -> Vec<f64> { (0..n).map(|l| (0..n).map(|k| (pr.P[l][k] * x[k]).abs()).sum::<f64>()).collect() };
    let (pxi_a, pxj_a) = (absmv(&i.x), absmv(&j.x));
    let mut oa = 0.0;
    for l in 0..n {
        oa += (pr.q[l] * i.x[l]).abs() + 0.5 * i.x[l].abs() * pxi_a[l] + 0.5 * j.x[l].abs() * pxj_a[l]
            + i.x[l].abs() * pxj_a[l];
    }
    for k in 0..m {
        oa += (pr.b[k] * j.z[k]).abs() + (i.s[k] * j.z[k]).abs();
    }
    let allowance = 64.0 * ((n + m + 8) as f64) * EPS * (sc + oa);
    let lhs = j.dobj - i.pobj;
    if !(lhs <= exact + allowance) {
        // the terms of the identity, for the report
        let d: Vec<f64> = (0..n).map(|l| i.x[l] - j.x[l]).collect();
        let pd = matvec(&pr.P, &d);
        let dpd = 0.5 * dot(&d, &pd);
        let sz = dot(&i.s, &j.z);
        let pobj_i = 0.5 * dot(&i.x, &pxi) + dot(&pr.q, &i.x);
        let dobj_j = -dot(&pr.b, &j.z) - 0.5 * dot(&j.x, &pxj);
        return Err(format!(
            "dual objective of [{}] exceeds primal objective of [{}] by {:e} > residual slack rp_i.z_j - rd_j.x_i = {:e} (+ rounding allowance {:e}); terms: dPd/2 = {:e}, s_i.z_j = {:e}, reported pobj_i = {:e} (recomputed {:e}), reported dobj_j = {:e} (recomputed {:e})",
            j.name, i.name, lhs, exact, allowance, dpd, sz, i.pobj, pobj_i, j.dobj, dobj_j
        ));
    }
    let l1 = |v: &[f64]| v.iter().map(|x| x.abs()).sum::<f64>();
    let tolslack = i.tp * l1(&j.z) + j.td * l1(&i.x);
    if !(lhs <= tolslack + allowance) {
        return Err(format!(
            "dual objective of [{}] ({:e}) exceeds primal objective of [{}] ({:e}) by {:e} > Tp_i*|z_j|_1 + Td_j*|x_i|_1 = {:e} (+ rounding allowance {:e})",
            j.name, j.dobj, i.name, i.pobj, lhs, tolslack, allowance
        ));
    }
    Ok(tolslack)
}

fn run_meta_variants(r: &Req) -> String {
    let seed = r.u("seed") as u64;
    let fam = r.str("fam").to_string();
    let mut rng = Rng::new(seed ^ 0xC05);
    let pr = gen_problem(&mut rng, &fam);
    let vars = variants(&pr, &mut rng, !matches!(fam.as_str(), "pinf" | "dinf"));
    let mut mapped = vec![];
    for v in &vars {
        let o = match std::panic::catch_unwind(std::panic::AssertUnwindSafe(|| solve(&v.pr, v.pfull, &v.st))) {
            Ok(o) => o,
            Err(_) => return format!("FAIL variant={} panicked", v.name),
        };
        mapped.push(map_back(v, &o));
    }
    if std::env::var("C05_DEBUG").is_ok() {
        for mm in &mapped {
            eprintln!("{:14} {:?} it={} pobj={:e} dobj={:e} |x|={:e} |z|={:e} |s|={:e}", mm.name, mm.status, mm.iters, mm.pobj, mm.dobj, norm2(&mm.x), norm2(&mm.z), norm2(&mm.s));
        }
    }
    // verdict classes.  Undecided outcomes (MaxIterations, InsufficientProgress, NumericalError)
    // are not verdicts; they are counted and judged statistically in `generate` (strictly when
    // replayed).  Two *decided* verdicts of different classes are a violation unless both can
    // be truthful under their documented tolerances (Farkas with residual slack, see below).
    let decided: Vec<&Mapped> = mapped.iter().filter(|mm| class_of(mm.status) != "other").collect();
    let undecided = mapped.len() - decided.len();
    let c0 = if decided.is_empty() { "other" } else { class_of(decided[0].status) };
    let mut split = 0;
    let l1 = |v: &[f64]| v.iter().map(|x| x.abs()).sum::<f64>();
    for i in &decided {
        for j in &decided {
            let (ci, cj) = (class_of(i.status), class_of(j.status));
            if ci == "optimal" && cj == "pinf" {
                // z_j: A'z ~ 0, b'z < 0, z in K*.  With rp_i = A x_i + s_i - b and s_i.z_j >= 0:
                //   -b'z_j = z_j.rp_i - (A'z_j).x_i - s_i.z_j <= Tp_i |z_j|_1 + |A'z_j|_inf |x_i|_1
                let atz = matTvec(&pr.A, pr.n, &j.z);
                let lhs = -dot(&pr.b, &j.z);
                let rhs = i.tp * l1(&j.z) + norminf(&atz) * l1(&i.x);
                if lhs > rhs * (1.0 + 1e-9) {
                    return format!(
                        "FAIL contradictory-verdicts [{}]={:?} vs [{}]={:?}: -b.z={:e} exceeds Tp*|z|_1+|A'z|_inf*|x|_1={:e}",
                        i.name, i.status, j.name, j.status, lhs, rhs
                    )
                    .replace(' ', "_").replace('=', ":");
                }
                split += 1;
            }
            if ci == "optimal" && cj == "dinf" {
                // x_j: P x ~ 0, A x + s = 0, s in K, q'x < 0.  With rd_i = P x_i + A'z_i + q:
                //   -q'x_j <= Td_i |x_j|_1 + |P x_j|_inf |x_i|_1 + |A x_j + s_j|_inf |z_i|_1
                let pxj = matvec(&pr.P, &j.x);
                let axs: Vec<f64> = matvec(&pr.A, &j.x).iter().zip(&j.s).map(|(a, b)| a + b).collect();
                let lhs = -dot(&pr.q, &j.x);
                let rhs = i.td * l1(&j.x) + norminf(&pxj) * l1(&i.x) + norminf(&axs) * l1(&i.z);
                if lhs > rhs * (1.0 + 1e-9) {
                    return format!(
                        "FAIL contradictory-verdicts [{}]={:?} vs [{}]={:?}: -q.x={:e} exceeds slack {:e}",
                        i.name, i.status, j.name, j.status, lhs, rhs
                    )
                    .replace(' ', "_").replace('=', ":");
                }
                split += 1;
            }
        }
    }
    let all_same = decided.iter().all(|mm| class_of(mm.status) == c0);
    let planted = match fam.as_str() {
        "pinf" => "pinf",
        "dinf" => "dinf",
        _ => "optimal",
    };
    let mut maxslack = 0.0f64;
    let mut maxdiff = 0.0f64;
    {
        let opt: Vec<&Mapped> = decided.iter().cloned().filter(|mm| class_of(mm.status) == "optimal").collect();
        for i in opt.iter().cloned() {
            // each run's own gap is within its promise
            let own = i.pobj - i.dobj;
            let oa = 64.0 * EPS * (i.pobj.abs() + i.dobj.abs());
            if !(own.abs() <= i.tg + oa) {
                return format!("FAIL own-gap variant={} pobj-dobj={:e} tol={:e}", i.name, own, i.tg);
            }
            for j in opt.iter().cloned() {
                match pair_check(&pr, i, j) {
                    Ok(sl) => {
                        maxslack = maxslack.max(sl);
                        maxdiff = maxdiff.max((i.pobj - j.pobj).abs());
                        // consequence: objectives agree within gap tolerance + slack
                        if !(j.pobj - i.pobj <= j.tg + sl + 64.0 * EPS * (i.pobj.abs() + j.pobj.abs()) + 1e-300) {
                            return format!(
                                "FAIL objectives-disagree pobj[{}]={:e} pobj[{}]={:e} gap_tol={:e} slack={:e}",
                                j.name, j.pobj, i.name, i.pobj, j.tg, sl
                            )
                            .replace(' ', "_");
                        }
                    }
                    Err(e) => return format!("FAIL {}", e).replace(' ', "_").replace('=', ":"),
                }
            }
        }
    }
    let iters: Vec<u32> = mapped.iter().map(|mm| mm.iters).collect();
    format!(
        "ok class={} undecided={} split={} same={} planted={} nvar={} maxslack={:e} maxobjdiff={:e} iters={}",
        c0,
        undecided,
        split,
        all_same as u8,
        planted,
        mapped.len(),
        maxslack,
        maxdiff,
        proto::fis(&iters)
    )
}
fn replaying() -> bool {
    std::env::args().any(|a| a == "--replay")
}
fn oracle_meta(_r: &Req, out: &str) -> Result<(), String> {
    if out.starts_with("ok") {
        // undecided outcomes are judged over the whole sample; a single case only on replay
        if replaying() && out.contains("undecided=") && !out.contains("undecided=0 ") {
            return Err(format!("some variant gave up without a verdict: {}", out));
        }
        Ok(())
    } else {
        Err(out.to_string())
    }
}

// ---- bitwise reproducibility -----------------------------------------------------------

fn poison(s: &mut DefaultSolver<f64>, val: f64) {
    // overwrite every piece of iterate / work state that `solve()` is modelled to rewrite
    // before reading (Step.solvePrologue / solvePass), leaving construction-time data alone
    for v in [&mut s.variables, &mut s.step_lhs, &mut s.step_rhs, &mut s.prev_vars] {
        v.x.fill(val);
        v.s.fill(val);
        v.z.fill(val);
        v.τ = val;
        v.κ = val;
    }
    // The KKT work vector `workx` is rewritten as `-1·q + 0·workx` (`solve_constant_rhs`,
    // `solve_initial_point`) and `residuals.Px` as `0·Px + P x` (`symv` scales by b = 0):
    // independent of the old contents only while those are finite, so these two are
    // poisoned with finite garbage (see the note written by `generate`); all else with `val`.
    let fin = if val.is_finite() { val } else { -3.25e7 };
    step::residuals::fill(&mut s.residuals, val);
    step::residuals::fill_px(&mut s.residuals, fin);
    step::kktsystem::fill_work_vectors(&mut s.kktsystem, fin);
    // cone scaling state: a scaling update from a garbage interior point
    let m = s.variables.s.len();
    let g = vec![val.abs().max(0.5); m];
    if s.cones.is_symmetric() {
        // identity-like but different scaling; nonsymmetric cones are refreshed by
        // update_scaling at the first pass
        let mut sv = g.clone();
        let mut zv = g.clone();
        s.cones.unit_initialization(&mut zv, &mut sv);
        for (a, b) in sv.iter_mut().zip(zv.iter_mut()) {
            *a *= 3.0;
            *b *= 0.25;
        }
        s.cones.update_scaling(&sv, &zv, 0.7, ScalingStrategy::PrimalDual);
    }
}

/// The poisoning that matches the characterisation proved on the whole-solver model
/// (`C05.full_solve_reads_only` / `full_solve_stale` / `full_solve_idempotent_finite`): since /repo
/// 1706c1f `solve()` reads NOTHING of the mutable state any more (before, it read `0·workx` in
/// `solve_constant_rhs` and `Px·0` in `residuals.update`: KF-C03-resolve-after-nan).  EVERY mutable
/// component — iterate, step vectors, `prev_vars`, all residual fields incl. `Px`, `rx_inf`, `rz_inf`,
/// all seven KKT work vectors incl. `workx`, the whole `info` block incl. `prev_*`, the cone scalings,
/// the `solution` object — gets `dead` (NaN, ±inf, huge: anything).  `live` is kept for a second
/// flavour with finite garbage in `workx` / `Px` (and as the seed of the cone-scaling poison).
fn poison_exact(s: &mut DefaultSolver<f64>, dead: f64, live: f64, live_buffers_dead: bool) {
    assert!(live.is_finite() && live.is_sign_positive());
    for v in [&mut s.variables, &mut s.step_lhs, &mut s.step_rhs, &mut s.prev_vars] {
        v.x.fill(dead);
        v.s.fill(dead);
        v.z.fill(dead);
        v.τ = dead;
        v.κ = dead;
    }
    step::residuals::fill(&mut s.residuals, dead);
    if !live_buffers_dead {
        step::residuals::fill_px(&mut s.residuals, live);
    }
    clarabel::solver::implementations::default::verif_hooks_kktsystem_c05::fill_work_vectors_split(
        &mut s.kktsystem, if live_buffers_dead { dead } else { live }, dead);
    // the whole info block
    s.info.μ = dead;
    s.info.sigma = dead;
    s.info.step_length = dead;
    s.info.iterations = 12345;
    s.info.cost_primal = dead;
    s.info.cost_dual = dead;
    s.info.res_primal = dead;
    s.info.res_dual = dead;
    s.info.res_primal_inf = dead;
    s.info.res_dual_inf = dead;
    s.info.gap_abs = dead;
    s.info.gap_rel = dead;
    s.info.ktratio = dead;
    s.info.status = SolverStatus::NumericalError;
    clarabel::solver::implementations::default::verif_hooks_info::set_prev(&mut s.info, [dead; 6]);
    // the solution object (same lengths, arbitrary content)
    s.solution.x.fill(dead);
    s.solution.s.fill(dead);
    s.solution.z.fill(dead);
    s.solution.obj_val = 4.25;
    s.solution.obj_val_dual = -4.25;
    s.solution.r_prim = dead;
    s.solution.r_dual = dead;
    s.solution.iterations = 777;
    s.solution.status = SolverStatus::InsufficientProgress;
    // cone scaling state: a scaling update from a garbage interior point (symmetric cones); the
    // nonsymmetric cones are refreshed by update_scaling at the first pass
    let m = s.variables.s.len();
    let g = vec![live.max(0.5); m];
    if s.cones.is_symmetric() {
        let mut sv = g.clone();
        let mut zv = g.clone();
        s.cones.unit_initialization(&mut zv, &mut sv);
        for (a, b) in sv.iter_mut().zip(zv.iter_mut()) {
            *a *= 5.0;
            *b *= 0.125;
        }
        s.cones.update_scaling(&sv, &zv, 0.3, ScalingStrategy::PrimalDual);
    }
}

fn run_meta_repeat(r: &Req) -> String {
    let seed = r.u("seed") as u64;
    let fam = r.str("fam").to_string();
    let backend = r.str("backend").to_string();
    let threads = r.u("threads");
    let nthreads = r.u("par");
    let mut rng = Rng::new(seed ^ 0xC05);
    let mut pr = gen_problem(&mut rng, &fam);
    let mut st = base_settings();
    st.direct_solve_method = backend;
    st.max_threads = threads as u32;
    // `hugeb=1`: right-hand side entries ~1e301 on the rows of the zero cones (on the first row when
    // there is none) make the initial KKT solve fail (iterative refinement meets non-finite numbers):
    // `default_start` then shifts whatever `solve_initial_point` left in `variables` into the cone —
    // zeros since /repo 7c1c881, the un-scaled result of the previous `solve()` before.  `maxiter`
    // small keeps the first solve at (or near) that starting point with an ordinary status.
    if r.has("hugeb") && r.u("hugeb") == 1 {
        let mut row = 0;
        let mut hit = false;
        for c in &pr.cones {
            let d = cone_dim(c);
            if matches!(c, ZeroConeT(_)) {
                for i in row..row + d {
                    pr.b[i] = (if rng.bool(0.5) { 1.0 } else { -1.0 }) * rng.uniform(1.0, 9.0) * 1e300;
                    hit = true;
                }
            }
            row += d;
        }
        if !hit && !pr.b.is_empty() {
            pr.b[0] = rng.uniform(1.0, 9.0) * 1e300;
        }
        if r.has("maxiter") {
            st.max_iter = r.u("maxiter") as u32;
        }
    }
    // does the initial KKT solve of a fresh solver succeed? (2 = not applicable: nonsymmetric cone)
    let initok = {
        let mut f = build(&pr, false, &st);
        if f.cones.is_symmetric() {
            f.cones.set_identity_scaling();
            f.kktsystem.update(&f.data, &f.cones, &f.settings);
            f.kktsystem.solve_initial_point(&mut f.variables, &f.data, &f.settings) as usize
        } else {
            2
        }
    };
    // same solver twice, then after poisoning the mutable state
    let mut s = build(&pr, false, &st);
    s.solve();
    let a = harvest(&s);
    s.solve();
    let b = harvest(&s);
    if a.bits() != b.bits() {
        return format!("FAIL second-solve-differs status {:?}/{:?} iters {}/{}", a.status, b.status, a.iters, b.iters)
            .replace(' ', "_");
    }
    for val in [f64::NAN, 1e30, -7.5] {
        poison(&mut s, val);
        s.solve();
        let c = harvest(&s);
        if a.bits() != c.bits() {
            return format!("FAIL solve-after-poison({})-differs status {:?}/{:?} iters {}/{}", val, a.status, c.status, a.iters, c.iters)
                .replace(' ', "_");
        }
    }
    // the characterisation of the model theorems, exactly: anything in EVERY mutable component
    // (workx and Px included since /repo 1706c1f — this is what catches a reversal of that fix);
    // the rounds with `false` keep positive finite garbage in workx / Px (the pre-fix characterisation)
    for (dead, live, all) in [
        (f64::NAN, 3.25e7, true),
        (f64::NEG_INFINITY, 1.0e-300, true),
        (-1.0e300, 0.0, true),
        (f64::INFINITY, 7.5, true),
        (f64::NAN, 3.25e7, false),
        (f64::NEG_INFINITY, 7.5, false),
    ] {
        poison_exact(&mut s, dead, live, all);
        s.solve();
        let c = harvest(&s);
        if a.bits() != c.bits() {
            return format!("FAIL solve-after-exact-poison(dead:{},live:{},workx-and-Px-dead:{})-differs status {:?}/{:?} iters {}/{}", dead, live, all, a.status, c.status, a.iters, c.iters)
                .replace(' ', "_");
        }
    }
    // a fresh solver
    let d = solve(&pr, false, &st);
    if a.bits() != d.bits() {
        return "FAIL fresh-solver-differs".into();
    }
    // Hypothesis (iv) of `C05.full_solve_stale_qdldl` (`QW`), on the implementation: `KKTSystem::update`
    // forgets whatever previous solves left in the linear solver object.  The used (solved, poisoned,
    // solved again) solver and a fresh one go through the first two calls of `default_start`; the KKT
    // values, the engine's permuted copy and the answer of the following solve must agree bit for bit.
    if s.cones.is_symmetric() {
        let mut f = build(&pr, false, &st);
        s.cones.set_identity_scaling();
        f.cones.set_identity_scaling();
        let u1 = s.kktsystem.update(&s.data, &s.cones, &s.settings);
        let u2 = f.kktsystem.update(&f.data, &f.cones, &f.settings);
        if u1 != u2 {
            return format!("FAIL update-after-solve flag {} vs fresh {}", u1, u2).replace(' ', "_");
        }
        match (s.kktsystem.verif_c08_kkt_state(), f.kktsystem.verif_c08_kkt_state()) {
            (Some(k1), Some(k2)) => {
                if proto::ffs(&k1.kkt_nzval) != proto::ffs(&k2.kkt_nzval) {
                    return "FAIL update-does-not-forget: KKT values of a used solver differ from a fresh one after update".replace(' ', "_");
                }
                match (&k1.ldl_nzval, &k2.ldl_nzval) {
                    (Some(l1), Some(l2)) => {
                        if proto::ffs(l1) != proto::ffs(l2) {
                            return "FAIL update-does-not-forget: permuted LDL copy of a used solver differs from a fresh one after update".replace(' ', "_");
                        }
                    }
                    (None, None) => {}
                    _ => return "FAIL update-does-not-forget: ldl copy present on one side only".replace(' ', "_"),
                }
            }
            (None, None) => {}
            _ => return "FAIL update-does-not-forget: kkt state present on one side only".replace(' ', "_"),
        }
        for v in [&mut s.variables, &mut f.variables] {
            v.x.fill(0.5);
            v.s.fill(0.5);
            v.z.fill(0.5);
        }
        let i1 = s.kktsystem.solve_initial_point(&mut s.variables, &s.data, &s.settings);
        let i2 = f.kktsystem.solve_initial_point(&mut f.variables, &f.data, &f.settings);
        let vb = |v: &DefaultVariables<f64>| format!("{}|{}|{}", proto::ffs(&v.x), proto::ffs(&v.s), proto::ffs(&v.z));
        if i1 != i2 || vb(&s.variables) != vb(&f.variables) {
            return format!("FAIL update-does-not-forget: solve_initial_point after update differs (flags {}/{})", i1, i2).replace(' ', "_");
        }
    }
    // concurrently on `par` threads
    let pr = Arc::new(pr);
    let st = Arc::new(st);
    let hs: Vec<_> = (0..nthreads)
        .map(|_| {
            let (pr, st) = (pr.clone(), st.clone());
            std::thread::spawn(move || {
                let mut s = build(&pr, false, &st);
                s.solve();
                let x = harvest(&s).bits();
                s.solve();
                (x, harvest(&s).bits())
            })
        })
        .collect();
    for (k, h) in hs.into_iter().enumerate() {
        match h.join() {
            Ok((x, y)) => {
                if x != a.bits() || y != a.bits() {
                    return format!("FAIL thread-{}-of-{}-differs", k, nthreads);
                }
            }
            Err(_) => return format!("FAIL thread-{}-panicked", k),
        }
    }
    format!("ok status={:?} iters={} par={} initok={}", a.status, a.iters, nthreads, initok)
}

// ---- presolve / equilibration / cone-split toggles on data with a huge NEGATIVE bound -------
// x ≤ u, −x ≤ −l with one lower bound l_j ≥ 1e20: the box is empty (strongly primal infeasible).
// Only right-hand sides at or ABOVE +infinity may be dropped by presolve; every configuration
// must reach the same verdict class.
fn run_meta_neginf(r: &Req) -> String {
    let seed = r.u("seed") as u64;
    let mut rng = Rng::new(seed ^ 0xE05);
    let n = 2 + rng.below(4);
    let mut P = vec![vec![0.0; n]; n];
    let quad = rng.bool(0.7);
    for i in 0..n {
        P[i][i] = if quad { rng.uniform(0.5, 2.0) } else { 0.0 };
    }
    let q: Vec<f64> = (0..n).map(|_| rng.normal()).collect();
    let mut A = vec![vec![0.0; n]; 2 * n];
    let mut b = vec![0.0; 2 * n];
    for i in 0..n {
        A[i][i] = 1.0;
        A[n + i][i] = -1.0;
        b[i] = rng.uniform(0.5, 3.0);
        b[n + i] = rng.uniform(0.5, 3.0);
    }
    let j = rng.below(n);
    let mag = *rng.choose(&[1e20, 2e20, 1e21, 3.7e22]);
    b[n + j] = -mag;
    let splits: Vec<Vec<SupportedConeT<f64>>> = vec![
        vec![NonnegativeConeT(2 * n)],
        vec![NonnegativeConeT(n), NonnegativeConeT(n)],
        vec![NonnegativeConeT(n + j), NonnegativeConeT(n - j)],
    ];
    let mut classes = vec![];
    for cones in &splits {
        for presolve in [true, false] {
            for equil in [true, false] {
                let pr = Prob { n, P: P.clone(), q: q.clone(), A: A.clone(), b: b.clone(), cones: cones.clone() };
                let mut st = base_settings();
                st.presolve_enable = presolve;
                st.equilibrate_enable = equil;
                let o = solve(&pr, false, &st);
                classes.push((class_of(o.status), presolve, equil, cones.len()));
            }
        }
    }
    let c0 = classes[0].0;
    if let Some(bad) = classes.iter().find(|c| c.0 != c0) {
        return format!("FAIL verdict-class-differs {}(presolve={},equil={},cones={}) vs {}(presolve=true,equil=true,cones=1) lower-bound={:e}",
            bad.0, bad.1, bad.2, bad.3, c0, mag).replace(' ', "_");
    }
    if c0 == "optimal" {
        return format!("FAIL empty-box-reported-optimal lower-bound={:e}", mag).replace(' ', "_");
    }
    format!("ok class={} undecided=0 n={}", c0, n)
}

// ======================================================================= registry

pub fn channels() -> Vec<Channel> {
    vec![
        Channel { name: "step.calc_mu", tol: Tol::Exact, run: run_calc_mu, oracle: Some(oracle_calc_mu), modelled: true,
            rust_fn: "DefaultVariables::calc_mu", lean: "Step.calcMu / C06.mu_update_nn" },
        Channel { name: "step.centering", tol: Tol::Exact, run: run_centering, oracle: Some(oracle_centering), modelled: true,
            rust_fn: "IPSolverInternals::centering_parameter", lean: "Step.centeringParameter / C06.centering_range" },
        Channel { name: "step.add_step", tol: Tol::Exact, run: run_add_step, oracle: Some(oracle_add_step), modelled: true,
            rust_fn: "DefaultVariables::add_step", lean: "Step.addStep / C06.residual_contraction" },
        Channel { name: "step.affine_rhs", tol: Tol::Exact, run: run_affine_rhs, oracle: Some(oracle_affine_rhs), modelled: true,
            rust_fn: "DefaultVariables::affine_step_rhs + NonnegativeCone::{update_scaling,affine_ds}", lean: "Step.affineStepRhs" },
        Channel { name: "step.combined_rhs", tol: Tol::Exact, run: run_combined_rhs, oracle: Some(oracle_combined_rhs), modelled: true,
            rust_fn: "DefaultVariables::combined_step_rhs + _combined_ds_shift_symmetric", lean: "Step.combinedStepRhs / C06.mu_update_nn" },
        Channel { name: "step.sym_init", tol: Tol::Exact, run: run_sym_init, oracle: Some(oracle_sym_init), modelled: true,
            rust_fn: "DefaultVariables::symmetric_initialization / _shift_to_cone_interior", lean: "Step.symmetricInitialization" },
        Channel { name: "step.step_length", tol: Tol::Exact, run: run_step_length, oracle: Some(oracle_step_length), modelled: true,
            rust_fn: "DefaultVariables::calc_step_length + CompositeCone/NonnegativeCone::step_length", lean: "Step.calcStepLength / C05.row_perm_within_nn" },
        Channel { name: "kkt.solve", tol: Tol::Exact, run: run_kkt_solve, oracle: Some(oracle_kkt_solve), modelled: true,
            rust_fn: "DefaultKKTSystem::solve (assembly around the linear solver) + _csc_quad_form", lean: "KktSystem.solveAssemble / C06.reduced_solve_is_newton" },
        Channel { name: "meta.variants", tol: Tol::Exact, run: run_meta_variants, oracle: Some(oracle_meta), modelled: false,
            rust_fn: "DefaultSolver::new + solve over equivalent formulations/settings (incl. direct_solve_method auto / faer with 1-4 threads: AutoDirectLDLSolver::new -> ldl_auto_select (amd_order), FaerDirectLDLSolver::new -> to_faer, sort_csc_columns_with_map; the external backends are not modelled: pair oracle only)", lean: "C05.weak_duality_slack_tol_all_cones / objectives_agree_within_slack / contradictory_verdicts_{pinf,dinf}_slack / map_back_sound (soundness of the pair oracle, all seven cone kinds)" },
        Channel { name: "meta.neginf", tol: Tol::Exact, run: run_meta_neginf, oracle: Some(oracle_meta), modelled: false,
            rust_fn: "DefaultSolver::new + solve: presolve / equilibration / cone split toggled on a box with one lower bound ≥ 1e20", lean: "C05.same_collapsed_same_solver (split/merge) ; C09 drop criterion" },
        Channel { name: "meta.repeat", tol: Tol::Exact, run: run_meta_repeat, oracle: Some(oracle_meta), modelled: false,
            rust_fn: "DefaultSolver::solve repeated / after poisoning / on 2-8 threads", lean: "C05.full_solve_reads_only / full_solve_stale_field / full_solve_linear_solver_only / solve_is_function_of_data" },
    ]
}

// ======================================================================= generators

fn rand_cones(rng: &mut Rng) -> Vec<(bool, usize)> {
    let k = 1 + rng.below(4);
    let mut v: Vec<(bool, usize)> = (0..k).map(|_| (rng.bool(0.7), 1 + rng.below(4))).collect();
    if rng.bool(0.1) {
        v.push((true, 1));
    }
    v
}
fn rand_val(rng: &mut Rng, wide: bool) -> f64 {
    if wide {
        rng.logmag(-6.0, 6.0)
    } else {
        match rng.below(10) {
            0 => rng.smallint(3),
            _ => rng.normal(),
        }
    }
}
fn rand_pos(rng: &mut Rng, wide: bool) -> f64 {
    if wide {
        rng.logmag(-8.0, 8.0).abs()
    } else {
        rng.uniform(0.01, 3.0)
    }
}
fn rand_vars(rng: &mut Rng, n: usize, mask: &[bool], wide: bool, interior: bool) -> DefaultVariables<f64> {
    let mut v = DefaultVariables::<f64>::new(n, mask.len());
    v.x = (0..n).map(|_| rand_val(rng, wide)).collect();
    v.s = mask.iter().map(|&nn| if nn && interior { rand_pos(rng, wide) } else { rand_val(rng, wide) }).collect();
    v.z = mask.iter().map(|&nn| if nn && interior { rand_pos(rng, wide) } else { rand_val(rng, wide) }).collect();
    v.τ = if interior { rand_pos(rng, wide) } else { rand_val(rng, wide) };
    v.κ = if interior { rand_pos(rng, wide) } else { rand_val(rng, wide) };
    v
}
fn mask_of(c: &[(bool, usize)]) -> Vec<bool> {
    c.iter().flat_map(|&(nn, d)| std::iter::repeat(nn).take(d)).collect()
}

pub fn gen_step_cases(s: &mut Session) {
    for _ in 0..s.budget(300, 20000) {
        let wide = s.rng.bool(0.3);
        let l = Line::new("step.calc_mu")
            .f("dotsz", rand_pos(&mut s.rng, wide))
            .f("tau", rand_pos(&mut s.rng, wide))
            .f("kappa", rand_pos(&mut s.rng, wide))
            .u("deg", s.rng.below(40));
        s.submit(l.done());
        let a = match s.rng.below(6) {
            0 => 0.0,
            1 => 1.0,
            2 => rng_tiny(&mut s.rng),
            3 => 1.0 - rng_tiny(&mut s.rng),
            _ => s.rng.unit(),
        };
        s.submit(Line::new("step.centering").f("a", a).done());
    }
    for _ in 0..s.budget(300, 20000) {
        let cones = rand_cones(&mut s.rng);
        let mask = mask_of(&cones);
        let n = s.rng.below(5);
        let wide = s.rng.bool(0.25);
        let v = rand_vars(&mut s.rng, n, &mask, wide, true);
        let d = rand_vars(&mut s.rng, n, &mask, wide, false);
        let rx: Vec<f64> = (0..n).map(|_| rand_val(&mut s.rng, wide)).collect();
        let rz: Vec<f64> = mask.iter().map(|_| rand_val(&mut s.rng, wide)).collect();
        let rtau = rand_val(&mut s.rng, wide);
        let a = s.rng.unit();
        s.submit(put_vars(put_vars(Line::new("step.add_step"), "v", &v), "d", &d).f("a", a).done());
        let base = |name: &str| {
            put_vars(put_cones(Line::new(name), &cones), "v", &v).fs("rx", &rx).fs("rz", &rz).f("rtau", rtau)
        };
        s.submit(base("step.affine_rhs").done());
        let sigma = centering_like(&mut s.rng);
        let mu = rand_pos(&mut s.rng, wide);
        let m = if s.rng.bool(0.5) { 1.0 } else { s.rng.unit() };
        s.submit(put_vars(base("step.combined_rhs"), "d", &d).f("sigma", sigma).f("mu", mu).f("m", m).done());
        // initialisation: arbitrary (not interior) s, z
        let inter = s.rng.bool(0.5);
        let mut v0 = rand_vars(&mut s.rng, n, &mask, wide, inter);
        if s.rng.bool(0.15) {
            // margins exactly zero / exactly at the target
            let t = *s.rng.choose(&[0.0, 1.0, -0.0]);
            for i in 0..mask.len() {
                if mask[i] && s.rng.bool(0.5) {
                    v0.s[i] = t;
                    v0.z[i] = t;
                }
            }
        }
        s.submit(put_vars(put_cones(Line::new("step.sym_init"), &cones), "v", &v0).done());
        let combined = s.rng.bool(0.5);
        let msf = *s.rng.choose(&[0.99, 0.5, 1.0]);
        s.submit(
            put_vars(put_vars(put_cones(Line::new("step.step_length"), &cones), "v", &v), "d", &d)
                .f("msf", msf)
                .b("combined", combined)
                .done(),
        );
        // kkt.solve
        let pd = *s.rng.choose(&[0.0, 0.4, 1.0]);
        let P = gen::csc_triu(&mut s.rng, n, pd, false, if wide { gen::Vals::LogMag(-3.0, 3.0) } else { gen::Vals::Normal });
        let q: Vec<f64> = (0..n).map(|_| rand_val(&mut s.rng, wide)).collect();
        let b: Vec<f64> = mask.iter().map(|_| rand_val(&mut s.rng, wide)).collect();
        let rhs = rand_vars(&mut s.rng, n, &mask, wide, false);
        let vecn = |rng: &mut Rng| -> Vec<f64> { (0..n).map(|_| rand_val(rng, wide)).collect() };
        let vecm = |rng: &mut Rng| -> Vec<f64> { mask.iter().map(|_| rand_val(rng, wide)).collect() };
        let (x1, x2) = (vecn(&mut s.rng), vecn(&mut s.rng));
        let (z1, z2) = (vecm(&mut s.rng), vecm(&mut s.rng));
        let affine = s.rng.bool(0.5);
        s.submit(
            put_vars(put_vars(put_cones(Line::new("kkt.solve"), &cones).csc("P", &P), "v", &v), "r", &rhs)
                .fs("q", &q).fs("b", &b).fs("x1", &x1).fs("z1", &z1).fs("x2", &x2).fs("z2", &z2)
                .b("affine", affine)
                .done(),
        );
    }
}
/// smallest k with P(Binomial(n, p) > k) <= level
fn binom_allowance(n: usize, p: f64, level: f64) -> usize {
    let mut pmf = (1.0 - p).powi(n as i32);
    let mut cdf = pmf;
    let mut k = 0usize;
    while 1.0 - cdf > level && k < n {
        pmf *= (n - k) as f64 / (k + 1) as f64 * p / (1.0 - p);
        k += 1;
        cdf += pmf;
    }
    k
}
fn rng_tiny(rng: &mut Rng) -> f64 {
    10f64.powf(rng.uniform(-17.0, -1.0))
}
fn centering_like(rng: &mut Rng) -> f64 {
    let a = rng.unit();
    (1.0 - a) * (1.0 - a) * (1.0 - a)
}

const FAMS: &[&str] = &["lp", "qp", "socp", "exp", "pow", "psd", "mixed", "pinf", "dinf"];

fn generate(s: &mut Session) {
    if !s.is_searching() {
        s.note("noted (not a violation on well-posed input): DefaultKKTSystem::solve_constant_rhs / solve_initial_point \
                rewrite workx as `-1*q + 0*workx`, and DefaultResiduals::update computes Px through symv with b = 0 \
                (`y.scale(0)`): a non-finite value left there by a numerically broken solve would propagate into \
                the next solve() on the same object (meta.repeat therefore poisons the KKT work vectors and \
                residuals.Px with finite garbage and everything else with NaN; its second poisoning round is exactly \
                the relation `Stale` of C05.full_solve_reads_only: NaN / inf / huge values in EVERY other mutable \
                component incl. x1,z1,x2,z2,workz,work_conic, rx_inf, the info block with prev_*, the solution object; \
                since /repo 1706c1f (symv fills with zero for b = 0, workx = -q by scalarop_from) workx and Px are \
                dead too and get NaN/inf as well; since /repo 7c1c881 solve_initial_point zero-fills variables.x/s/z \
                first, so the iterate is dead also when the initial KKT solve fails: the `hugeb=1` cases of meta.repeat, \
                C05.full_solve_idempotent_any_start)".into());
    }
    gen_step_cases(s);
    if s.is_searching() {
        return;
    }
    let nv = s.budget(180, 3000);
    let mut undecided: Vec<(String, String)> = vec![];
    let mut splits = 0;
    for k in 0..nv {
        let fam = FAMS[k % FAMS.len()];
        let seed = s.rng.next_u64() >> 12;
        let line = Line::new("meta.variants").u("seed", seed as usize).s("fam", fam).done();
        let out = s.submit(line.clone());
        s.count(&format!("variants:{}:{}", fam, out.split_whitespace().nth(1).unwrap_or("?")));
        if out.starts_with("ok") && !out.contains("undecided=0 ") {
            undecided.push((line, out.clone()));
        }
        if out.starts_with("ok") && !out.contains("split=0 ") {
            splits += 1;
            s.note(format!("verdict split compatible with the documented relative tolerances: {}", out));
        }
    }
    // H0: at most 2 % of the problems have a variant that gives up (measured on the unchanged
    // tree: 1.0 % with the objective-scale variants spanning 1e-8..1e8); reject at level 1e-4
    let allowance = binom_allowance(nv, 0.02, 1e-4);
    s.note(format!(
        "meta.variants: {} problems, {} with some undecided variant (allowance {}), {} with a tolerance-compatible verdict split",
        nv, undecided.len(), allowance, splits));
    for (l, o) in undecided.iter().take(10) {
        s.note(format!("undecided: {} -> {}", l, o));
    }
    if undecided.len() > allowance {
        let (l, o) = undecided[0].clone();
        s.fail("meta.variants", l, o, format!(
            "{} of {} problems have a variant ending without a verdict (allowance {})", undecided.len(), nv, allowance));
    }
    for _ in 0..s.budget(24, 400) {
        let seed = s.rng.next_u64() >> 12;
        s.submit(Line::new("meta.neginf").u("seed", seed as usize).done());
        s.count("neginf-box");
    }
    let nr = s.budget(72, 1200);
    for k in 0..nr {
        let fam = FAMS[k % FAMS.len()];
        let seed = s.rng.next_u64() >> 12;
        let (backend, threads) = *s.rng.choose(&[("qdldl", 1), ("qdldl", 1), ("auto", 1), ("faer", 1), ("faer", 2), ("auto", 4)]);
        let par = 2 + s.rng.below(7);
        s.submit(
            Line::new("meta.repeat").u("seed", seed as usize).s("fam", fam).s("backend", backend)
                .u("threads", threads).u("par", par).done(),
        );
        s.count(&format!("repeat:{}:{}x{}", backend, threads, par));
    }
    // the same with an initial KKT solve that fails (appended: the stream above is unchanged).  Before
    // /repo 7c1c881 the second solve started from the un-scaled result of the first one here
    // (KF-C05-stale-start-after-failed-init); `C05.full_solve_idempotent_any_start`.
    for k in 0..s.budget(16, 160) {
        let fam = ["qp", "lp", "socp", "mixed", "psd", "qp", "lp", "exp"][k % 8];
        let maxiter = [0, 0, 1, 3, 200][k % 5];
        let seed = s.rng.next_u64() >> 12;
        let (backend, threads) = *s.rng.choose(&[("qdldl", 1), ("qdldl", 1), ("auto", 1), ("faer", 2)]);
        let out = s.submit(
            Line::new("meta.repeat").u("seed", seed as usize).s("fam", fam).s("backend", backend)
                .u("threads", threads).u("par", 2).u("hugeb", 1).u("maxiter", maxiter).done(),
        );
        let io = out.split_whitespace().find(|t| t.starts_with("initok=")).unwrap_or("initok=?").to_string();
        s.count(&format!("repeat-hugeb:{}:{}", fam, io));
    }
}

fn main() {
    Session::from_args("C05", channels()).run(generate)
}
