//! C18 — chordal decomposition and its reversal preserve the problem and its solution.
//!
//! Channels: the standard (`H`) and compact transformations and their reversals on data
//! produced by the real analysis, compared exactly with the Lean model
//! (`lean/ClarabelModel/Chordal/{AugStd,AugCompact,Reverse}.lean`, driver `cm_c18`), each with an
//! oracle that states the structural property directly; `psd_complete` and full solves
//! (decomposition on vs off) are oracle-only.  Everything that runs the chordal *analysis*
//! or a solve is executed in a child process under a watchdog and a memory cap.
use clarabel::algebra::*;
use clarabel::solver::*;
use clarabel::verif_hooks::chordal as hk;
use clarabel::verif_hooks::chordal_decomp as hkd;
use std::collections::{BTreeMap, BTreeSet, HashMap};
use std::sync::Mutex;
use vharness::proto::{ffs, fus};
use vharness::*;

// ------------------------------------------------------------------ isolation (see c17.rs)

static CACHE: Mutex<Option<HashMap<String, String>>> = Mutex::new(None);
fn in_child() -> bool {
    std::env::args().any(|a| a == "--one")
}
fn canonical_key(r: &Req) -> String {
    let mut s = r.chan.clone();
    for (k, v) in r.kv.iter() {
        s.push(' ');
        s.push_str(k);
        s.push('=');
        s.push_str(v);
    }
    s
}
fn cache_get(k: &str) -> Option<String> {
    CACHE.lock().unwrap().as_ref().and_then(|m| m.get(k).cloned())
}
fn cache_put(k: String, v: String) {
    CACHE.lock().unwrap().get_or_insert_with(HashMap::new).insert(k, v);
}
const CHILD_TIMEOUT_S: f64 = 30.0;
const CHILD_MEM_MB: u64 = 6144;

/// `vharness::run_isolated` with the child's stdout drained while it runs
fn run_isolated(line: &str, timeout_s: f64, mem_mb: u64) -> String {
    use std::io::{Read, Write};
    use std::process::{Command, Stdio};
    let exe = std::env::current_exe().expect("current exe");
    let script = format!("ulimit -v {}; exec \"$0\" --one", mem_mb * 1024);
    let mut child = Command::new("sh")
        .arg("-c")
        .arg(&script)
        .arg(exe)
        .stdin(Stdio::piped())
        .stdout(Stdio::piped())
        .stderr(Stdio::null())
        .spawn()
        .expect("spawn child");
    let mut stdin = child.stdin.take().unwrap();
    let payload = format!("{}\n", line);
    let writer = std::thread::spawn(move || {
        let _ = stdin.write_all(payload.as_bytes());
    });
    let mut stdout = child.stdout.take().unwrap();
    let reader = std::thread::spawn(move || {
        let mut s = String::new();
        let _ = stdout.read_to_string(&mut s);
        s
    });
    let t0 = std::time::Instant::now();
    let status = loop {
        match child.try_wait() {
            Ok(Some(st)) => break Some(st),
            Ok(None) => {
                if t0.elapsed().as_secs_f64() > timeout_s {
                    let _ = child.kill();
                    let _ = child.wait();
                    break None;
                }
                std::thread::sleep(std::time::Duration::from_millis(1));
            }
            Err(_) => return "abort:wait".to_string(),
        }
    };
    let _ = writer.join();
    let out = reader.join().unwrap_or_default();
    match status {
        None => "hang".to_string(),
        Some(st) => {
            let out = out.trim().to_string();
            if st.success() && !out.is_empty() {
                out
            } else {
                format!("abort:{:?}", st.code())
            }
        }
    }
}
fn isolated(r: &Req, f: fn(&Req) -> String) -> String {
    if in_child() {
        return f(r);
    }
    let key = canonical_key(r);
    if let Some(v) = cache_get(&key) {
        return v;
    }
    let out = run_isolated(&key, CHILD_TIMEOUT_S, CHILD_MEM_MB);
    cache_put(key, out.clone());
    out
}
fn inner_run(chan: &str) -> Option<fn(&Req) -> String> {
    match chan {
        "info" => Some(info_inner),
        "info.new" => Some(info_new_inner),
        "e2e" => Some(e2e_inner),
        _ => None,
    }
}
fn run_batch(r: &Req) -> String {
    let k = r.u("k");
    let mut outs = vec![];
    for i in 0..k {
        let line = r.str(&format!("r{}", i)).replace(';', " ");
        let req = Req::parse(&line).expect("inner request");
        let f = inner_run(&req.chan).expect("inner channel");
        outs.push(guarded(|| f(&req)).replace('|', "_"));
    }
    outs.join("|")
}
fn prefetch(lines: &[String], per_child: usize) {
    for chunk in lines.chunks(per_child.max(1)) {
        let todo: Vec<String> = chunk
            .iter()
            .map(|l| canonical_key(&Req::parse(l).unwrap()))
            .filter(|k| cache_get(k).is_none())
            .collect();
        if todo.is_empty() {
            continue;
        }
        let mut bl = format!("batch k={}", todo.len());
        for (i, k) in todo.iter().enumerate() {
            bl.push_str(&format!(" r{}={}", i, k.replace(' ', ";")));
        }
        let resp = run_isolated(&bl, CHILD_TIMEOUT_S + 0.5 * todo.len() as f64, CHILD_MEM_MB);
        let parts: Vec<&str> = resp.split('|').collect();
        if parts.len() == todo.len() && resp != "hang" && !resp.starts_with("abort:") {
            for (k, p) in todo.iter().zip(parts.iter()) {
                cache_put(k.clone(), p.to_string());
            }
        } else {
            for k in todo.iter() {
                let out = run_isolated(k, CHILD_TIMEOUT_S, CHILD_MEM_MB);
                cache_put(k.clone(), out);
            }
        }
    }
}

// ------------------------------------------------------------------ wire helpers

type Cone = SupportedConeT<f64>;

fn cone_kind(c: &Cone) -> (usize, usize) {
    match c {
        SupportedConeT::ZeroConeT(n) => (0, *n),
        SupportedConeT::NonnegativeConeT(n) => (1, *n),
        SupportedConeT::SecondOrderConeT(n) => (2, *n),
        SupportedConeT::ExponentialConeT() => (3, 3),
        SupportedConeT::PSDTriangleConeT(n) => (4, *n),
        _ => panic!("cone kind not used by this harness"),
    }
}
fn cone_of(k: usize, d: usize) -> Cone {
    match k {
        0 => SupportedConeT::ZeroConeT(d),
        1 => SupportedConeT::NonnegativeConeT(d),
        2 => SupportedConeT::SecondOrderConeT(d),
        3 => SupportedConeT::ExponentialConeT(),
        4 => SupportedConeT::PSDTriangleConeT(d),
        _ => panic!("cone kind"),
    }
}
fn fmt_cones(p: &str, cs: &[Cone]) -> String {
    let k: Vec<usize> = cs.iter().map(|c| cone_kind(c).0).collect();
    let d: Vec<usize> = cs.iter().map(|c| cone_kind(c).1).collect();
    format!("{}ckind={} {}cdim={}", p, fus(&k), p, fus(&d))
}
fn parse_cones(r: &Req, p: &str) -> Vec<Cone> {
    let k = r.us(&format!("{}ckind", p));
    let d = r.us(&format!("{}cdim", p));
    k.iter().zip(d.iter()).map(|(&k, &d)| cone_of(k, d)).collect()
}
fn nvars(c: &Cone) -> usize {
    match cone_kind(c) {
        (3, _) => 3,
        (4, d) => d * (d + 1) / 2,
        (_, d) => d,
    }
}
fn fmt_sets(k: &str, s: &[Vec<usize>]) -> String {
    let lens: Vec<usize> = s.iter().map(|v| v.len()).collect();
    let flat: Vec<usize> = s.iter().flatten().copied().collect();
    format!("{}_len={} {}={}", k, fus(&lens), k, fus(&flat))
}
fn parse_sets(r: &Req, k: &str) -> Vec<Vec<usize>> {
    let lens = r.us(&format!("{}_len", k));
    let flat = r.us(k);
    let mut out = vec![];
    let mut p = 0;
    for l in lens {
        out.push(flat[p..p + l].to_vec());
        p += l;
    }
    out
}
type Pattern = (hk::TreeDump, Vec<usize>, usize);

fn fmt_patterns(ps: &[Pattern]) -> String {
    let mut s = format!("np={}", ps.len());
    for (i, (t, ord, oi)) in ps.iter().enumerate() {
        let p = format!("p{}_", i);
        s.push_str(&format!(
            " {p}oi={} {p}ord={} {p}ncl={} {} {} {p}par={} {p}spost={} {p}nblk={}",
            oi,
            fus(ord),
            t.n_cliques,
            fmt_sets(&format!("{p}snode"), &t.snode),
            fmt_sets(&format!("{p}sep"), &t.separators),
            fus(&t.snode_parent),
            fus(&t.snode_post),
            fus(t.nblk.as_ref().map(|v| v.as_slice()).unwrap_or(&[])),
        ));
    }
    s
}
fn parse_patterns(r: &Req) -> Vec<Pattern> {
    (0..r.u("np"))
        .map(|i| {
            let p = format!("p{}_", i);
            let t = hk::TreeDump {
                snode: parse_sets(r, &format!("{p}snode")),
                snode_post: r.us(&format!("{p}spost")),
                snode_parent: r.us(&format!("{p}par")),
                snode_children: vec![],
                post: vec![],
                separators: parse_sets(r, &format!("{p}sep")),
                nblk: if r.has(&format!("{p}nonblk")) { None } else { Some(r.us(&format!("{p}nblk"))) },
                n_cliques: r.u(&format!("{p}ncl")),
            };
            (t, r.us(&format!("{p}ord")), r.u(&format!("{p}oi")))
        })
        .collect()
}
fn parse_info(r: &Req) -> hk::Info {
    hk::Info::from_parts((r.u("n"), r.u("m")), parse_cones(r, ""), &parse_patterns(r))
}
fn fmt_csc_p(p: &str, a: &CscMatrix<f64>) -> String {
    Line::out().csc(p, a).done()
}
fn settings(compact: bool, merge: &str, complete: bool) -> DefaultSettings<f64> {
    DefaultSettingsBuilder::default()
        .verbose(false)
        .chordal_decomposition_enable(true)
        .chordal_decomposition_compact(compact)
        .chordal_decomposition_merge_method(merge.to_string())
        .chordal_decomposition_complete_dual(complete)
        .build()
        .unwrap()
}

// ---- a direct description of the decomposition, derived from the patterns only ----------

/// original rows of the blocks: for every cone of the original list, in order, either
/// `Plain(start, len)` or `Cliques(start, Vec<sorted original vertices>)` in *post-order index* 0..ncl
enum Block {
    Plain(usize, usize),
    Cliques(usize, Vec<Vec<usize>>, Vec<Vec<usize>>, Vec<usize>), // start, cliques, separators(orig), parent post-index
}
fn tri(i: usize, j: usize) -> usize {
    let (i, j) = if i <= j { (i, j) } else { (j, i) };
    j * (j + 1) / 2 + i
}
fn blocks_of(cones: &[Cone], pats: &[Pattern]) -> Vec<Block> {
    let mut out = vec![];
    let mut start = 0;
    let mut k = 0;
    for (ci, c) in cones.iter().enumerate() {
        if k < pats.len() && pats[k].2 == ci {
            let (t, ord, _) = &pats[k];
            let mut cliques = vec![];
            let mut seps = vec![];
            let mut par = vec![];
            for i in 0..t.n_cliques {
                let c = t.snode_post[i];
                let mut cl: Vec<usize> = t.snode[c].iter().chain(t.separators[c].iter()).map(|&v| ord[v]).collect();
                cl.sort();
                cl.dedup();
                let mut sp: Vec<usize> = t.separators[c].iter().map(|&v| ord[v]).collect();
                sp.sort();
                cliques.push(cl);
                seps.push(sp);
                let p = t.snode_parent[c];
                par.push(t.snode_post.iter().position(|&x| x == p).unwrap_or(usize::MAX));
            }
            out.push(Block::Cliques(start, cliques, seps, par));
            k += 1;
        } else {
            out.push(Block::Plain(start, nvars(c)));
        }
        start += nvars(c);
    }
    out
}

// ------------------------------------------------------------------ channel: info (analysis, isolated)

fn info_inner(r: &Req) -> String {
    let a = r.csc("A");
    let b = r.fs("b");
    let cones = parse_cones(r, "");
    let st = settings(false, r.str("merge"), false);
    let info = hk::Info::new(&a, &b, &cones, &st);
    fmt_patterns(&info.patterns())
}
fn run_info(r: &Req) -> String {
    isolated(r, info_inner)
}
fn oracle_info(_r: &Req, out: &str) -> Result<(), String> {
    if out == "hang" || out.starts_with("abort") || out.starts_with("panic") {
        return Err(format!("ChordalInfo::new did not return: {}", out));
    }
    Ok(())
}

// ------------------------------------------------------------------ channel: std.H

fn run_std_h(r: &Req) -> String {
    let mut info = parse_info(r);
    let (h, cones) = info.find_standard_H_and_cones();
    let shape_ok = h.colptr == (0..=h.n).collect::<Vec<_>>() && h.nzval.iter().all(|&v| v == 1.0);
    if !shape_ok {
        return format!("rows={} lenH={} HI={} {} bad=1", h.m, h.n, fus(&h.rowval), fmt_cones("", &cones));
    }
    format!("rows={} lenH={} HI={} {}", h.m, h.n, fus(&h.rowval), fmt_cones("", &cones))
}
fn oracle_std_h(r: &Req, out: &str) -> Result<(), String> {
    let o = Req::parse(&format!("x {}", out)).ok_or("unparsable")?;
    if !o.has("HI") || o.has("bad") {
        return Err(format!("find_standard_H_and_cones failed / H is not one 1 per column: {}", out));
    }
    let cones = parse_cones(r, "");
    let pats = parse_patterns(r);
    let m: usize = cones.iter().map(nvars).sum();
    let hi = o.us("HI");
    let newc = parse_cones(&o, "");
    if o.u("rows") != m || o.u("lenH") != hi.len() || hi.iter().any(|&x| x >= m) {
        return Err("H has wrong dimensions / a row index out of range".into());
    }
    // expected structure
    let mut want_rows: Vec<usize> = vec![];
    let mut want_cones: Vec<(usize, usize)> = vec![(0, r.u("m"))];
    for (bi, b) in blocks_of(&cones, &pats).iter().enumerate() {
        match b {
            Block::Plain(s, l) => {
                want_rows.extend(*s..*s + *l);
                want_cones.push(cone_kind(&cones[bi]));
            }
            Block::Cliques(s, cl, _, _) => {
                for c in cl {
                    for j in 0..c.len() {
                        for i in 0..=j {
                            want_rows.push(s + tri(c[i], c[j]));
                        }
                    }
                    want_cones.push((4, c.len()));
                }
            }
        }
    }
    if want_rows != hi {
        return Err("the 1 of some column of H is not in the row of the original entry of its clique position".into());
    }
    if newc.iter().map(cone_kind).collect::<Vec<_>>() != want_cones {
        return Err("new cone list is not [Zero(m), undecomposed cones / one PSD cone per clique]".into());
    }
    // every structurally nonzero original row is hit
    if r.has("nzrows") {
        let hit: BTreeSet<usize> = hi.iter().copied().collect();
        for x in r.us("nzrows") {
            if !hit.contains(&x) {
                return Err(format!("structurally nonzero row {} of [A b] is not hit by any column of H", x));
            }
        }
    }
    Ok(())
}

// ------------------------------------------------------------------ channel: std.augment

fn run_std_augment(r: &Req) -> String {
    let mut info = parse_info(r);
    let (p, q, a, b) = (r.csc("P"), r.fs("q"), r.csc("A"), r.fs("b"));
    let st = settings(false, "none", false);
    let (pn, qn, an, bn, cones) = info.decomp_augment(&p, &q, &a, &b, &st);
    format!("{} q={} {} b={} {}", fmt_csc_p("P", &pn), ffs(&qn), fmt_csc_p("A", &an), ffs(&bn), fmt_cones("", &cones))
}
fn oracle_std_augment(r: &Req, out: &str) -> Result<(), String> {
    let o = Req::parse(&format!("x {}", out)).ok_or("unparsable")?;
    if !o.has("Acolptr") {
        return Err(format!("decomp_augment_standard failed: {}", out));
    }
    let (p, q, a, b) = (r.csc("P"), r.fs("q"), r.csc("A"), r.fs("b"));
    let (pn, qn, an, bn) = (o.csc("P"), o.fs("q"), o.csc("A"), o.fs("b"));
    // H from the independent description
    let cones = parse_cones(r, "");
    let pats = parse_patterns(r);
    let mut hrows: Vec<usize> = vec![];
    for b in blocks_of(&cones, &pats) {
        match b {
            Block::Plain(s, l) => hrows.extend(s..s + l),
            Block::Cliques(s, cl, _, _) => {
                for c in cl {
                    for j in 0..c.len() {
                        for i in 0..=j {
                            hrows.push(s + tri(c[i], c[j]));
                        }
                    }
                }
            }
        }
    }
    let l = hrows.len();
    if pn.check_format().is_err() || an.check_format().is_err() {
        return Err("augmented matrices are not canonical CSC".into());
    }
    if (an.m, an.n) != (a.m + l, a.n + l) || (pn.m, pn.n) != (p.n + l, p.n + l) || qn.len() != q.len() + l || bn.len() != b.len() + l {
        return Err("dimensions of the augmented data".into());
    }
    let da = gen::to_dense(&a);
    let dn = gen::to_dense(&an);
    for i in 0..an.m {
        for j in 0..an.n {
            let want = if i < a.m && j < a.n {
                da[i][j]
            } else if i < a.m {
                (hrows[j - a.n] == i) as usize as f64
            } else if j < a.n {
                0.0
            } else if i - a.m == j - a.n {
                -1.0
            } else {
                0.0
            };
            if dn[i][j].to_bits() != want.to_bits() && !(dn[i][j] == 0.0 && want == 0.0) {
                return Err(format!("A_new({},{}) = {} but [A H; 0 -I] has {}", i, j, dn[i][j], want));
            }
        }
    }
    if an.nnz() != a.nnz() + 2 * l {
        return Err("A_new has explicit zeros / missing entries".into());
    }
    let dp = gen::to_dense(&p);
    let dpn = gen::to_dense(&pn);
    for i in 0..pn.m {
        for j in 0..pn.n {
            let want = if i < p.m && j < p.n { dp[i][j] } else { 0.0 };
            if dpn[i][j] != want {
                return Err(format!("P_new({},{})", i, j));
            }
        }
    }
    if qn[..q.len()] != q[..] || qn[q.len()..].iter().any(|&v| v != 0.0) || bn[..b.len()] != b[..] || bn[b.len()..].iter().any(|&v| v != 0.0) {
        return Err("q_new / b_new are not the originals padded with zeros".into());
    }
    Ok(())
}

// ------------------------------------------------------------------ channel: std.reverse

fn run_std_reverse(r: &Req) -> String {
    let mut info = parse_info(r);
    let (n, m) = (r.u("n"), r.u("m"));
    let st = settings(false, "none", false);
    let p0 = CscMatrix::<f64>::zeros((n, n));
    let a0 = CscMatrix::<f64>::zeros((m, n));
    let (_, _, an, _, cones) = info.decomp_augment(&p0, &vec![0.0; n], &a0, &vec![0.0; m], &st);
    let (s, z) = (r.fs("s"), r.fs("z"));
    let x = vec![0.0; an.n];
    let (xo, so, zo) = info.decomp_reverse(&x, &s, &z, &cones, &st);
    format!("s={} z={} nx={}", ffs(&so), ffs(&zo), xo.len())
}
fn oracle_std_reverse(r: &Req, out: &str) -> Result<(), String> {
    let o = Req::parse(&format!("x {}", out)).ok_or("unparsable")?;
    if !o.has("s") {
        return Err(format!("decomp_reverse_standard failed: {}", out));
    }
    let (n, m) = (r.u("n"), r.u("m"));
    let (s, z) = (r.fs("s"), r.fs("z"));
    let (so, zo) = (o.fs("s"), o.fs("z"));
    if so.len() != m || zo.len() != m || o.u("nx") != n {
        return Err("lengths of the reversed vectors are not (n, m)".into());
    }
    let cones = parse_cones(r, "");
    let pats = parse_patterns(r);
    let mut sum_s = vec![0.0f64; m];
    let mut sum_z = vec![0.0f64; m];
    let mut cnt = vec![0usize; m];
    let mut col = m; // s̃ starts after the zero-cone block of size m
    for b in blocks_of(&cones, &pats) {
        match b {
            Block::Plain(st, l) => {
                for i in 0..l {
                    sum_s[st + i] += s[col];
                    sum_z[st + i] += z[col];
                    cnt[st + i] += 1;
                    col += 1;
                }
            }
            Block::Cliques(st, cl, _, _) => {
                for c in cl {
                    for j in 0..c.len() {
                        for i in 0..=j {
                            let rr = st + tri(c[i], c[j]);
                            sum_s[rr] += s[col];
                            sum_z[rr] += z[col];
                            cnt[rr] += 1;
                            col += 1;
                        }
                    }
                }
            }
        }
    }
    for i in 0..m {
        let ws = sum_s[i];
        let wz = if cnt[i] > 1 { sum_z[i] / cnt[i] as f64 } else { sum_z[i] };
        let tol = 1e-12 * (1.0 + ws.abs() + wz.abs());
        if (so[i] - ws).abs() > tol {
            return Err(format!("s[{}] = {} is not the sum of the clique blocks {}", i, so[i], ws));
        }
        if (zo[i] - wz).abs() > tol {
            return Err(format!("z[{}] = {} is not the average of the clique blocks {}", i, zo[i], wz));
        }
    }
    Ok(())
}

// ------------------------------------------------------------------ channel: compact.Ab

fn fmt_cone_maps(cm: &[hk::ConeMap]) -> String {
    let oi: Vec<usize> = cm.iter().map(|e| e.0).collect();
    let t: Vec<i64> = cm.iter().map(|e| e.1.map(|x| x.0 as i64).unwrap_or(-1)).collect();
    let c: Vec<i64> = cm.iter().map(|e| e.1.map(|x| x.1 as i64).unwrap_or(-1)).collect();
    Line::out().us("cm_oi", &oi).is("cm_t", &t).is("cm_c", &c).done()
}
fn run_compact_ab(r: &Req) -> String {
    let mut info = parse_info(r);
    let (a, b) = (r.csc("A"), r.fs("b"));
    let (an, bn, cones) = info.find_compact_A_b_and_cones(&a, &b);
    format!("{} b={} {} {}", fmt_csc_p("A", &an), ffs(&bn), fmt_cones("", &cones), fmt_cone_maps(&info.cone_maps().unwrap()))
}

/// new row -> (original row, block id) for the compact form; blocks in the order the
/// compact transformation emits them (cliques of a pattern in descending post-order)
fn compact_row_map(cones: &[Cone], pats: &[Pattern]) -> (Vec<(usize, usize)>, Vec<(usize, usize)>, Vec<(usize, Option<(usize, usize)>)>) {
    let mut rows = vec![]; // (orig row, block id)
    let mut newcones = vec![];
    let mut maps = vec![];
    let mut bid = 0;
    let mut k = 0;
    for (ci, b) in blocks_of(cones, pats).iter().enumerate() {
        match b {
            Block::Plain(s, l) => {
                for i in 0..*l {
                    rows.push((s + i, bid));
                }
                newcones.push(cone_kind(&cones[ci]));
                maps.push((ci, None));
                bid += 1;
            }
            Block::Cliques(s, cl, _, _) => {
                for i in (0..cl.len()).rev() {
                    let c = &cl[i];
                    for j in 0..c.len() {
                        for ii in 0..=j {
                            rows.push((s + tri(c[ii], c[j]), bid));
                        }
                    }
                    newcones.push((4, c.len()));
                    maps.push((ci, Some((k, i))));
                    bid += 1;
                }
                k += 1;
            }
        }
    }
    (rows, newcones, maps)
}

fn oracle_compact_ab(r: &Req, out: &str) -> Result<(), String> {
    let o = Req::parse(&format!("x {}", out)).ok_or("unparsable")?;
    if !o.has("Acolptr") {
        return Err(format!("find_compact_A_b_and_cones failed: {}", out));
    }
    let (a, b) = (r.csc("A"), r.fs("b"));
    let (an, bn) = (o.csc("A"), o.fs("b"));
    let cones = parse_cones(r, "");
    let pats = parse_patterns(r);
    let (rowmap, want_cones, want_maps) = compact_row_map(&cones, &pats);
    let mnew = rowmap.len();
    if an.m != mnew || bn.len() != mnew {
        return Err(format!("compact problem has {} rows, expected {}", an.m, mnew));
    }
    if an.rowval.iter().any(|&x| x >= mnew) {
        return Err("a row index of A_new was left unset (usize::MAX) / out of range".into());
    }
    if an.check_format().is_err() {
        return Err("A_new is not canonical CSC".into());
    }
    let newc = parse_cones(&o, "");
    if newc.iter().map(cone_kind).collect::<Vec<_>>() != want_cones {
        return Err("new cone list".into());
    }
    let got_maps: Vec<(usize, Option<(usize, usize)>)> = {
        let oi = o.us("cm_oi");
        let t = o.is("cm_t");
        let c = o.is("cm_c");
        (0..oi.len()).map(|i| (oi[i], if t[i] < 0 { None } else { Some((t[i] as usize, c[i] as usize)) })).collect()
    };
    if got_maps != want_maps {
        return Err("cone_maps".into());
    }
    // every original entry of A (and b) is placed exactly once, in a row that maps back to it
    let dn = gen::to_dense(&an);
    for c in 0..a.n {
        let mut placed: BTreeMap<usize, Vec<f64>> = BTreeMap::new();
        for k in an.colptr[c]..an.colptr[c + 1] {
            placed.entry(rowmap[an.rowval[k]].0).or_default().push(an.nzval[k]);
        }
        let mut orig: BTreeMap<usize, Vec<f64>> = BTreeMap::new();
        for k in a.colptr[c]..a.colptr[c + 1] {
            orig.entry(a.rowval[k]).or_default().push(a.nzval[k]);
        }
        if placed.len() != orig.len() || placed.iter().zip(orig.iter()).any(|(x, y)| x.0 != y.0 || x.1.len() != 1 || x.1[0].to_bits() != y.1[0].to_bits()) {
            return Err(format!("column {}: the entries of A are not each placed exactly once in a row of their original position", c));
        }
    }
    let mut placed_b: BTreeMap<usize, Vec<f64>> = BTreeMap::new();
    for (i, &v) in bn.iter().enumerate() {
        if v != 0.0 {
            placed_b.entry(rowmap[i].0).or_default().push(v);
        }
    }
    for (i, &v) in b.iter().enumerate() {
        let p = placed_b.remove(&i).unwrap_or_default();
        if (v != 0.0 && (p.len() != 1 || p[0].to_bits() != v.to_bits())) || (v == 0.0 && !p.is_empty()) {
            return Err(format!("b[{}] is not placed exactly once", i));
        }
    }
    if !placed_b.is_empty() {
        return Err("b_new has entries that do not come from b".into());
    }
    // overlap columns: +1 in a child's row, -1 in its parent's row of the same (i,j); one per overlap entry
    let mut block_first_row = vec![];
    {
        let mut last = usize::MAX;
        for (i, rm) in rowmap.iter().enumerate() {
            if rm.1 != last {
                block_first_row.push(i);
                last = rm.1;
            }
        }
    }
    // expected overlaps: for every pattern, clique (post index i != root), separator entries
    let mut want_pairs: BTreeSet<(usize, usize)> = BTreeSet::new(); // (child new row, parent new row)
    {
        let mut bid = 0;
        for bl in blocks_of(&cones, &pats) {
            match bl {
                Block::Plain(..) => bid += 1,
                Block::Cliques(_, cl, seps, par) => {
                    let ncl = cl.len();
                    let block_of = |i: usize| bid + (ncl - 1 - i);
                    for i in 0..ncl {
                        if par[i] == usize::MAX {
                            continue;
                        }
                        let (c, p) = (&cl[i], &cl[par[i]]);
                        let sp = &seps[i];
                        for (bj, &vj) in sp.iter().enumerate() {
                            for &vi in &sp[..=bj] {
                                let (ci, cj) = (c.iter().position(|&x| x == vi).unwrap(), c.iter().position(|&x| x == vj).unwrap());
                                let (pi, pj) = match (p.iter().position(|&x| x == vi), p.iter().position(|&x| x == vj)) {
                                    (Some(a), Some(b)) => (a, b),
                                    _ => return Err("separator vertex not in the parent clique".into()),
                                };
                                want_pairs.insert((block_first_row[block_of(i)] + tri(ci, cj), block_first_row[block_of(par[i])] + tri(pi, pj)));
                            }
                        }
                    }
                    bid += ncl;
                }
            }
        }
    }
    let mut got_pairs = BTreeSet::new();
    for c in a.n..an.n {
        let ks: Vec<usize> = (an.colptr[c]..an.colptr[c + 1]).collect();
        if ks.len() != 2 {
            return Err(format!("overlap column {} has {} entries", c, ks.len()));
        }
        let (mut plus, mut minus) = (None, None);
        for &k in &ks {
            if an.nzval[k] == 1.0 {
                plus = Some(an.rowval[k]);
            } else if an.nzval[k] == -1.0 {
                minus = Some(an.rowval[k]);
            }
        }
        match (plus, minus) {
            (Some(p), Some(m)) => {
                if rowmap[p].0 != rowmap[m].0 {
                    return Err(format!("overlap column {} ties rows of different original entries", c));
                }
                got_pairs.insert((p, m));
            }
            _ => return Err(format!("overlap column {} is not (+1, -1)", c)),
        }
    }
    if got_pairs != want_pairs || an.n - a.n != want_pairs.len() {
        return Err("overlap columns do not tie every separator entry of a clique to its parent exactly once".into());
    }
    let _ = dn;
    Ok(())
}

// ------------------------------------------------------------------ channel: compact.augment

/// `decomp_augment_compact` (via `decomp_augment` with `chordal_decomposition_compact = true`)
fn run_compact_augment(r: &Req) -> String {
    let mut info = parse_info(r);
    let (p, q, a, b) = (r.csc("P"), r.fs("q"), r.csc("A"), r.fs("b"));
    let st = settings(true, "none", false);
    let (pn, qn, an, bn, cones) = info.decomp_augment(&p, &q, &a, &b, &st);
    format!("{} q={} {} b={} {} {}", fmt_csc_p("P", &pn), ffs(&qn), fmt_csc_p("A", &an), ffs(&bn), fmt_cones("", &cones), fmt_cone_maps(&info.cone_maps().unwrap()))
}
/// property: the overlap variables are free of cost (`P_new = blockdiag(P, 0)`, `q_new = (q, 0)`,
/// so the objective of `(x, w)` is that of `x`), their number is `A_new.n - A.n`, and
/// `A_new`, `b_new`, cones are those of `find_compact_A_b_and_cones` (judged by `compact.Ab`)
fn oracle_compact_augment(r: &Req, out: &str) -> Result<(), String> {
    let o = Req::parse(&format!("x {}", out)).ok_or("unparsable")?;
    if !o.has("Acolptr") || !o.has("Pcolptr") {
        return Err(format!("decomp_augment_compact failed: {}", out));
    }
    let (p, q, a, b) = (r.csc("P"), r.fs("q"), r.csc("A"), r.fs("b"));
    let (pn, qn, an, bn) = (o.csc("P"), o.fs("q"), o.csc("A"), o.fs("b"));
    if an.n < a.n {
        return Err("A_new has fewer columns than A".into());
    }
    let nadd = an.n - a.n;
    // number of overlap variables from the independent description of the blocks
    let mut want_ov = 0;
    for blk in blocks_of(&parse_cones(r, ""), &parse_patterns(r)) {
        if let Block::Cliques(_, _, seps, _) = blk {
            for sp in seps {
                want_ov += sp.len() * (sp.len() + 1) / 2;
            }
        }
    }
    if nadd != want_ov {
        return Err(format!("{} overlap variables, expected {}", nadd, want_ov));
    }
    if pn.m != p.m + nadd || pn.n != p.n + nadd {
        return Err(format!("P_new is {}x{}, expected {}x{}", pn.m, pn.n, p.m + nadd, p.n + nadd));
    }
    if pn.colptr.len() != pn.n + 1 || pn.rowval.iter().any(|&i| i >= pn.m) {
        return Err("P_new is not a well-formed CSC matrix".into());
    }
    let dn = gen::to_dense(&pn);
    let dp = gen::to_dense(&p);
    for i in 0..pn.m {
        for j in 0..pn.n {
            let want = if i < p.m && j < p.n { dp[i][j] } else { 0.0 };
            if dn[i][j].to_bits() != want.to_bits() && !(dn[i][j] == 0.0 && want == 0.0) {
                return Err(format!("P_new[{},{}] = {} but blockdiag(P, 0) has {}", i, j, dn[i][j], want));
            }
        }
    }
    if qn.len() != q.len() + nadd {
        return Err(format!("q_new has length {}, expected {}", qn.len(), q.len() + nadd));
    }
    for j in 0..qn.len() {
        let want = if j < q.len() { q[j] } else { 0.0 };
        if qn[j].to_bits() != want.to_bits() {
            return Err(format!("q_new[{}] = {} but (q, 0) has {}", j, qn[j], want));
        }
    }
    // the objective of (x, w) equals the objective of x for a test point
    let x: Vec<f64> = (0..qn.len()).map(|j| 1.0 + (j as f64) * 0.5).collect();
    let lin_new: f64 = (0..qn.len()).map(|j| qn[j] * x[j]).sum();
    let lin_old: f64 = (0..q.len()).map(|j| q[j] * x[j]).sum();
    if lin_new.to_bits() != lin_old.to_bits() && !(lin_new == lin_old) {
        return Err(format!("linear objective changed: {} vs {}", lin_new, lin_old));
    }
    let mut quad_new = 0.0;
    let mut quad_old = 0.0;
    for i in 0..pn.m {
        for j in 0..pn.n {
            quad_new += x[i.min(x.len() - 1)] * dn[i][j] * x[j];
            if i < p.m && j < p.n {
                quad_old += x[i.min(x.len() - 1)] * dp[i][j] * x[j];
            }
        }
    }
    if quad_new != quad_old {
        return Err(format!("quadratic objective changed: {} vs {}", quad_new, quad_old));
    }
    // A_new, b_new are the outputs of find_compact_A_b_and_cones
    let mut info = parse_info(r);
    let (an2, bn2, _) = info.find_compact_A_b_and_cones(&a, &b);
    if an2.m != an.m || an2.n != an.n || an2.colptr != an.colptr || an2.rowval != an.rowval
        || an2.nzval.iter().zip(&an.nzval).any(|(u, v)| u.to_bits() != v.to_bits())
        || bn2.len() != bn.len() || bn2.iter().zip(&bn).any(|(u, v)| u.to_bits() != v.to_bits())
    {
        return Err("A_new / b_new differ from find_compact_A_b_and_cones".into());
    }
    Ok(())
}

// ------------------------------------------------------------------ channel: compact.reverse

fn run_compact_reverse(r: &Req) -> String {
    let mut info = parse_info(r);
    let (a, b) = (r.csc("A"), r.fs("b"));
    let (an, _, cones) = info.find_compact_A_b_and_cones(&a, &b);
    let st = settings(true, "none", false);
    let (s, z) = (r.fs("s"), r.fs("z"));
    let x = vec![0.0; an.n];
    let (xo, so, zo) = info.decomp_reverse(&x, &s, &z, &cones, &st);
    format!("s={} z={} nx={}", ffs(&so), ffs(&zo), xo.len())
}
fn oracle_compact_reverse(r: &Req, out: &str) -> Result<(), String> {
    let o = Req::parse(&format!("x {}", out)).ok_or("unparsable")?;
    if !o.has("s") {
        return Err(format!("decomp_reverse_compact failed: {}", out));
    }
    let (n, m) = (r.u("n"), r.u("m"));
    let (s, z) = (r.fs("s"), r.fs("z"));
    let (so, zo) = (o.fs("s"), o.fs("z"));
    if so.len() != m || zo.len() != m || o.u("nx") != n {
        return Err("lengths of the reversed vectors are not (n, m)".into());
    }
    let (rowmap, _, _) = compact_row_map(&parse_cones(r, ""), &parse_patterns(r));
    let mut sum = vec![0.0; m];
    let mut zs: Vec<Vec<f64>> = vec![vec![]; m];
    for (i, rm) in rowmap.iter().enumerate() {
        sum[rm.0] += s[i];
        zs[rm.0].push(z[i]);
    }
    for i in 0..m {
        if (so[i] - sum[i]).abs() > 1e-12 * (1.0 + sum[i].abs()) {
            return Err(format!("s[{}] = {} is not the sum of the clique blocks {}", i, so[i], sum[i]));
        }
        if zs[i].is_empty() {
            if zo[i] != 0.0 {
                return Err(format!("z[{}] outside every block is {}", i, zo[i]));
            }
        } else if !zs[i].iter().any(|&v| v.to_bits() == zo[i].to_bits()) {
            return Err(format!("z[{}] = {} is not the value of any clique block", i, zo[i]));
        }
    }
    Ok(())
}

// ------------------------------------------------------------------ channel: psd_complete (oracle only)

fn run_psd_complete(r: &Req) -> String {
    let info = parse_info(r);
    let d = r.u("d");
    let out = info.psd_complete(0, r.fs("W"), d);
    format!("W={}", ffs(&out))
}

/// eigenvalues of a symmetric matrix (cyclic Jacobi)
fn jacobi_eigs(a: &[Vec<f64>]) -> Vec<f64> {
    let n = a.len();
    let mut a: Vec<Vec<f64>> = a.to_vec();
    for _ in 0..100 {
        let mut off = 0.0;
        for i in 0..n {
            for j in 0..i {
                off += a[i][j] * a[i][j];
            }
        }
        if off < 1e-300 {
            break;
        }
        for p in 0..n {
            for q in p + 1..n {
                if a[p][q].abs() < 1e-300 {
                    continue;
                }
                let theta = (a[q][q] - a[p][p]) / (2.0 * a[p][q]);
                let t = theta.signum() / (theta.abs() + (theta * theta + 1.0).sqrt());
                let t = if theta == 0.0 { 1.0 } else { t };
                let c = 1.0 / (t * t + 1.0).sqrt();
                let s = t * c;
                for k in 0..n {
                    let (akp, akq) = (a[k][p], a[k][q]);
                    a[k][p] = c * akp - s * akq;
                    a[k][q] = s * akp + c * akq;
                }
                for k in 0..n {
                    let (apk, aqk) = (a[p][k], a[q][k]);
                    a[p][k] = c * apk - s * aqk;
                    a[q][k] = s * apk + c * aqk;
                }
            }
        }
    }
    (0..n).map(|i| a[i][i]).collect()
}

fn oracle_psd_complete(r: &Req, out: &str) -> Result<(), String> {
    let o = Req::parse(&format!("x {}", out)).ok_or("unparsable")?;
    if !o.has("W") {
        return Err(format!("psd_complete failed: {}", out));
    }
    let d = r.u("d");
    let w0 = r.fs("W");
    let w = o.fs("W");
    let at = |v: &[f64], i: usize, j: usize| v[j * d + i];
    let scale = w0.iter().fold(1.0f64, |m, v| m.max(v.abs()));
    let pats = parse_patterns(r);
    let cones = parse_cones(r, "");
    for i in 0..d {
        for j in 0..d {
            if (at(&w, i, j) - at(&w, j, i)).abs() > 1e-9 * scale {
                return Err(format!("completion not symmetric at ({},{})", i, j));
            }
        }
    }
    if let Block::Cliques(_, cl, _, _) = &blocks_of(&cones, &pats)[0] {
        for c in cl {
            for &i in c {
                for &j in c {
                    if (at(&w, i, j) - at(&w0, i, j)).abs() > 1e-9 * scale {
                        return Err(format!("completion changed the clique entry ({},{}) from {} to {}", i, j, at(&w0, i, j), at(&w, i, j)));
                    }
                }
            }
        }
    } else {
        return Err("generator: not decomposed".into());
    }
    let m: Vec<Vec<f64>> = (0..d).map(|i| (0..d).map(|j| 0.5 * (at(&w, i, j) + at(&w, j, i))).collect()).collect();
    let emin = jacobi_eigs(&m).into_iter().fold(f64::INFINITY, f64::min);
    if emin < -1e-8 * scale {
        return Err(format!("completed matrix is not PSD: min eigenvalue {}", emin));
    }
    Ok(())
}

// ------------------------------------------------------------------ channel: psd_complete.written
//
// Which entries does `psd_complete` write?  The request carries a matrix whose entries inside
// the clique pattern are random data and whose entries outside are one recognisable value; the
// response is the sorted list of the (column-major, linear) positions of the output whose bit
// pattern differs from the input.  The Lean side (`Chordal.psdCompleteChanged`) computes the same
// list from the indices alone.

fn run_psd_written(r: &Req) -> String {
    let info = parse_info(r);
    let d = r.u("d");
    let w0 = r.fs("W");
    let out = info.psd_complete(0, w0.clone(), d);
    let chg: Vec<usize> = (0..out.len().min(w0.len())).filter(|&k| out[k].to_bits() != w0[k].to_bits()).collect();
    format!("chg={}", fus(&chg))
}

/// on requests marked `valid=1` (pattern straight from the analysis): the changed positions are
/// exactly the positions outside every clique block, bit for bit, and the set is symmetric
fn oracle_psd_written(r: &Req, out: &str) -> Result<(), String> {
    if !r.has("valid") || !r.b("valid") {
        return Ok(());
    }
    let o = Req::parse(&format!("x {}", out)).ok_or("unparsable")?;
    if !o.has("chg") {
        return Err(format!("psd_complete failed on a pattern produced by the analysis: {}", out));
    }
    let d = r.u("d");
    let chg: BTreeSet<usize> = o.us("chg").into_iter().collect();
    let pats = parse_patterns(r);
    let cones = parse_cones(r, "");
    let mut inpat = vec![false; d * d];
    if let Block::Cliques(_, cl, _, _) = &blocks_of(&cones, &pats)[0] {
        for c in cl {
            for &i in c {
                for &j in c {
                    inpat[j * d + i] = true;
                }
            }
        }
    } else {
        return Err("generator: not decomposed".into());
    }
    for j in 0..d {
        for i in 0..d {
            let k = j * d + i;
            if inpat[k] && chg.contains(&k) {
                return Err(format!("completion changed the bits of the clique entry ({},{})", i, j));
            }
            if !inpat[k] && !chg.contains(&k) {
                return Err(format!("completion left the entry ({},{}) outside the clique pattern at its input value", i, j));
            }
            if chg.contains(&k) != chg.contains(&(i * d + j)) {
                return Err(format!("the set of completed entries is not symmetric at ({},{})", i, j));
            }
        }
    }
    Ok(())
}

// ------------------------------------------------------------------ channel: e2e (oracle only, isolated)

const VARIANTS: [(bool, &str, bool); 12] = [
    (false, "none", true), (false, "none", false), (false, "parent_child", true), (false, "parent_child", false),
    (false, "clique_graph", true), (false, "clique_graph", false), (true, "none", true), (true, "none", false),
    (true, "parent_child", true), (true, "parent_child", false), (true, "clique_graph", true), (true, "clique_graph", false),
];

fn status_code(s: SolverStatus) -> usize {
    match s {
        SolverStatus::Unsolved => 0,
        SolverStatus::Solved => 1,
        SolverStatus::PrimalInfeasible => 2,
        SolverStatus::DualInfeasible => 3,
        SolverStatus::AlmostSolved => 4,
        SolverStatus::AlmostPrimalInfeasible => 5,
        SolverStatus::AlmostDualInfeasible => 6,
        SolverStatus::MaxIterations => 7,
        SolverStatus::MaxTime => 8,
        SolverStatus::NumericalError => 9,
        SolverStatus::InsufficientProgress => 10,
    }
}

fn e2e_inner(r: &Req) -> String {
    let (p, q, a, b) = (r.csc("P"), r.fs("q"), r.csc("A"), r.fs("b"));
    let cones = parse_cones(r, "");
    let presolve = r.b("presolve");
    let mut out = String::new();
    for v in 0..=VARIANTS.len() {
        let mut st = if v == 0 { settings(false, "clique_graph", true) } else { settings(VARIANTS[v - 1].0, VARIANTS[v - 1].1, VARIANTS[v - 1].2) };
        st.chordal_decomposition_enable = v != 0;
        st.presolve_enable = presolve;
        let res = std::panic::catch_unwind(std::panic::AssertUnwindSafe(|| {
            let mut solver = DefaultSolver::new(&p, &q, &a, &b, &cones, st);
            solver.solve();
            let dec = solver.data.cones.len();
            (solver.solution.status, solver.solution.obj_val, solver.solution.x.clone(), solver.solution.s.clone(), solver.solution.z.clone(), dec)
        }));
        match res {
            Ok((status, obj, x, s, z, dec)) => out.push_str(&format!(
                "v{v}_st={} v{v}_obj={} v{v}_x={} v{v}_s={} v{v}_z={} v{v}_dec={} ",
                status_code(status), proto::ff(obj), ffs(&x), ffs(&s), ffs(&z), dec)),
            Err(_) => out.push_str(&format!("v{v}_st=99 v{v}_obj=xnan v{v}_x= v{v}_s= v{v}_z= v{v}_dec=0 ")),
        }
    }
    out.trim().to_string()
}
fn run_e2e(r: &Req) -> String {
    isolated(r, e2e_inner)
}

fn svec_to_mat(v: &[f64], d: usize) -> Vec<Vec<f64>> {
    let mut m = vec![vec![0.0; d]; d];
    let mut k = 0;
    for j in 0..d {
        for i in 0..=j {
            let x = if i == j { v[k] } else { v[k] / 2f64.sqrt() };
            m[i][j] = x;
            m[j][i] = x;
            k += 1;
        }
    }
    m
}

/// violation of cone membership (0 if inside)
fn cone_violation(c: &Cone, v: &[f64]) -> f64 {
    match cone_kind(c) {
        (0, _) => v.iter().fold(0.0, |m, x| m.max(x.abs())),
        (1, _) => v.iter().fold(0.0, |m, x| m.max(-x)),
        (2, _) => {
            let nrm = v[1..].iter().map(|x| x * x).sum::<f64>().sqrt();
            (nrm - v[0]).max(0.0)
        }
        (4, d) => (-jacobi_eigs(&svec_to_mat(v, d)).into_iter().fold(f64::INFINITY, f64::min)).max(0.0),
        _ => 0.0,
    }
}
fn dual_violation(c: &Cone, v: &[f64]) -> f64 {
    match cone_kind(c) {
        (0, _) => 0.0,
        _ => cone_violation(c, v),
    }
}

fn oracle_e2e(r: &Req, out: &str) -> Result<(), String> {
    if out == "hang" || out.starts_with("abort") || out.starts_with("panic") {
        return Err(format!("solve did not return: {}", out));
    }
    let o = Req::parse(&format!("x {}", out)).ok_or("unparsable")?;
    let (q, a, b) = (r.fs("q"), r.csc("A"), r.fs("b"));
    let cones = parse_cones(r, "");
    let (n, m) = (a.n, a.m);
    let da = gen::to_dense(&a);
    let inf_row: Vec<bool> = b.iter().map(|&v| v >= 1e20).collect();
    let nb = b.iter().zip(&inf_row).filter(|(_, &i)| !i).fold(0.0f64, |m, (v, _)| m.max(v.abs()));
    let nq = q.iter().fold(0.0f64, |m, v| m.max(v.abs()));
    let base_st = o.u("v0_st");
    let base_obj = o.f("v0_obj");
    if base_st != 1 {
        // the planted problems are strictly feasible on both sides; if the baseline does not
        // solve them the instance says nothing about decomposition
        return Ok(());
    }
    let tol = 2e-6;
    for v in 0..=VARIANTS.len() {
        let name = if v == 0 { "decomposition off".to_string() } else { format!("compact={} merge={} complete_dual={}", VARIANTS[v - 1].0, VARIANTS[v - 1].1, VARIANTS[v - 1].2) };
        let st = o.u(&format!("v{v}_st"));
        if st == 99 {
            return Err(format!("[{}] construction / solve panicked", name));
        }
        // verdict class: the decomposed problem has more variables and degenerate overlap
        // constraints; on the unchanged tree ~1 in 10^3 planted instances with 15 cliques ends
        // AlmostSolved (solved, reduced accuracy) where the undecomposed run is Solved.  That is
        // the same verdict class; the point must then meet every condition below at the reduced
        // accuracy (100·tol), the explicit relaxation the property allows.
        let almost = st == 4 && base_st == 1;
        if st != base_st && !almost {
            return Err(format!("[{}] status {} but {} with decomposition off", name, st, base_st));
        }
        let tol = if almost { 100.0 * tol } else { tol };
        let (x, s, z) = (o.fs(&format!("v{v}_x")), o.fs(&format!("v{v}_s")), o.fs(&format!("v{v}_z")));
        if x.len() != n || s.len() != m || z.len() != m {
            return Err(format!("[{}] solution lengths ({},{},{}) are not (n,m,m) = ({},{},{})", name, x.len(), s.len(), z.len(), n, m, m));
        }
        let obj = o.f(&format!("v{v}_obj"));
        let slack = tol * (1.0 + base_obj.abs()) + 1e-9 * (m as f64);
        if (obj - base_obj).abs() > slack {
            return Err(format!("[{}] objective {} vs {} with decomposition off", name, obj, base_obj));
        }
        // original KKT conditions
        let nx = x.iter().fold(0.0f64, |m, v| m.max(v.abs()));
        let ns = s.iter().zip(&inf_row).filter(|(_, &i)| !i).fold(0.0f64, |m, (v, _)| m.max(v.abs()));
        let nz = z.iter().fold(0.0f64, |m, v| m.max(v.abs()));
        for i in 0..m {
            if inf_row[i] {
                if z[i].abs() > tol {
                    return Err(format!("[{}] dual of the unbounded row {} is {}", name, i, z[i]));
                }
                continue;
            }
            let ax: f64 = (0..n).map(|j| da[i][j] * x[j]).sum();
            let res = ax + s[i] - b[i];
            if res.abs() > 10.0 * tol * (1.0 + nb.max(nx).max(ns)) {
                return Err(format!("[{}] primal residual row {}: {}", name, i, res));
            }
        }
        for j in 0..n {
            let atz: f64 = (0..m).map(|i| da[i][j] * z[i]).sum();
            let res = atz + q[j];
            if res.abs() > 10.0 * tol * (1.0 + nq.max(nz)) {
                return Err(format!("[{}] dual residual column {}: {}", name, j, res));
            }
        }
        let sz: f64 = (0..m).filter(|&i| !inf_row[i]).map(|i| s[i] * z[i]).sum();
        if sz.abs() > 100.0 * tol * (1.0 + base_obj.abs() + ns * nz.min(1e3)) {
            return Err(format!("[{}] complementarity <s,z> = {}", name, sz));
        }
        let mut off = 0;
        let complete = v == 0 || VARIANTS[v - 1].2;
        for c in &cones {
            let l = nvars(c);
            let rows: Vec<usize> = (off..off + l).collect();
            if rows.iter().any(|&i| inf_row[i]) {
                // nonnegative cone with dropped rows: check the kept rows only
                for &i in &rows {
                    if !inf_row[i] && (s[i] < -tol * (1.0 + ns) || z[i] < -tol * (1.0 + nz)) {
                        return Err(format!("[{}] sign of row {}", name, i));
                    }
                }
            } else {
                let vs = cone_violation(c, &s[off..off + l]);
                if vs > 10.0 * tol * (1.0 + ns) {
                    return Err(format!("[{}] slack leaves its cone by {}", name, vs));
                }
                // without dual completion the entries of z outside the pattern are not meaningful
                if complete || cone_kind(c).0 != 4 {
                    let vz = dual_violation(c, &z[off..off + l]);
                    if vz > 10.0 * tol * (1.0 + nz) {
                        return Err(format!("[{}] dual leaves its cone by {}", name, vz));
                    }
                }
            }
            off += l;
        }
    }
    Ok(())
}

// ------------------------------------------------------------------ channels of the accessors /
// helpers that the older channels only exercise through their callers
// (model: lean/ClarabelModel/Chordal/InfoAccessors.lean)

/// value of one accessor; a panic is reported as the bare token `panic`
fn gv<F: FnOnce() -> String>(f: F) -> String {
    let s = guarded(f);
    if s.starts_with("panic") {
        "panic".to_string()
    } else {
        s
    }
}

fn run_info_counts(r: &Req) -> String {
    let info = parse_info(r);
    let a = CscMatrix::<f64>::zeros((r.u("m"), r.u("n")));
    format!(
        "dec={} ic={} ipc={} dcc={} fpa={} ppa={} fcc={} fpc={} ppc={} lnb={} hcols={} adim={} hdr={}",
        info.is_decomposed() as usize,
        info.init_cone_count(),
        info.init_psd_cone_count(),
        info.decomposable_cone_count(),
        gv(|| info.final_psd_cones_added().to_string()),
        gv(|| info.premerge_psd_cones_added().to_string()),
        gv(|| info.final_cone_count().to_string()),
        gv(|| info.final_psd_cone_count().to_string()),
        gv(|| info.premerge_psd_cone_count().to_string()),
        gv(|| info.largest_nblk().to_string()),
        gv(|| info.find_H_col_dimension().to_string()),
        gv(|| {
            let (x, y, z) = info.find_A_dimension(&a);
            format!("{},{},{}", x, y, z)
        }),
        gv(|| format!(
            "{},{},{},{}",
            info.init_psd_cone_count(),
            info.decomposable_cone_count(),
            info.premerge_psd_cone_count(),
            info.final_psd_cone_count()
        )),
    )
}
/// the meaning of the counters, stated on the request alone: `Σ (n_cliques - 1)` PSD cones are
/// added by the decomposition (`Σ (snode slots - 1)` before merging), the identity / clique blocks
/// have `Σ nvars` / `Σ tri(nblk)` columns, the overlaps are `Σ tri(|separator|)`
fn oracle_info_counts(r: &Req, out: &str) -> Result<(), String> {
    let o = Req::parse(&format!("x {}", out)).ok_or("unparsable")?;
    let cones = parse_cones(r, "");
    let pats = parse_patterns(r);
    if r.has("damaged") {
        return Ok(());
    }
    let npsd = cones.iter().filter(|c| cone_kind(c).0 == 4).count();
    let added: usize = pats.iter().map(|p| p.0.n_cliques - 1).sum();
    let pre: usize = pats.iter().map(|p| p.0.snode.len() - 1).sum();
    let want = [
        ("dec", (!pats.is_empty()) as usize),
        ("ic", cones.len()),
        ("ipc", npsd),
        ("dcc", pats.len()),
        ("fpa", added),
        ("ppa", pre),
        ("fcc", cones.len() + added),
        ("fpc", npsd + added),
        ("ppc", npsd + pre),
        ("lnb", pats.iter().flat_map(|p| p.0.nblk.clone().unwrap_or_default()).max().unwrap_or(0)),
    ];
    for (k, v) in want {
        if o.str(k) != v.to_string() {
            return Err(format!("{} = {} but the patterns give {}", k, o.str(k), v));
        }
    }
    if pre < added {
        return Err("more cones after merging than before".into());
    }
    // columns of H / rows of the compact A, overlaps
    let mut cols = 0;
    let mut ov = 0;
    let mut k = 0;
    for (ci, c) in cones.iter().enumerate() {
        if k < pats.len() && pats[k].2 == ci {
            let t = &pats[k].0;
            for i in 0..t.n_cliques {
                let c = t.snode_post[i];
                let nb = t.snode[c].len() + t.separators[c].len();
                cols += nb * (nb + 1) / 2;
                let sp = t.separators[c].len();
                ov += sp * (sp + 1) / 2;
            }
            k += 1;
        } else {
            cols += nvars(c);
        }
    }
    if o.str("hcols") != cols.to_string() {
        return Err(format!("find_H_col_dimension = {} but the blocks have {} columns", o.str("hcols"), cols));
    }
    if o.us("adim") != vec![cols, r.u("n") + ov, ov] {
        return Err(format!("find_A_dimension = {} but the layout is {},{},{}", o.str("adim"), cols, r.u("n") + ov, ov));
    }
    if o.us("hdr") != vec![npsd, pats.len(), npsd + pre, npsd + added] {
        return Err("header counters".into());
    }
    Ok(())
}

fn run_mask(r: &Req) -> String {
    let a = r.csc("A");
    let b = r.fs("b");
    format!("mask={}", vharness::proto::fbs(&hk::find_aggregate_sparsity_mask(&a, &b)))
}
fn oracle_mask(r: &Req, out: &str) -> Result<(), String> {
    let a = r.csc("A");
    let b = r.fs("b");
    if a.rowval.iter().any(|&i| i >= b.len()) {
        return if out.starts_with("panic") { Ok(()) } else { Err("row index outside b accepted".into()) };
    }
    let o = Req::parse(&format!("x {}", out)).ok_or("unparsable")?;
    let mask = o.bs("mask");
    if mask.len() != b.len() {
        return Err("mask length".into());
    }
    for (i, &mk) in mask.iter().enumerate() {
        let want = a.rowval.contains(&i) || b[i] != 0.0;
        if mk != want {
            return Err(format!("row {}: mask {} but [A b] {} an entry there", i, mk, if want { "has" } else { "has not" }));
        }
    }
    Ok(())
}

/// `ChordalInfo::new` with everything it records
fn info_new_inner(r: &Req) -> String {
    let a = r.csc("A");
    let b = r.fs("b");
    let cones = parse_cones(r, "");
    let st = settings(false, r.str("merge"), false);
    let info = hk::Info::new(&a, &b, &cones, &st);
    let (n, m) = info.init_dims();
    format!("dec={} n={} m={} {} {}", info.is_decomposed() as usize, n, m, fmt_cones("", &info.init_cones()), fmt_patterns(&info.patterns()))
}
fn run_info_new(r: &Req) -> String {
    isolated(r, info_new_inner)
}
fn oracle_info_new(r: &Req, out: &str) -> Result<(), String> {
    if out == "hang" || out.starts_with("abort") || out.starts_with("panic") {
        return Err(format!("ChordalInfo::new did not return: {}", out));
    }
    let o = Req::parse(&format!("x {}", out)).ok_or("unparsable")?;
    let cones = parse_cones(r, "");
    let pats = parse_patterns(&o);
    let dec = o.u("dec") == 1;
    if dec != !pats.is_empty() {
        return Err("is_decomposed disagrees with the stored patterns".into());
    }
    let kept = parse_cones(&o, "");
    if dec && kept.len() != cones.len() || !dec && !kept.is_empty() {
        return Err("init_cones: copied iff decomposed".into());
    }
    let mut last = None;
    for (t, ord, oi) in pats.iter() {
        if Some(*oi) <= last && last.is_some() {
            return Err("orig_index not strictly increasing".into());
        }
        last = Some(*oi);
        match cones.get(*oi).map(cone_kind) {
            Some((4, d)) => {
                if ord.len() != d {
                    return Err(format!("pattern of cone {}: ordering of length {} for dimension {}", oi, ord.len(), d));
                }
            }
            _ => return Err(format!("pattern stored for cone {} which is not a PSD cone", oi)),
        }
        if t.n_cliques < 2 {
            return Err("a pattern with a single clique was stored".into());
        }
    }
    Ok(())
}

fn run_helper_altseq(r: &Req) -> String {
    format!("v={}", ffs(&hkd::alternating_sequence(r.u("total"), r.u("nstart"))))
}
fn oracle_helper_altseq(r: &Req, out: &str) -> Result<(), String> {
    let o = Req::parse(&format!("x {}", out)).ok_or("unparsable")?;
    let v = o.fs("v");
    let (t, ns) = (r.u("total"), r.u("nstart"));
    if v.len() != t {
        return Err("length".into());
    }
    for (i, &x) in v.iter().enumerate() {
        let want = if i > ns && (i - ns) % 2 == 1 { -1.0 } else { 1.0 };
        if x != want {
            return Err(format!("entry {} = {} (want {})", i, x, want));
        }
    }
    Ok(())
}
fn run_helper_extracols(r: &Req) -> String {
    format!("v={}", fus(&hkd::extra_columns(r.u("total"), r.u("nstart"), r.u("startval"))))
}
fn oracle_helper_extracols(r: &Req, out: &str) -> Result<(), String> {
    let (t, ns, sv) = (r.u("total"), r.u("nstart"), r.u("startval"));
    if t == 0 {
        return if out.starts_with("panic") { Ok(()) } else { Err("empty vector accepted".into()) };
    }
    let o = Req::parse(&format!("x {}", out)).ok_or("unparsable")?;
    let v = o.us("v");
    if v.len() != t {
        return Err("length".into());
    }
    for (i, &x) in v.iter().enumerate() {
        // pairs start at ns; a trailing single slot (odd remainder) stays 0
        let want = if i >= ns && (i - ns) / 2 * 2 + ns + 1 < t { sv + (i - ns) / 2 } else { 0 };
        if x != want {
            return Err(format!("entry {} = {} (want {})", i, x, want));
        }
    }
    Ok(())
}
fn fmt_opt_range(x: Option<std::ops::Range<usize>>) -> String {
    match x {
        Some(g) => format!("{},{}", g.start, g.end),
        None => "none".to_string(),
    }
}
fn run_helper_rows(r: &Req) -> String {
    let a = r.csc("A");
    let b = r.fs("b");
    let (col, rs, re) = (r.u("col"), r.u("rs"), r.u("re"));
    format!(
        "mat={} vec={}",
        gv(|| fmt_opt_range(hkd::get_rows_mat(&a, col, rs..re))),
        fmt_opt_range(hkd::get_rows_vec(&b, rs..re))
    )
}
fn oracle_helper_rows(r: &Req, out: &str) -> Result<(), String> {
    let o = Req::parse(&format!("x {}", out)).ok_or("unparsable")?;
    let a = r.csc("A");
    let b = r.fs("b");
    let (col, rs, re) = (r.u("col"), r.u("rs"), r.u("re"));
    if r.has("damaged") {
        return Ok(());
    }
    // the returned index range holds exactly the stored rows inside rs..re
    let check = |got: &str, idx: &[usize], base: usize| -> Result<(), String> {
        let inside: Vec<usize> = (0..idx.len()).filter(|&k| rs <= idx[k] && idx[k] < re).collect();
        if got == "none" {
            return if inside.is_empty() { Ok(()) } else { Err("rows inside the range but None returned".into()) };
        }
        let g: Vec<usize> = got.split(',').map(|x| x.parse().unwrap()).collect();
        let want: Vec<usize> = (g[0]..g[1]).map(|k| k - base).collect();
        if want != inside {
            return Err(format!("range {}..{} does not hold exactly the rows in {}..{}", g[0], g[1], rs, re));
        }
        Ok(())
    };
    let (lo, hi) = (a.colptr[col], a.colptr[col + 1]);
    check(o.str("mat"), &a.rowval[lo..hi], lo)?;
    let bind: Vec<usize> = (0..b.len()).filter(|&i| b[i] != 0.0).collect();
    check(o.str("vec"), &bind, 0)
}
fn run_helper_clique(r: &Req) -> String {
    let pats = parse_patterns(r);
    format!("clique={}", fus(&hkd::get_clique_by_index(&pats[0].0, r.u("i"))))
}
fn oracle_helper_clique(r: &Req, out: &str) -> Result<(), String> {
    let pats = parse_patterns(r);
    let t = &pats[0].0;
    let i = r.u("i");
    if i >= t.snode.len() || i >= t.separators.len() {
        return if out.starts_with("panic") { Ok(()) } else { Err("index out of range accepted".into()) };
    }
    let o = Req::parse(&format!("x {}", out)).ok_or("unparsable")?;
    let got: BTreeSet<usize> = o.us("clique").into_iter().collect();
    let want: BTreeSet<usize> = t.snode[i].iter().chain(t.separators[i].iter()).copied().collect();
    if got != want || o.us("clique").len() != want.len() {
        return Err("not the union of supernode and separator".into());
    }
    Ok(())
}
fn run_helper_dcone(r: &Req) -> String {
    let mut hi = r.us("HI");
    let mut cones = parse_cones(r, "");
    let cone = parse_cones(r, "x")[0].clone();
    hkd::decompose_with_cone(&mut hi, &mut cones, &cone, r.u("row"));
    format!("HI={} {}", fus(&hi), fmt_cones("", &cones))
}
fn oracle_helper_dcone(r: &Req, out: &str) -> Result<(), String> {
    let o = Req::parse(&format!("x {}", out)).ok_or("unparsable")?;
    let cone = parse_cones(r, "x")[0].clone();
    let mut want = r.us("HI");
    want.extend((0..nvars(&cone)).map(|i| r.u("row") + i));
    if o.us("HI") != want {
        return Err("H_I is not extended by row..row+nvars".into());
    }
    let mut wc = parse_cones(r, "");
    wc.push(cone);
    if fmt_cones("", &parse_cones(&o, "")) != fmt_cones("", &wc) {
        return Err("cone not appended".into());
    }
    Ok(())
}
fn run_helper_addcone(r: &Req) -> String {
    let (mut ns, os, mut nz, oz) = (r.fs("ns"), r.fs("os"), r.fs("nz"), r.fs("oz"));
    let cone = parse_cones(r, "x")[0].clone();
    let rp = hkd::add_blocks_with_cone(&mut ns, &os, &mut nz, &oz, r.u("rs")..r.u("re"), &cone, r.u("rp"));
    format!("s={} z={} rp={}", ffs(&ns), ffs(&nz), rp)
}
fn oracle_helper_addcone(r: &Req, out: &str) -> Result<(), String> {
    let (ns, os, nz, oz) = (r.fs("ns"), r.fs("os"), r.fs("nz"), r.fs("oz"));
    let cone = parse_cones(r, "x")[0].clone();
    let (rs, re, rp) = (r.u("rs"), r.u("re"), r.u("rp"));
    let l = nvars(&cone);
    let fits = rs <= re && re - rs == l && re <= ns.len() && re <= nz.len() && rp + l <= os.len() && rp + l <= oz.len();
    if !fits {
        return if out.starts_with("panic") { Ok(()) } else { Err("ill-fitting ranges accepted".into()) };
    }
    let o = Req::parse(&format!("x {}", out)).ok_or("unparsable")?;
    let (s, z) = (o.fs("s"), o.fs("z"));
    for i in 0..ns.len() {
        let (ws, wz) = if rs <= i && i < re { (os[rp + i - rs], oz[rp + i - rs]) } else { (ns[i], nz[i]) };
        if s[i].to_bits() != ws.to_bits() || z[i].to_bits() != wz.to_bits() {
            return Err(format!("entry {} is not the copy / the old value", i));
        }
    }
    if o.u("rp") != rp + l {
        return Err("row_ptr".into());
    }
    Ok(())
}
fn run_helper_noverlaps(r: &Req) -> String {
    let (ri, nov) = hkd::number_of_overlaps_in_rows(&r.csc("A"));
    format!("ri={} nov={}", fus(&ri), ffs(&nov))
}
fn oracle_helper_noverlaps(r: &Req, out: &str) -> Result<(), String> {
    let a = r.csc("A");
    if a.rowval.iter().any(|&i| i >= a.m) {
        return if out.starts_with("panic") { Ok(()) } else { Err("row index out of range accepted".into()) };
    }
    let o = Req::parse(&format!("x {}", out)).ok_or("unparsable")?;
    let (ri, nov) = (o.us("ri"), o.fs("nov"));
    let mut sums = vec![0.0; a.m];
    for (k, &i) in a.rowval.iter().enumerate() {
        sums[i] += a.nzval[k];
    }
    let want: Vec<usize> = (0..a.m).filter(|&i| sums[i] > 1.0).collect();
    if ri != want || nov.len() != ri.len() || ri.iter().zip(&nov).any(|(&i, &v)| v != sums[i]) {
        return Err("not the rows with sum > 1 and their sums".into());
    }
    Ok(())
}

fn channels() -> Vec<Channel> {
    vec![
        Channel { name: "info", tol: Tol::Exact, run: run_info, oracle: Some(oracle_info), modelled: false,
            rust_fn: "ChordalInfo::new (analysis; property C17)", lean: "(input of the C18 model)" },
        Channel { name: "std.H", tol: Tol::Exact, run: run_std_h, oracle: Some(oracle_std_h), modelled: true,
            rust_fn: "ChordalInfo::find_standard_H_and_cones", lean: "Chordal.ChordalInfo.findStandardHAndCones / C18.H_structure" },
        Channel { name: "std.augment", tol: Tol::Exact, run: run_std_augment, oracle: Some(oracle_std_augment), modelled: true,
            rust_fn: "ChordalInfo::decomp_augment_standard", lean: "Chordal.ChordalInfo.decompAugmentStandard / C18.standard_*" },
        Channel { name: "std.reverse", tol: Tol::Exact, run: run_std_reverse, oracle: Some(oracle_std_reverse), modelled: true,
            rust_fn: "ChordalInfo::decomp_reverse_standard", lean: "Chordal.decompReverseStandard / C18.reverse_standard" },
        Channel { name: "compact.Ab", tol: Tol::Exact, run: run_compact_ab, oracle: Some(oracle_compact_ab), modelled: true,
            rust_fn: "ChordalInfo::find_compact_A_b_and_cones", lean: "Chordal.findCompactAbAndCones" },
        Channel { name: "compact.augment", tol: Tol::Exact, run: run_compact_augment, oracle: Some(oracle_compact_augment), modelled: true,
            rust_fn: "ChordalInfo::decomp_augment_compact", lean: "Chordal.decompAugmentCompact / C18.compact_objective" },
        Channel { name: "compact.reverse", tol: Tol::Exact, run: run_compact_reverse, oracle: Some(oracle_compact_reverse), modelled: true,
            rust_fn: "ChordalInfo::decomp_reverse_compact", lean: "Chordal.decompReverseCompact" },
        Channel { name: "psd_complete", tol: Tol::Exact, run: run_psd_complete, oracle: Some(oracle_psd_complete), modelled: false,
            rust_fn: "psd_completion::psd_complete", lean: "(oracle only: agrees with clique blocks + PSD; Grone et al. assumed)" },
        Channel { name: "psd_complete.written", tol: Tol::Exact, run: run_psd_written, oracle: Some(oracle_psd_written), modelled: true,
            rust_fn: "psd_completion::psd_complete (positions written)", lean: "Chordal.psdCompleteChanged / Chordal.psdCompleteWritten / C18.completion_agrees" },
        Channel { name: "psd_complete.data", tol: Tol::Exact, run: run_psd_complete, oracle: None, modelled: true,
            rust_fn: "psd_completion::psd_complete (data; LAPACK/BLAS results replayed from the output)", lean: "Chordal.psdComplete / Chordal.psdComplete_agrees" },
        Channel { name: "e2e", tol: Tol::Exact, run: run_e2e, oracle: Some(oracle_e2e), modelled: false,
            rust_fn: "DefaultSolver::new + solve, decomposition on vs off", lean: "(oracle only)" },
        Channel { name: "batch", tol: Tol::Exact, run: run_batch, oracle: None, modelled: false, rust_fn: "(isolation wrapper)", lean: "" },
        Channel { name: "info.counts", tol: Tol::Exact, run: run_info_counts, oracle: Some(oracle_info_counts), modelled: true,
            rust_fn: "ChordalInfo::{is_decomposed,init_cone_count,init_psd_cone_count,decomposable_cone_count,final_psd_cones_added,premerge_psd_cones_added,final_cone_count,final_psd_cone_count,premerge_psd_cone_count,largest_nblk,find_H_col_dimension,find_A_dimension}",
            lean: "Chordal.ChordalInfo.{isDecomposed,initConeCount,initPsdConeCount,decomposableConeCount,finalPsdConesAdded,premergePsdConesAdded,finalConeCount,finalPsdConeCount,premergePsdConeCount,largestNblk,findHColDimension,findADimension,headerCounts} / C18.cone_counts" },
        Channel { name: "mask", tol: Tol::Exact, run: run_mask, oracle: Some(oracle_mask), modelled: true,
            rust_fn: "chordal_info::find_aggregate_sparsity_mask", lean: "Chordal.findAggregateSparsityMask" },
        Channel { name: "info.new", tol: Tol::Exact, run: run_info_new, oracle: Some(oracle_info_new), modelled: true,
            rust_fn: "ChordalInfo::new / find_sparsity_patterns / analyse_psdtriangle_sparsity_pattern (find_graph's results handed to the model)",
            lean: "Chordal.ChordalInfo.new / Chordal.findSparsityPatterns / Chordal.analysePsdtriangleSparsityPattern" },
        Channel { name: "helper.altseq", tol: Tol::Exact, run: run_helper_altseq, oracle: Some(oracle_helper_altseq), modelled: true,
            rust_fn: "augment_compact::alternating_sequence", lean: "Chordal.alternatingSequence" },
        Channel { name: "helper.extracols", tol: Tol::Exact, run: run_helper_extracols, oracle: Some(oracle_helper_extracols), modelled: true,
            rust_fn: "augment_compact::extra_columns", lean: "Chordal.extraColumns" },
        Channel { name: "helper.rows", tol: Tol::Exact, run: run_helper_rows, oracle: Some(oracle_helper_rows), modelled: true,
            rust_fn: "augment_compact::{get_rows_mat,get_rows_vec,get_rows_subset}", lean: "Chordal.{getRowsMat,getRowsVec,getRowsSubset}" },
        Channel { name: "helper.clique", tol: Tol::Exact, run: run_helper_clique, oracle: Some(oracle_helper_clique), modelled: true,
            rust_fn: "augment_compact::get_clique_by_index", lean: "Chordal.getCliqueByIndex" },
        Channel { name: "helper.dcone", tol: Tol::Exact, run: run_helper_dcone, oracle: Some(oracle_helper_dcone), modelled: true,
            rust_fn: "augment_standard::decompose_with_cone", lean: "Chordal.ChordalInfo.decomposeWithCone" },
        Channel { name: "helper.addcone", tol: Tol::Exact, run: run_helper_addcone, oracle: Some(oracle_helper_addcone), modelled: true,
            rust_fn: "reverse_compact::add_blocks_with_cone", lean: "Chordal.addBlocksWithCone" },
        Channel { name: "helper.noverlaps", tol: Tol::Exact, run: run_helper_noverlaps, oracle: Some(oracle_helper_noverlaps), modelled: true,
            rust_fn: "reverse_standard::number_of_overlaps_in_rows (row_sums, position_all)", lean: "Chordal.numberOfOverlapsInRows / Chordal.cscRowSums" },
    ]
}

// ------------------------------------------------------------------ generators

/// sparse symmetric pattern on `d` vertices (edges i<j) of one of several families
fn psd_pattern(rng: &mut Rng, d: usize) -> Vec<(usize, usize)> {
    let mut e = BTreeSet::new();
    match rng.below(5) {
        0 => {
            let bw = 1 + rng.below(2.min(d - 1));
            for j in 0..d {
                for i in j.saturating_sub(bw)..j {
                    e.insert((i, j));
                }
            }
        }
        1 => {
            for i in 0..d - 1 {
                e.insert((i, d - 1));
            }
            if rng.bool(0.5) {
                for i in 0..d - 2 {
                    e.insert((i, d - 2));
                }
            }
        }
        2 => {
            // overlapping dense blocks
            let mut s = 0;
            while s + 1 < d {
                let bsz = 2 + rng.below(3.min(d - s - 1));
                let hi = (s + bsz).min(d);
                for j in s..hi {
                    for i in s..j {
                        e.insert((i, j));
                    }
                }
                if hi == d {
                    break;
                }
                s = hi - 1;
            }
        }
        3 => {
            // block diagonal (disconnected)
            let cut = 1 + rng.below(d - 1);
            for j in 0..d {
                for i in 0..j {
                    if (i < cut) == (j < cut) && rng.bool(0.8) {
                        e.insert((i, j));
                    }
                }
            }
        }
        _ => {
            let p = *rng.choose(&[0.2, 0.4, 0.6]);
            for j in 0..d {
                for i in 0..j {
                    if rng.bool(p) {
                        e.insert((i, j));
                    }
                }
            }
        }
    }
    e.into_iter().collect()
}

struct Problem {
    n: usize,
    cones: Vec<Cone>,
    a: CscMatrix<f64>,
    b: Vec<f64>,
    q: Vec<f64>,
    p: CscMatrix<f64>,
    nzrows: Vec<usize>,
}

/// A planted conic program: primal and dual strictly feasible, sparse aggregate PSD patterns.
/// `inf_rows`: put bounds >= 1e20 into nonnegative cones (dropped by presolve).
fn planted(rng: &mut Rng, inf_rows: bool, small: bool, integer: bool) -> Problem {
    let n = 1 + rng.below(if small { 4 } else { 6 });
    let mut cones: Vec<Cone> = vec![];
    let mut patterns: Vec<Option<Vec<(usize, usize)>>> = vec![];
    let n_psd = 1 + rng.below(2);
    let mut layout: Vec<usize> = vec![];
    for _ in 0..rng.below(3) {
        layout.push(*rng.choose(&[0usize, 1, 1, 2]));
    }
    for _ in 0..n_psd {
        layout.push(4);
        if rng.bool(0.4) {
            layout.push(*rng.choose(&[0usize, 1, 2]));
        }
    }
    if inf_rows && !layout.iter().take_while(|&&k| k != 4).any(|&k| k == 1) {
        layout.insert(0, 1);
    }
    for k in layout {
        match k {
            4 => {
                let d = if small { 3 + rng.below(3) } else { 4 + rng.below(5) };
                cones.push(SupportedConeT::PSDTriangleConeT(d));
                patterns.push(if rng.bool(0.12) { None } else { Some(psd_pattern(rng, d)) });
            }
            2 => {
                cones.push(SupportedConeT::SecondOrderConeT(2 + rng.below(3)));
                patterns.push(None);
            }
            k => {
                cones.push(cone_of(k, 1 + rng.below(3)));
                patterns.push(None);
            }
        }
    }
    let m: usize = cones.iter().map(nvars).sum();
    let val = |rng: &mut Rng| if integer { rng.range(-3, 3) as f64 } else { rng.uniform(-1.0, 1.0) };
    // rows
    let mut dense = vec![vec![0.0; n]; m];
    let mut s0 = vec![0.0; m];
    let mut z0 = vec![0.0; m];
    let mut is_inf = vec![false; m];
    let mut allowed = vec![true; m];
    let mut off = 0;
    for (c, pat) in cones.iter().zip(&patterns) {
        let l = nvars(c);
        match cone_kind(c) {
            (0, _) => {
                for i in 0..l {
                    z0[off + i] = val(rng);
                }
            }
            (1, _) => {
                for i in 0..l {
                    s0[off + i] = 0.5 + rng.unit();
                    z0[off + i] = 0.5 + rng.unit();
                    if inf_rows && rng.bool(0.4) {
                        is_inf[off + i] = true;
                        z0[off + i] = 0.0;
                    }
                }
            }
            (2, _) => {
                for i in 1..l {
                    s0[off + i] = rng.uniform(-0.5, 0.5);
                    z0[off + i] = rng.uniform(-0.5, 0.5);
                }
                s0[off] = 1.0 + l as f64;
                z0[off] = 1.0 + l as f64;
            }
            (4, d) => {
                // S0: pattern-respecting, diagonally dominant; Z0: identity + small
                let edges: BTreeSet<(usize, usize)> = match pat {
                    Some(e) => e.iter().copied().collect(),
                    None => (0..d).flat_map(|j| (0..j).map(move |i| (i, j))).collect(),
                };
                for j in 0..d {
                    for i in 0..=j {
                        let k = off + tri(i, j);
                        if i == j {
                            s0[k] = d as f64 + 1.0;
                            z0[k] = 1.0 + 0.1 * rng.unit();
                        } else if edges.contains(&(i, j)) {
                            s0[k] = rng.uniform(-0.5, 0.5) * 2f64.sqrt();
                            z0[k] = rng.uniform(-0.05, 0.05);
                        } else {
                            allowed[k] = false;
                            z0[k] = rng.uniform(-0.05, 0.05);
                        }
                    }
                }
            }
            _ => {}
        }
        off += l;
    }
    for i in 0..m {
        if !allowed[i] {
            continue;
        }
        for j in 0..n {
            if rng.bool(if integer { 0.5 } else { 0.6 }) {
                dense[i][j] = val(rng);
            }
        }
    }
    // make sure that every allowed PSD row is structurally nonzero somewhere (so that the
    // aggregate pattern is the intended one) with probability 0.8
    let x0: Vec<f64> = (0..n).map(|_| val(rng)).collect();
    let mut b = vec![0.0; m];
    for i in 0..m {
        let ax: f64 = (0..n).map(|j| dense[i][j] * x0[j]).sum();
        b[i] = if is_inf[i] { 1e20 * (1.0 + rng.below(3) as f64) } else if allowed[i] { ax + s0[i] } else { 0.0 };
    }
    let q: Vec<f64> = (0..n).map(|j| -(0..m).map(|i| dense[i][j] * z0[i]).sum::<f64>()).collect();
    let (mut ri, mut ci, mut vi) = (vec![], vec![], vec![]);
    for j in 0..n {
        for i in 0..m {
            if dense[i][j] != 0.0 {
                ri.push(i);
                ci.push(j);
                vi.push(dense[i][j]);
            }
        }
    }
    let a = CscMatrix::new_from_triplets(m, n, ri, ci, vi);
    let nzrows: Vec<usize> = (0..m).filter(|&i| b[i] != 0.0 || dense[i].iter().any(|&v| v != 0.0)).collect();
    Problem { n, cones, a, b, q, p: CscMatrix::zeros((n, n)), nzrows }
}

fn info_line(chan: &str, pr: &Problem, pats: &str) -> String {
    format!("{} n={} m={} {} {}", chan, pr.n, pr.a.m, fmt_cones("", &pr.cones), pats)
}

fn generate(s: &mut Session) {
    // ---- structural channels on analysed problems
    let mut probs = vec![];
    let mut lines = vec![];
    for k in 0..s.budget(500, 6000) {
        let pr = planted(&mut s.rng, k % 5 == 0, k % 2 == 0, true);
        let merge = *s.rng.choose(&["none", "parent_child", "clique_graph"]);
        let line = format!("info {} b={} {} merge={}", fmt_csc_p("A", &pr.a), ffs(&pr.b), fmt_cones("", &pr.cones), merge);
        lines.push(line.clone());
        probs.push((pr, line));
    }
    prefetch(&lines, 40);
    let mut acc_in: Vec<(String, String)> = vec![]; // inputs of the accessor / helper channels (generated at the end)
    for (pr, line) in probs {
        let pats = s.submit(line.clone());
        if !pats.starts_with("np=") {
            continue;
        }
        acc_in.push((line, pats.clone()));
        let np: usize = Req::parse(&format!("x {}", pats)).unwrap().u("np");
        s.count(&format!("decomposed-cones:{}", np));
        if np == 0 {
            continue;
        }
        let (n, m) = (pr.n, pr.a.m);
        s.submit(format!("{} nzrows={}", info_line("std.H", &pr, &pats), fus(&pr.nzrows)));
        s.submit(format!("{} {} q={} {} b={}", info_line("std.augment", &pr, &pats), fmt_csc_p("P", &pr.p), ffs(&pr.q), fmt_csc_p("A", &pr.a), ffs(&pr.b)));
        // reversal on synthetic vectors
        let h = s.run_impl(&info_line("std.H", &pr, &pats));
        if let Some(o) = Req::parse(&format!("x {}", h)) {
            if o.has("lenH") {
                let l = o.u("lenH");
                let ints = s.rng.bool(0.5);
                let sv: Vec<f64> = (0..m + l).map(|_| if ints { s.rng.smallint(4) } else { s.rng.normal() }).collect();
                let zv: Vec<f64> = (0..m + l).map(|_| if ints { s.rng.smallint(4) } else { s.rng.normal() }).collect();
                s.submit(format!("{} s={} z={}", info_line("std.reverse", &pr, &pats), ffs(&sv), ffs(&zv)));
            }
        }
        let cline = format!("{} {} b={}", info_line("compact.Ab", &pr, &pats), fmt_csc_p("A", &pr.a), ffs(&pr.b));
        let cout = s.submit(cline);
        {
            // decomp_augment_compact with a non-trivial upper-triangular P
            let n = pr.n;
            let (mut pi, mut pj, mut pv) = (vec![], vec![], vec![]);
            for j in 0..n {
                for i in 0..=j {
                    if s.rng.bool(0.4) {
                        pi.push(i);
                        pj.push(j);
                        pv.push(s.rng.smallint(3));
                    }
                }
            }
            let pm = CscMatrix::new_from_triplets(n, n, pi, pj, pv);
            s.submit(format!("{} {} q={} {} b={}", info_line("compact.augment", &pr, &pats), fmt_csc_p("P", &pm), ffs(&pr.q), fmt_csc_p("A", &pr.a), ffs(&pr.b)));
        }
        if let Some(o) = Req::parse(&format!("x {}", cout)) {
            if o.has("Am") {
                let mnew = o.u("Am");
                let ints = s.rng.bool(0.5);
                let sv: Vec<f64> = (0..mnew).map(|_| if ints { s.rng.smallint(4) } else { s.rng.normal() }).collect();
                let zv: Vec<f64> = (0..mnew).map(|_| if ints { s.rng.smallint(4) } else { s.rng.normal() }).collect();
                s.submit(format!(
                    "{} {} b={} cm_oi={} cm_t={} cm_c={} {} s={} z={}",
                    info_line("compact.reverse", &pr, &pats), fmt_csc_p("A", &pr.a), ffs(&pr.b),
                    o.str("cm_oi"), o.str("cm_t"), o.str("cm_c"),
                    fmt_cones("o", &parse_cones(&o, "")), ffs(&sv), ffs(&zv)
                ));
            }
        }
        let _ = n;
    }

    // ---- psd_complete on a single sparse PSD cone
    let mut plines = vec![];
    let mut pdata = vec![];
    for _ in 0..s.budget(200, 3000) {
        let d = 3 + s.rng.below(8);
        let e = psd_pattern(&mut s.rng, d);
        let m = d * (d + 1) / 2;
        let rows: Vec<usize> = e.iter().map(|&(i, j)| tri(i, j)).collect();
        let a = CscMatrix::new_from_triplets(m, 1, rows.clone(), vec![0; rows.len()], vec![1.0; rows.len()]);
        let cones = vec![SupportedConeT::PSDTriangleConeT(d)];
        let merge = *s.rng.choose(&["none", "parent_child", "clique_graph"]);
        let line = format!("info {} b={} {} merge={}", fmt_csc_p("A", &a), ffs(&vec![0.0; m]), fmt_cones("", &cones), merge);
        plines.push(line.clone());
        pdata.push((d, line));
    }
    prefetch(&plines, 40);
    let mut written_in: Vec<(usize, String)> = vec![]; // inputs of psd_complete.written (generated at the end)
    for (d, line) in pdata {
        let pats = s.submit(line);
        if !pats.starts_with("np=1") {
            continue;
        }
        written_in.push((d, pats.clone()));
        // a positive definite matrix (random factor), possibly nearly singular
        let rank = if s.rng.bool(0.2) { 1 + s.rng.below(d) } else { d + 2 };
        let f: Vec<Vec<f64>> = (0..d).map(|_| (0..rank).map(|_| s.rng.normal()).collect()).collect();
        let eps = if s.rng.bool(0.3) { 0.0 } else { 0.1 };
        let mut w = vec![0.0; d * d];
        for i in 0..d {
            for j in 0..d {
                w[j * d + i] = (0..rank).map(|k| f[i][k] * f[j][k]).sum::<f64>() + if i == j { eps } else { 0.0 };
            }
        }
        s.count(if rank < d && eps == 0.0 { "psd_complete:singular" } else { "psd_complete:definite" });
        s.submit(format!("psd_complete n=1 m={} {} {} d={} W={}", d * (d + 1) / 2, fmt_cones("", &[SupportedConeT::PSDTriangleConeT(d)]), pats, d, ffs(&w)));
    }

    // ---- end to end: decomposition on (12 variants) vs off
    let mut elines = vec![];
    for k in 0..s.budget(90, 1500) {
        let inf = k % 3 == 0;
        let presolve = inf || s.rng.bool(0.5);
        let pr = planted(&mut s.rng, inf, k % 4 != 1, false);
        s.count(if inf { "e2e:inf-bound-before-psd" } else if presolve { "e2e:presolve-on" } else { "e2e:presolve-off" });
        elines.push(format!("e2e {} q={} {} b={} {} presolve={}", fmt_csc_p("P", &pr.p), ffs(&pr.q), fmt_csc_p("A", &pr.a), ffs(&pr.b), fmt_cones("", &pr.cones), presolve as usize));
    }
    prefetch(&elines, 6);
    for l in elines {
        let out = s.submit(l);
        if let Some(o) = Req::parse(&format!("x {}", out)) {
            if o.has("v0_dec") {
                let active = (1..=VARIANTS.len()).filter(|v| o.u(&format!("v{}_dec", v)) > o.u("v0_dec")).count();
                s.count(&format!("e2e:variants-with-active-decomposition:{}", if active == 0 { "0" } else if active < 12 { "some" } else { "12" }));
                s.count(&format!("e2e:baseline-status:{}", o.u("v0_st")));
            }
        }
    }

    // ---- psd_complete.written (last, so that the cases above do not depend on it)
    generate_psd_written(s, written_in);

    // ---- accessors and helpers (after everything else, for the same reason)
    generate_accessors(s, acc_in);
}

/// the table of `find_graph` results for the masks that `find_sparsity_patterns` hands to it
fn graph_table(a: &CscMatrix<f64>, b: &[f64], cones: &[Cone]) -> String {
    let mask = hk::find_aggregate_sparsity_mask(a, b);
    let mut out = vec![];
    let mut off = 0;
    for c in cones {
        let l = nvars(c);
        if let (4, d) = cone_kind(c) {
            let mut mk = mask[off..off + l].to_vec();
            for i in 0..d {
                mk[tri(i, i)] = true;
            }
            if !mk.iter().all(|&x| x) {
                let (lm, ord) = hk::find_graph(&mk);
                let k = out.len();
                out.push(format!(
                    "g{k}_mask={} g{k}_n={} g{k}_colptr={} g{k}_rowval={} g{k}_ord={}",
                    vharness::proto::fbs(&mk), lm.n, fus(&lm.colptr), fus(&lm.rowval), fus(&ord)
                ));
            }
        }
        off += l;
    }
    format!("ng={} {}", out.len(), out.join(" "))
}

fn generate_accessors(s: &mut Session, inputs: Vec<(String, String)>) {
    let n_new = s.budget(80, 1500);
    let mut new_lines = vec![];
    for (k, (line, _)) in inputs.iter().enumerate() {
        if k >= n_new {
            break;
        }
        let r = Req::parse(line).unwrap();
        let (a, b, cones) = (r.csc("A"), r.fs("b"), parse_cones(&r, ""));
        new_lines.push(format!("info.new {} b={} {} merge={} {}", fmt_csc_p("A", &a), ffs(&b), fmt_cones("", &cones), r.str("merge"), graph_table(&a, &b, &cones)));
    }
    prefetch(&new_lines, 40);
    for l in new_lines {
        let out = s.submit(l);
        if out.starts_with("dec=") {
            s.count(if out.starts_with("dec=1") { "info.new:decomposed" } else { "info.new:not-decomposed" });
        }
    }
    for (k, (line, pats)) in inputs.into_iter().enumerate() {
        let r = Req::parse(&line).unwrap();
        let (a, b, cones) = (r.csc("A"), r.fs("b"), parse_cones(&r, ""));
        let (n, m) = (a.n, a.m);
        let head = format!("n={} m={} {} {}", n, m, fmt_cones("", &cones), pats);
        s.submit(format!("info.counts {}", head));
        let pr = Req::parse(&format!("x {}", pats)).unwrap();
        let pp = parse_patterns(&pr);
        if !pp.is_empty() && s.rng.bool(0.1) {
            // damaged: a pattern without block dimensions (largest_nblk unwraps them)
            let i = s.rng.below(pp.len());
            s.count("info.counts:damaged:nblk-none");
            s.submit(format!("info.counts {} p{}_nonblk=1 damaged=1", head, i));
        }
        if !pp.is_empty() {
            let t = &pp[0].0;
            let i = if s.rng.bool(0.1) { t.snode.len() + s.rng.below(2) } else { s.rng.below(t.snode.len()) };
            s.submit(format!("helper.clique {} i={}", head, i));
        }
        if k % 4 == 0 {
            let mut bb = b.clone();
            if s.rng.bool(0.3) && !bb.is_empty() {
                let i = s.rng.below(bb.len());
                bb[i] = *s.rng.choose(&[-0.0, f64::NAN, 0.0, 1e-320]);
            }
            let mut aa = a.clone();
            if s.rng.bool(0.2) && !aa.nzval.is_empty() {
                // an explicitly stored zero still marks its row
                let i = s.rng.below(aa.nzval.len());
                aa.nzval[i] = 0.0;
            }
            if s.rng.bool(0.04) && !aa.rowval.is_empty() {
                let i = s.rng.below(aa.rowval.len());
                aa.rowval[i] = bb.len() + s.rng.below(2);
                s.count("mask:row-outside-b");
            }
            s.submit(format!("mask {} b={}", fmt_csc_p("A", &aa), ffs(&bb)));
        }
        // get_rows_mat / get_rows_vec : a cone's row range or an arbitrary one
        if k % 3 == 0 {
            let col = s.rng.below(n);
            let (rs, re) = if s.rng.bool(0.7) {
                let c = s.rng.below(cones.len());
                let st: usize = cones[..c].iter().map(nvars).sum();
                (st, st + nvars(&cones[c]))
            } else {
                let x = s.rng.below(m + 2);
                let y = s.rng.below(m + 2);
                if s.rng.bool(0.8) { (x.min(y), x.max(y)) } else { (x, y) }
            };
            s.submit(format!("helper.rows {} b={} col={} rs={} re={}", fmt_csc_p("A", &a), ffs(&b), col, rs, re));
        }
    }
    for _ in 0..s.budget(150, 2000) {
        let ns = s.rng.below(7);
        let total = if s.rng.bool(0.8) { ns + 2 * s.rng.below(5) } else { s.rng.below(12) };
        s.submit(format!("helper.altseq total={} nstart={}", total, ns));
        let sv = s.rng.below(9);
        s.submit(format!("helper.extracols total={} nstart={} startval={}", total, ns, sv));
    }
    for _ in 0..s.budget(100, 1500) {
        // decompose_with_cone
        let hi: Vec<usize> = (0..s.rng.below(5)).map(|_| s.rng.below(20)).collect();
        let mut cs: Vec<Cone> = vec![];
        for _ in 0..s.rng.below(3) {
            let kd = *s.rng.choose(&[0usize, 1, 2, 4]);
            cs.push(cone_of(kd, 1 + s.rng.below(3)));
        }
        let kd = *s.rng.choose(&[0usize, 1, 2, 3, 4]);
        let cone = cone_of(kd, s.rng.below(4));
        let row = s.rng.below(30);
        s.submit(format!("helper.dcone HI={} {} {} row={}", fus(&hi), fmt_cones("", &cs), fmt_cones("x", &[cone]), row));
        // add_blocks_with_cone
        let kd = *s.rng.choose(&[0usize, 1, 2, 3, 4]);
        let cone = cone_of(kd, 1 + s.rng.below(3));
        let l = nvars(&cone);
        let m = l + s.rng.below(6);
        let mo = l + s.rng.below(6);
        let rs = s.rng.below(m - l + 1);
        let rp = s.rng.below(mo - l + 1);
        let (rs, re, rp) = match s.rng.below(10) {
            0 => (rs, rs + l + 1, rp),
            1 => (rs, (rs + l).saturating_sub(1), rp),
            2 => (rs, rs + l, mo - l + 1),
            3 => (m - l + 1, m + 1, rp),
            _ => (rs, rs + l, rp),
        };
        let v = |s: &mut Session, k: usize| -> Vec<f64> { (0..k).map(|_| s.rng.smallint(9)).collect() };
        let (ns, os, nz, oz) = (v(s, m), v(s, mo), v(s, m), v(s, mo));
        s.submit(format!("helper.addcone ns={} os={} nz={} oz={} rs={} re={} {} rp={}", ffs(&ns), ffs(&os), ffs(&nz), ffs(&oz), rs, re, fmt_cones("x", &[cone]), rp));
        // number_of_overlaps_in_rows : an `H`-like 0/1 matrix or general values
        let rows = 1 + s.rng.below(6);
        let cols = s.rng.below(8);
        let hlike = s.rng.bool(0.6);
        let (mut ri, mut cj, mut vv) = (vec![], vec![], vec![]);
        for j in 0..cols {
            for i in 0..rows {
                if if hlike { i == s.rng.below(rows) } else { s.rng.bool(0.4) } {
                    ri.push(i);
                    cj.push(j);
                    vv.push(if hlike { 1.0 } else { *s.rng.choose(&[1.0, 0.5, -1.0, 2.0, 0.25]) });
                }
            }
        }
        let hm = CscMatrix::new_from_triplets(rows, cols, ri, cj, vv);
        s.submit(format!("helper.noverlaps {}", fmt_csc_p("A", &hm)));
    }
}

/// inputs of `psd_complete.written`: the patterns of the `psd_complete` cases (all three merge
/// strategies) with a matrix that is random inside the clique pattern (positive definite, or
/// of low rank so that the Cholesky factorisation of a block fails and the pinv path runs) and
/// one recognisable value outside; plus a few damaged patterns for the panic sites.
fn generate_psd_written(s: &mut Session, inputs: Vec<(usize, String)>) {
    for (d, pats) in inputs {
        let cones = [SupportedConeT::PSDTriangleConeT(d)];
        let head = format!("psd_complete.written n=1 m={} {}", d * (d + 1) / 2, fmt_cones("", &cones));
        let pr = match Req::parse(&format!("x {}", pats)) {
            Some(p) => p,
            None => continue,
        };
        let pp = parse_patterns(&pr);
        let mut inpat = vec![false; d * d];
        if let Block::Cliques(_, cl, _, _) = &blocks_of(&cones, &pp)[0] {
            for c in cl {
                for &i in c {
                    for &j in c {
                        inpat[j * d + i] = true;
                    }
                }
            }
        } else {
            continue;
        }
        let singular = s.rng.bool(0.25);
        let rank = if singular { 1 + s.rng.below(2) } else { d + 2 };
        let f: Vec<Vec<f64>> = (0..d).map(|_| (0..rank).map(|_| s.rng.normal()).collect()).collect();
        let eps = if singular { 0.0 } else { 0.1 };
        // never the value of a computed entry: an exact zero can be computed (empty separator)
        let sentinel = 1000.0 + 1000.0 * s.rng.unit();
        let mut w = vec![0.0; d * d];
        for i in 0..d {
            for j in 0..d {
                w[j * d + i] = if inpat[j * d + i] {
                    (0..rank).map(|k| f[i][k] * f[j][k]).sum::<f64>() + if i == j { eps } else { 0.0 }
                } else {
                    sentinel
                };
            }
        }
        s.count(if singular { "psd_complete.written:low-rank" } else { "psd_complete.written:definite" });
        {
            // a clique other than the root with an empty separator would send 0 x 0 blocks to LAPACK
            let t = &pp[0].0;
            let root = t.snode_post.get(t.n_cliques.wrapping_sub(1)).copied();
            if (0..t.separators.len()).any(|c| Some(c) != root && t.snode_post.contains(&c) && t.separators[c].is_empty()) {
                s.count("psd_complete.written:empty-separator-below-root");
            }
        }
        if inpat.iter().all(|&b| b) {
            s.count("psd_complete.written:nothing-to-complete");
        }
        s.submit(format!("{} {} d={} W={} valid=1", head, pats, d, ffs(&w)));
        // the data-level model, with the results of the external LAPACK/BLAS step taken from the
        // implementation's own output: placement, permutations and the symmetric write must agree
        let tail = format!("n=1 m={} {} {} d={} W={}", d * (d + 1) / 2, fmt_cones("", &cones), pats, d, ffs(&w));
        let out = s.run_impl(&format!("psd_complete {}", tail));
        if let Some(wout) = out.strip_prefix("W=") {
            s.submit(format!("psd_complete.data {} Wout={}", tail, wout));
        }

        // damaged patterns: the panic sites of psd_complete
        if s.rng.bool(0.15) {
            let (t, ord, oi) = pp[0].clone();
            let mut t = t;
            let mut ord = ord;
            let kind = s.rng.below(5);
            match kind {
                0 => t.n_cliques = 0,
                1 => {
                    let c = s.rng.below(t.snode.len());
                    t.snode[c].clear();
                }
                2 => {
                    let c = s.rng.below(t.snode.len());
                    if !t.snode[c].is_empty() {
                        let k = s.rng.below(t.snode[c].len());
                        t.snode[c][k] = d + s.rng.below(3);
                    }
                }
                3 => {
                    let k = s.rng.below(t.snode_post.len());
                    t.snode_post[k] = t.snode.len() + s.rng.below(2);
                }
                _ => {
                    let k = s.rng.below(ord.len());
                    ord[k] = d + s.rng.below(2);
                }
            }
            s.count(&format!("psd_complete.written:damaged:{}", kind));
            s.submit(format!("{} {} d={} W={} valid=0", head, fmt_patterns(&[(t, ord, oi)]), d, ffs(&w)));
        }
    }
}

fn main() {
    Session::from_args("C18", channels()).run(generate)
}
