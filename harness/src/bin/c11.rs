//! C11 — the assembled KKT system is the intended matrix, for every cone layout.
//!
//! channels
//!   kkt.assemble   `assemble_kkt_matrix` + `_fill_signs`      (model: Kkt.assembleKktMatrix / fillSigns)
//!   kkt.update     `DirectLDLKKTSolver::{new,update}`          (model: Kkt.updateValues / regularizeAndRestore)
//!   kkt.get_hs     `Cone::get_Hs` of nn / soc / genpow cones   (model: Kkt.getHs)
//!   kkt.passes     2-4 calls of `update` on one solver object   (model: Kkt.runPasses / updatePass)
//!   blk.*          the `colcount_*` / `fill_*` utilities of algebra/csc/utils.rs individually
//!   kkt.live       a full `DefaultSolver::solve()`; state of the KKT solver afterwards (oracle only)
#![allow(non_snake_case)]
use clarabel::algebra::*;
use clarabel::qdldl::*;
use clarabel::solver::*;
use clarabel::verif_hooks::c11 as hk;
use clarabel::verif_hooks::c11::{KktView, PlainMap, PlainSparseMap};
use clarabel::verif_hooks::cones::{
    verif_hooks_genpowcone, verif_hooks_nncone, CompositeCone, Cone, SupportedCone,
};
use clarabel::verif_hooks::kktsolvers::direct::DirectLDLKKTSolver;
use clarabel::verif_hooks::kktsolvers::KKTSolver;
use clarabel::verif_hooks::step::ScalingStrategy;
use std::collections::{BTreeMap, BTreeSet};
use vharness::gen::{self, Vals};
use vharness::proto::fmt_csc;
use vharness::*;

// ------------------------------------------------------------------ cone lists on the wire

fn genpow_alpha(dim1: usize) -> Vec<f64> {
    // dyadic powers summing to exactly 1
    let mut a = vec![];
    let mut rest = 1.0;
    for i in 0..dim1 {
        if i + 1 == dim1 {
            a.push(rest);
        } else {
            rest *= 0.5;
            a.push(rest);
        }
    }
    a
}

fn parse_cones(s: &str) -> Vec<SupportedConeT<f64>> {
    if s.is_empty() {
        return vec![];
    }
    s.split(',')
        .map(|t| {
            let (k, r) = t.split_at(1);
            match k {
                "z" => ZeroConeT(r.parse().unwrap()),
                "n" => NonnegativeConeT(r.parse().unwrap()),
                "s" => SecondOrderConeT(r.parse().unwrap()),
                "e" => ExponentialConeT(),
                "w" => PowerConeT(0.375),
                "t" => PSDTriangleConeT(r.parse().unwrap()),
                "g" => {
                    let (a, b) = r.split_once(':').unwrap();
                    GenPowerConeT(genpow_alpha(a.parse().unwrap()), b.parse().unwrap())
                }
                _ => panic!("cone token {}", t),
            }
        })
        .collect()
}

#[derive(Clone, Debug, PartialEq)]
enum CS {
    Zero(usize),
    NN(usize),
    Soc(usize),
    Exp,
    Pow,
    GenPow(usize, usize),
    Psd(usize),
}
const SOC_NO_EXPANSION_MAX_SIZE: usize = 4;
impl CS {
    fn numel(&self) -> usize {
        match self {
            CS::Zero(d) | CS::NN(d) | CS::Soc(d) => *d,
            CS::Exp | CS::Pow => 3,
            CS::GenPow(a, b) => a + b,
            CS::Psd(n) => n * (n + 1) / 2,
        }
    }
    fn sparse(&self) -> bool {
        matches!(self, CS::GenPow(..)) || matches!(self, CS::Soc(d) if *d > SOC_NO_EXPANSION_MAX_SIZE)
    }
    fn diag(&self) -> bool {
        matches!(self, CS::Zero(_) | CS::NN(_)) || self.sparse()
    }
    fn pdim(&self) -> usize {
        match self {
            CS::GenPow(..) => 3,
            CS::Soc(_) if self.sparse() => 2,
            _ => 0,
        }
    }
    fn tok(&self) -> String {
        match self {
            CS::Zero(d) => format!("z{}", d),
            CS::NN(d) => format!("n{}", d),
            CS::Soc(d) => format!("s{}", d),
            CS::Exp => "e".into(),
            CS::Pow => "w".into(),
            CS::GenPow(a, b) => format!("g{}:{}", a, b),
            CS::Psd(n) => format!("t{}", n),
        }
    }
}
fn parse_cs(s: &str) -> Vec<CS> {
    if s.is_empty() {
        return vec![];
    }
    s.split(',')
        .map(|t| {
            let (k, r) = t.split_at(1);
            match k {
                "z" => CS::Zero(r.parse().unwrap()),
                "n" => CS::NN(r.parse().unwrap()),
                "s" => CS::Soc(r.parse().unwrap()),
                "e" => CS::Exp,
                "w" => CS::Pow,
                "t" => CS::Psd(r.parse().unwrap()),
                "g" => {
                    let (a, b) = r.split_once(':').unwrap();
                    CS::GenPow(a.parse().unwrap(), b.parse().unwrap())
                }
                _ => panic!("cone token {}", t),
            }
        })
        .collect()
}
fn fmt_cs(c: &[CS]) -> String {
    c.iter().map(|x| x.tok()).collect::<Vec<_>>().join(",")
}

fn line_map(mut l: Line, map: &PlainMap) -> Line {
    l = l.us("mapP", &map.P).us("mapA", &map.A).us("Hs", &map.Hsblocks).u("nsp", map.sparse_maps.len());
    for (i, sm) in map.sparse_maps.iter().enumerate() {
        match sm {
            PlainSparseMap::SOC { u, v, D } => {
                l = l.us(&format!("s{}u", i), u).us(&format!("s{}v", i), v).us(&format!("s{}D", i), D);
            }
            PlainSparseMap::GenPow { p, q, r, D } => {
                l = l
                    .us(&format!("s{}p", i), p)
                    .us(&format!("s{}q", i), q)
                    .us(&format!("s{}r", i), r)
                    .us(&format!("s{}D", i), D);
            }
        }
    }
    l.us("diagP", &map.diagP).us("diagfull", &map.diag_full)
}

// ------------------------------------------------------------------ kkt.assemble

fn run_assemble(r: &Req) -> String {
    let P = r.csc("P");
    let A = r.csc("A");
    let cones = CompositeCone::<f64>::new(&parse_cones(r.str("cones")));
    let (K, map, dsigns) = hk::assemble(&P, &A, &cones, hk::triangle(r.str("shape") == "triu"));
    line_map(Line::out().csc("", &K), &map).is("dsigns", &dsigns).done()
}

/// column of every stored entry
fn entry_cols(K: &CscMatrix<f64>) -> Vec<usize> {
    let mut c = vec![0; K.nzval.len()];
    for j in 0..K.n {
        for k in K.colptr[j]..K.colptr[j + 1] {
            c[k] = j;
        }
    }
    c
}

struct Expected {
    N: usize,
    /// (row, col) -> (value, label)
    cells: BTreeMap<(usize, usize), (f64, String)>,
    mapP: Vec<(usize, usize)>,
    mapA: Vec<(usize, usize)>,
    mapHs: Vec<(usize, usize)>,
    /// per sparse cone: named vectors of coordinates
    sparse: Vec<Vec<(&'static str, Vec<(usize, usize)>)>>,
    dsigns: Vec<i8>,
    nnz_closed_form: usize,
}

/// The intended matrix, written down independently of the implementation:
/// `[P A'; A -H]` (one triangle) with a complete diagonal, `H` diagonal or dense per cone,
/// and the expansion rows/columns.
fn expected_layout(P: &CscMatrix<f64>, A: &CscMatrix<f64>, cones: &[CS], triu: bool) -> Expected {
    let (m, n) = (A.m, A.n);
    let p: usize = cones.iter().map(|c| c.pdim()).sum();
    let N = n + m + p;
    let at = |r: usize, c: usize| -> (usize, usize) {
        // (r,c) is a coordinate of the upper triangle; mirrored for tril
        if triu { (r, c) } else { (c, r) }
    };
    let mut cells: BTreeMap<(usize, usize), (f64, String)> = BTreeMap::new();
    let mut put = |rc: (usize, usize), v: f64, lab: &str| {
        if let Some(old) = cells.insert(rc, (v, lab.to_string())) {
            panic!("oracle layout: cell {:?} claimed twice ({} and {})", rc, old.1, lab);
        }
    };
    let mut mapP = vec![];
    let mut has_diag = vec![false; n];
    for j in 0..n {
        for k in P.colptr[j]..P.colptr[j + 1] {
            let i = P.rowval[k];
            if i == j {
                has_diag[j] = true;
            }
            put(at(i, j), P.nzval[k], "P");
            mapP.push(at(i, j));
        }
    }
    for j in 0..n {
        if !has_diag[j] {
            put((j, j), 0.0, "diagfill");
        }
    }
    let mut mapA = vec![];
    for j in 0..n {
        for k in A.colptr[j]..A.colptr[j + 1] {
            let i = A.rowval[k];
            // A(i,j) sits at (n+i, j) of the full matrix = (j, n+i) of the upper triangle
            put(at(j, n + i), A.nzval[k], "A");
            mapA.push(at(j, n + i));
        }
    }
    let mut mapHs = vec![];
    let mut sparse = vec![];
    let mut dsigns = vec![1i8; n];
    dsigns.extend(vec![-1i8; m]);
    let mut row = n;
    let mut pcol = n + m;
    let mut nnz_hs = 0;
    let mut nnz_vec = 0;
    for c in cones {
        let d = c.numel();
        if c.diag() {
            for k in 0..d {
                put((row + k, row + k), 0.0, "Hs");
                mapHs.push((row + k, row + k));
            }
            nnz_hs += d;
        } else {
            // packed upper triangle, column by column
            for cc in 0..d {
                for rr in 0..=cc {
                    put(at(row + rr, row + cc), 0.0, "Hs");
                    mapHs.push(at(row + rr, row + cc));
                }
            }
            nnz_hs += d * (d + 1) / 2;
        }
        match c {
            CS::Soc(_) if c.sparse() => {
                // v is the first extra column, u the second
                let v: Vec<_> = (0..d).map(|k| at(row + k, pcol)).collect();
                let u: Vec<_> = (0..d).map(|k| at(row + k, pcol + 1)).collect();
                let D: Vec<_> = (0..2).map(|k| (pcol + k, pcol + k)).collect();
                for x in &v { put(*x, 0.0, "soc.v"); }
                for x in &u { put(*x, 0.0, "soc.u"); }
                for x in &D { put(*x, 0.0, "soc.D"); }
                sparse.push(vec![("u", u), ("v", v), ("D", D)]);
                dsigns.extend([-1i8, 1]);
                nnz_vec += 2 * d;
                pcol += 2;
            }
            CS::GenPow(d1, d2) => {
                let q: Vec<_> = (0..*d1).map(|k| at(row + k, pcol)).collect();
                let r: Vec<_> = (0..*d2).map(|k| at(row + d1 + k, pcol + 1)).collect();
                let pp: Vec<_> = (0..d).map(|k| at(row + k, pcol + 2)).collect();
                let D: Vec<_> = (0..3).map(|k| (pcol + k, pcol + k)).collect();
                for x in &q { put(*x, 0.0, "gp.q"); }
                for x in &r { put(*x, 0.0, "gp.r"); }
                for x in &pp { put(*x, 0.0, "gp.p"); }
                for x in &D { put(*x, 0.0, "gp.D"); }
                sparse.push(vec![("p", pp), ("q", q), ("r", r), ("D", D)]);
                dsigns.extend([-1i8, -1, 1]);
                nnz_vec += 2 * d;
                pcol += 3;
            }
            _ => {}
        }
        row += d;
    }
    let nnz_diagP = has_diag.iter().filter(|&&b| b).count();
    let nnz_closed_form = P.nnz() + n - nnz_diagP + A.nnz() + nnz_hs + nnz_vec + p;
    Expected { N, cells, mapP, mapA, mapHs, sparse, dsigns, nnz_closed_form }
}

fn well_formed_assembly_input(P: &CscMatrix<f64>, A: &CscMatrix<f64>, cones: &[CS]) -> bool {
    P.check_format().is_ok()
        && A.check_format().is_ok()
        && P.colptr.first() == Some(&0)
        && A.colptr.first() == Some(&0)
        && P.m == P.n
        && P.is_triu()
        && P.n == A.n
        && cones.iter().map(|c| c.numel()).sum::<usize>() == A.m
        && cones.iter().all(|c| !matches!(c, CS::Soc(d) if *d < 2))
}

struct ParsedAsm {
    K: CscMatrix<f64>,
    maps: BTreeMap<String, Vec<usize>>,
    nsp: usize,
    dsigns: Vec<i64>,
}
fn parse_asm(out: &str) -> Result<ParsedAsm, String> {
    let r = Req::parse(&format!("x {}", out)).ok_or("unparsable response")?;
    if !r.has("colptr") {
        return Err(format!("no matrix returned: {}", out.chars().take(100).collect::<String>()));
    }
    let mut maps = BTreeMap::new();
    for (k, _) in r.kv.iter() {
        if ["m", "n", "colptr", "rowval", "nzval", "nsp", "dsigns"].contains(&k.as_str()) {
            continue;
        }
        maps.insert(k.clone(), r.us(k));
    }
    Ok(ParsedAsm { K: r.csc(""), maps, nsp: r.u("nsp"), dsigns: r.is("dsigns") })
}

fn check_assembly(
    P: &CscMatrix<f64>, A: &CscMatrix<f64>, cones: &[CS], triu: bool, asm: &ParsedAsm,
) -> Result<(), String> {
    let K = &asm.K;
    let ex = expected_layout(P, A, cones, triu);
    if K.m != ex.N || K.n != ex.N {
        return Err(format!("K is {}x{}, expected order {}", K.m, K.n, ex.N));
    }
    K.check_format().map_err(|e| format!("K is not a canonical CSC matrix: {:?}", e))?;
    if K.colptr[0] != 0 {
        return Err("K.colptr[0] != 0".into());
    }
    if K.nnz() != ex.nnz_closed_form || K.nnz() != ex.cells.len() {
        return Err(format!("nnz(K)={} closed form {} intended entries {}", K.nnz(), ex.nnz_closed_form, ex.cells.len()));
    }
    let cols = entry_cols(K);
    let coord = |k: usize| (K.rowval[k], cols[k]);
    // dense (triangle) meaning, entry by entry
    for k in 0..K.nnz() {
        let rc = coord(k);
        if triu && rc.0 > rc.1 || !triu && rc.0 < rc.1 {
            return Err(format!("entry {:?} is in the wrong triangle", rc));
        }
        match ex.cells.get(&rc) {
            None => return Err(format!("K has an entry at {:?} that the intended matrix does not have", rc)),
            Some((v, lab)) => {
                if v.to_bits() != K.nzval[k].to_bits() && !(*v == 0.0 && K.nzval[k] == 0.0) {
                    return Err(format!("K{:?} = {} but the intended {} value is {}", rc, K.nzval[k], lab, v));
                }
            }
        }
    }
    // complete diagonal + diag_full / diagP
    let pos: BTreeMap<(usize, usize), usize> = (0..K.nnz()).map(|k| (coord(k), k)).collect();
    let dfull = asm.maps.get("diagfull").ok_or("no diagfull")?;
    let dP = asm.maps.get("diagP").ok_or("no diagP")?;
    if dfull.len() != ex.N || dP.len() != A.n {
        return Err("diag_full / diagP length".into());
    }
    for j in 0..ex.N {
        match pos.get(&(j, j)) {
            None => return Err(format!("diagonal entry ({},{}) is missing", j, j)),
            Some(&k) => {
                if dfull[j] != k {
                    return Err(format!("diag_full[{}]={} but ({},{}) is stored at {}", j, dfull[j], j, j, k));
                }
                if j < A.n && dP[j] != k {
                    return Err(format!("diagP[{}]={} but ({},{}) is stored at {}", j, dP[j], j, j, k));
                }
            }
        }
    }
    // every map points at the right coordinate; maps are pairwise disjoint; they cover
    // everything except the filled-in diagonal zeros
    let mut owner: BTreeMap<usize, String> = BTreeMap::new();
    let mut check_map = |name: &str, idx: &Vec<usize>, want: &Vec<(usize, usize)>| -> Result<(), String> {
        if idx.len() != want.len() {
            return Err(format!("map {} has {} entries, expected {}", name, idx.len(), want.len()));
        }
        for (k, (&i, &rc)) in idx.iter().zip(want.iter()).enumerate() {
            if i >= K.nnz() {
                return Err(format!("map {}[{}]={} out of range", name, k, i));
            }
            if coord(i) != rc {
                return Err(format!("map {}[{}]={} is the entry {:?}, expected {:?}", name, k, i, coord(i), rc));
            }
            if let Some(o) = owner.insert(i, name.to_string()) {
                return Err(format!("maps {} and {} both contain index {}", o, name, i));
            }
        }
        Ok(())
    };
    check_map("mapP", asm.maps.get("mapP").ok_or("no mapP")?, &ex.mapP)?;
    check_map("mapA", asm.maps.get("mapA").ok_or("no mapA")?, &ex.mapA)?;
    check_map("Hs", asm.maps.get("Hs").ok_or("no Hs")?, &ex.mapHs)?;
    if asm.nsp != ex.sparse.len() {
        return Err(format!("{} sparse maps, expected {}", asm.nsp, ex.sparse.len()));
    }
    for (i, sm) in ex.sparse.iter().enumerate() {
        for (nm, want) in sm {
            let key = format!("s{}{}", i, nm);
            check_map(&key, asm.maps.get(&key).ok_or(format!("no {}", key))?, want)?;
        }
    }
    for (k, _) in (0..K.nnz()).map(|k| (k, ())) {
        if !owner.contains_key(&k) {
            let rc = coord(k);
            if rc.0 != rc.1 || rc.0 >= A.n {
                return Err(format!("entry {} at {:?} is in no map", k, rc));
            }
        }
    }
    // P values really are where map.P says (values are checked above through `cells`)
    for (k, &i) in asm.maps["mapP"].iter().enumerate() {
        if K.nzval[i].to_bits() != P.nzval[k].to_bits() {
            return Err(format!("K.nzval[map.P[{}]] != P.nzval[{}]", k, k));
        }
    }
    for (k, &i) in asm.maps["mapA"].iter().enumerate() {
        if K.nzval[i].to_bits() != A.nzval[k].to_bits() {
            return Err(format!("K.nzval[map.A[{}]] != A.nzval[{}]", k, k));
        }
    }
    let ds: Vec<i64> = ex.dsigns.iter().map(|&x| x as i64).collect();
    if asm.dsigns != ds {
        return Err(format!("dsigns {:?} expected {:?}", asm.dsigns, ds));
    }
    Ok(())
}

fn oracle_assemble(r: &Req, out: &str) -> Result<(), String> {
    let P = r.csc("P");
    let A = r.csc("A");
    let cones = parse_cs(r.str("cones"));
    if !well_formed_assembly_input(&P, &A, &cones) {
        return Ok(());
    }
    if out.starts_with("panic") {
        return Err(format!("assemble_kkt_matrix panicked on a well-formed input: {}", out));
    }
    let asm = parse_asm(out)?;
    check_assembly(&P, &A, &cones, r.str("shape") == "triu", &asm)
}

// ------------------------------------------------------------------ kkt.update

fn scaling_tokens(mut l: Line, cones: &CompositeCone<f64>) -> Line {
    l = l.u("nc", cones.len());
    for (i, c) in cones.iter().enumerate() {
        let k = |s: &str| format!("c{}{}", i, s);
        match c {
            SupportedCone::ZeroCone(z) => {
                l = l.s(&k(""), "zero").u(&k("dim"), z.numel());
            }
            SupportedCone::NonnegativeCone(nn) => {
                l = l.s(&k(""), "nn").fs(&k("w"), verif_hooks_nncone::w(nn));
            }
            SupportedCone::SecondOrderCone(sc) => match &sc.sparse_data {
                None => {
                    l = l.s(&k(""), "socd").fs(&k("w"), &sc.w).f(&k("eta"), sc.η);
                }
                Some(sd) => {
                    l = l
                        .s(&k(""), "socs")
                        .u(&k("dim"), sc.dim)
                        .f(&k("eta"), sc.η)
                        .fs(&k("u"), &sd.u)
                        .fs(&k("v"), &sd.v)
                        .f(&k("d"), sd.d);
                }
            },
            SupportedCone::GenPowerCone(gp) => {
                l = l
                    .s(&k(""), "genpow")
                    .f(&k("mu"), gp.data.μ)
                    .fs(&k("p"), &gp.data.p)
                    .fs(&k("q"), &gp.data.q)
                    .fs(&k("r"), &gp.data.r)
                    .fs(&k("d1"), &gp.data.d1)
                    .f(&k("d2"), verif_hooks_genpowcone::d2(gp));
            }
            other => {
                let d = other.numel();
                let mut H = vec![0.0; d * (d + 1) / 2];
                other.get_Hs(&mut H);
                l = l.s(&k(""), "dense").fs(&k("H"), &H);
            }
        }
    }
    l
}

fn strategy(s: &str) -> ScalingStrategy {
    if s == "dual" { ScalingStrategy::Dual } else { ScalingStrategy::PrimalDual }
}

struct Live {
    cones: CompositeCone<f64>,
    kkt: DirectLDLKKTSolver<f64>,
    scaling_ok: bool,
    update_ok: bool,
    settings: DefaultSettings<f64>,
}

fn hist_of(r: &Req) -> String {
    if r.has("hist") { r.str("hist").to_string() } else { "fresh".to_string() }
}

/// The scaling history of a request, applied to `cones` (and, when given, to the KKT
/// solver: every intermediate scaling is also written into the KKT matrix, so that stale
/// *matrix* entries are exercised as well as stale *cone* state).
///   fresh       update_scaling(s,z)
///   twice       update_scaling(s0,z0) ; [kkt.update] ; update_scaling(s,z)
///   ident       update_scaling(s,z) ; [kkt.update] ; set_identity_scaling
///   freshident  set_identity_scaling
fn apply_history(
    r: &Req, hist: &str, cones: &mut CompositeCone<f64>,
    mut kkt: Option<(&mut DirectLDLKKTSolver<f64>, &DefaultSettings<f64>)>,
) -> bool {
    let strat = strategy(r.str("strategy"));
    match hist {
        "fresh" => cones.update_scaling(&r.fs("s"), &r.fs("z"), r.f("mu"), strat),
        "twice" => {
            if !cones.update_scaling(&r.fs("s0"), &r.fs("z0"), r.f("mu0"), strat) {
                return false;
            }
            if let Some((k, st)) = kkt.as_mut() {
                k.update(cones, st);
            }
            cones.update_scaling(&r.fs("s"), &r.fs("z"), r.f("mu"), strat)
        }
        "ident" => {
            if !cones.update_scaling(&r.fs("s"), &r.fs("z"), r.f("mu"), strat) {
                return false;
            }
            if let Some((k, st)) = kkt.as_mut() {
                k.update(cones, st);
            }
            cones.set_identity_scaling();
            true
        }
        "freshident" => {
            cones.set_identity_scaling();
            true
        }
        other => panic!("history {}", other),
    }
}

/// `DirectLDLKKTSolver::new`, the scaling history, `update` on the request's data
fn build_live_hist(r: &Req, hist: &str) -> Live {
    let P = r.csc("P");
    let A = r.csc("A");
    let mut cones = CompositeCone::<f64>::new(&parse_cones(r.str("cones")));
    let mut settings = DefaultSettings::<f64>::default();
    settings.direct_solve_method = "qdldl".to_string();
    settings.static_regularization_enable = r.b("reg");
    settings.static_regularization_constant = r.f("regconst");
    settings.static_regularization_proportional = r.f("regprop");
    let mut kkt = DirectLDLKKTSolver::<f64>::new(&P, &A, &cones, A.m, A.n, &settings);
    let scaling_ok = apply_history(r, hist, &mut cones, Some((&mut kkt, &settings)));
    let update_ok = if scaling_ok { kkt.update(&cones, &settings) } else { false };
    Live { cones, kkt, scaling_ok, update_ok, settings }
}
fn build_live(r: &Req) -> Live {
    build_live_hist(r, &hist_of(r))
}

fn run_update(r: &Req) -> String {
    let live = build_live(r);
    if !live.scaling_ok {
        return "scaling-failed".into();
    }
    // the scaling data in the request is what this implementation computes
    let again = scaling_tokens(Line::new("x"), &live.cones).done();
    let mine = Req::parse(&again).unwrap();
    for (k, v) in mine.kv.iter() {
        if r.kv.get(k) != Some(v) {
            return format!("scaling-data-in-request-differs key={}", k);
        }
    }
    let v: KktView<f64> = live.kkt.verif_view();
    let nzfactor: Vec<f64> = match (&v.ldl_nzval, &v.AtoPAPt) {
        (Some(l), Some(a)) => (0..v.KKT.nnz()).map(|i| l[a[i]]).collect(),
        _ => return "no-ldl-copy".into(),
    };
    let reg = live.settings.static_regularization_enable;
    let none: Vec<f64> = vec![];
    Line::out()
        .fs("nzval", &v.KKT.nzval)
        // the implementation's final values are compared with the model's values *before*
        // the regularise / restore round trip as well
        .fs("nzupdated", &v.KKT.nzval)
        .fs("nzfactor", &nzfactor)
        .fs("diagkkt", if reg { &v.work1 } else { &none })
        .fs("shifted", if reg { &v.work2 } else { &none })
        .f("eps", v.diagonal_regularizer)
        .done()
}

fn dense_sym_from_triu(K: &CscMatrix<f64>, vals: &[f64]) -> Vec<Vec<f64>> {
    let mut d = vec![vec![0.0; K.n]; K.n];
    for j in 0..K.n {
        for k in K.colptr[j]..K.colptr[j + 1] {
            let i = K.rowval[k];
            d[i][j] = vals[k];
            d[j][i] = vals[k];
        }
    }
    d
}

/// every value of the solver's own KKT matrix is determined by the data and the cones'
/// scaling: `P`, `A` untouched, `-get_Hs` in the Hs blocks, the scaled expansion vectors,
/// zeros on the filled-in diagonal — in particular no regularisation is left behind.
fn check_values(view: &KktView<f64>, P: &CscMatrix<f64>, A: &CscMatrix<f64>, cones: &CompositeCone<f64>) -> Result<(), String> {
    let K = &view.KKT;
    let mut want: Vec<Option<f64>> = vec![None; K.nnz()];
    let mut owner: Vec<String> = vec!["filled-diagonal".to_string(); K.nnz()];
    for (k, &i) in view.map.P.iter().enumerate() {
        want[i] = Some(P.nzval[k]);
        owner[i] = format!("P[{}]", k);
    }
    for (k, &i) in view.map.A.iter().enumerate() {
        want[i] = Some(A.nzval[k]);
        owner[i] = format!("A[{}]", k);
    }
    let mut Hs = vec![0.0; view.map.Hsblocks.len()];
    cones.get_Hs(&mut Hs);
    for (k, &i) in view.map.Hsblocks.iter().enumerate() {
        want[i] = Some(-Hs[k]);
        owner[i] = format!("Hsblocks[{}]", k);
    }
    let mut si = 0;
    for c in cones.iter() {
        match c {
            SupportedCone::SecondOrderCone(sc) if sc.sparse_data.is_some() => {
                let sd = sc.sparse_data.as_ref().unwrap();
                let eta2 = sc.η * sc.η;
                if let PlainSparseMap::SOC { u, v, D } = &view.map.sparse_maps[si] {
                    for (k, &i) in u.iter().enumerate() { want[i] = Some(sd.u[k] * (-eta2)); }
                    for (k, &i) in v.iter().enumerate() { want[i] = Some(sd.v[k] * (-eta2)); }
                    want[D[0]] = Some(-eta2);
                    want[D[1]] = Some(eta2);
                } else {
                    return Err("sparse map kind".into());
                }
                si += 1;
            }
            SupportedCone::GenPowerCone(gp) => {
                let sm = gp.data.μ.sqrt();
                if let PlainSparseMap::GenPow { p, q, r, D } = &view.map.sparse_maps[si] {
                    for (k, &i) in p.iter().enumerate() { want[i] = Some(gp.data.p[k] * (-sm)); }
                    for (k, &i) in q.iter().enumerate() { want[i] = Some(gp.data.q[k] * (-sm)); }
                    for (k, &i) in r.iter().enumerate() { want[i] = Some(gp.data.r[k] * (-sm)); }
                    want[D[0]] = Some(-1.0);
                    want[D[1]] = Some(-1.0);
                    want[D[2]] = Some(1.0);
                } else {
                    return Err("sparse map kind".into());
                }
                si += 1;
            }
            _ => {}
        }
    }
    for k in 0..K.nnz() {
        let w = want[k].unwrap_or(0.0); // unmapped = filled-in diagonal of the P block
        let got = K.nzval[k];
        let same = w.to_bits() == got.to_bits() || (w == 0.0 && got == 0.0) || (w.is_nan() && got.is_nan());
        if !same {
            return Err(format!(
                "KKT.nzval[{}] ({}) = {:e} but the data/scaling determine {:e} (difference {:e}; static regulariser {:e})",
                k, owner[k], got, w, got - w, view.diagonal_regularizer
            ));
        }
    }
    Ok(())
}

/// `H` of one cone as the dense matrix that `mul_Hs` applies
fn dense_mul_hs(cones: &mut CompositeCone<f64>) -> Vec<Vec<f64>> {
    let m = cones.numel();
    let mut H = vec![vec![0.0; m]; m];
    let mut work = vec![0.0; m];
    for j in 0..m {
        let mut e = vec![0.0; m];
        e[j] = 1.0;
        let mut y = vec![0.0; m];
        cones.mul_Hs(&mut y, &e, &mut work);
        for i in 0..m {
            H[i][j] = y[i];
        }
    }
    H
}

/// Schur-complement oracle: the (2,2) block of the KKT matrix after eliminating the
/// auxiliary rows/columns of every sparse expansion is `-H`, `H` being what `mul_Hs` applies.
fn check_schur(view: &KktView<f64>, cones: &mut CompositeCone<f64>) -> Result<f64, String> {
    let (n, m, p) = (view.n, view.m, view.p);
    let Kd = dense_sym_from_triu(&view.KKT, &view.KKT.nzval);
    let H = dense_mul_hs(cones);
    // S = K22 - K23 * K33^{-1} * K32, K33 diagonal
    let mut worst: f64 = 0.0;
    let hmax = H.iter().flatten().fold(0.0f64, |a, &b| a.max(b.abs()));
    for i in 0..m {
        for j in 0..m {
            let mut sij = Kd[n + i][n + j];
            for a in 0..p {
                let d = Kd[n + m + a][n + m + a];
                let (x, y) = (Kd[n + i][n + m + a], Kd[n + m + a][n + j]);
                if x != 0.0 && y != 0.0 {
                    sij -= x * y / d;
                }
            }
            let err = (sij + H[i][j]).abs();
            if !err.is_finite() && (sij.is_finite() && H[i][j].is_finite()) {
                return Err("non-finite Schur error".into());
            }
            // row/column scaled tolerance: entries of H vary over many orders of magnitude
            let scale = (H[i][i].abs() * H[j][j].abs()).sqrt().max(H[i][j].abs());
            let tol = 1e-9 * scale + 1e-13 * hmax + 1e-300;
            if err > tol {
                return Err(format!(
                    "Schur complement of the expansion rows at ({},{}) is {:e}, -H from mul_Hs is {:e} (|diff| {:e} > tol {:e})",
                    i, j, sij, -H[i][j], err, tol
                ));
            }
            if scale > 0.0 {
                worst = worst.max(err / scale);
            }
        }
    }
    // expansion block must not touch the (1,1),(1,2) blocks, and K33 is diagonal
    for a in 0..p {
        for j in 0..n {
            if Kd[n + m + a][j] != 0.0 {
                return Err("expansion column couples with x".into());
            }
        }
        for b in 0..p {
            if a != b && Kd[n + m + a][n + m + b] != 0.0 {
                return Err("expansion diagonal block is not diagonal".into());
            }
        }
    }
    Ok(worst)
}

/// pivot signs of an LDL' factorisation (no dynamic regularisation) of the matrix the
/// LDL engine was given equal the recorded `dsigns`
fn check_inertia(view: &KktView<f64>, nzfactor: &[f64]) -> Result<(), String> {
    let mut K = view.KKT.clone();
    K.nzval.copy_from_slice(nzfactor);
    let opts = QDLDLSettingsBuilder::default()
        .Dsigns(view.dsigns.clone())
        .regularize_enable(false)
        .build()
        .unwrap();
    // a factorisation error (exact zero pivot) is inconclusive, not a sign mismatch
    let f = match QDLDLFactorisation::<f64>::new(&K, Some(opts)) {
        Ok(f) => f,
        Err(_) => return Ok(()),
    };
    for (i, &d) in f.D.iter().enumerate() {
        let want = view.dsigns[f.perm[i]];
        let got = if d > 0.0 { 1 } else if d < 0.0 { -1 } else { 0 };
        // exact pivots are at least eps >= 1e-4 in magnitude; anything below 1e-7 is noise
        if got != want && d.abs() >= 1e-7 {
            return Err(format!(
                "pivot D[{}] = {:e} (variable {}) has sign {} but dsigns records {}",
                i, d, f.perm[i], got, want
            ));
        }
    }
    Ok(())
}

fn oracle_update(r: &Req, out: &str) -> Result<(), String> {
    if out == "scaling-failed" {
        return Ok(());
    }
    if !out.starts_with("nzval=") {
        return Err(format!("update did not return values: {}", out.chars().take(120).collect::<String>()));
    }
    let mut live = build_live(r);
    let view = live.kkt.verif_view();
    let (P, A) = (r.csc("P"), r.csc("A"));
    check_values(&view, &P, &A, &live.cones)?;
    // history independence: only the LAST scaling operation may determine the cone data and
    // the KKT values (nothing left over from an earlier scaling / update)
    let hist = hist_of(r);
    let last_only = match hist.as_str() {
        "twice" => Some("fresh"),
        "ident" => Some("freshident"),
        _ => None,
    };
    if let Some(h2) = last_only {
        let fresh = build_live_hist(r, h2);
        let a = scaling_tokens(Line::new("x"), &live.cones).done();
        let b = scaling_tokens(Line::new("x"), &fresh.cones).done();
        if a != b {
            let (ra, rb) = (Req::parse(&a).unwrap(), Req::parse(&b).unwrap());
            let key = ra.kv.iter().find(|(k, v)| rb.kv.get(*k) != Some(v)).map(|(k, _)| k.clone()).unwrap_or_default();
            return Err(format!(
                "cone scaling data after history '{}' differs from a fresh cone given only the last operation (key {}): state of an earlier scaling leaks",
                hist, key
            ));
        }
        let fv = fresh.kkt.verif_view();
        for k in 0..view.KKT.nnz() {
            let (x, y) = (view.KKT.nzval[k], fv.KKT.nzval[k]);
            if x.to_bits() != y.to_bits() && !(x.is_nan() && y.is_nan()) {
                return Err(format!(
                    "KKT.nzval[{}] = {:e} after history '{}' but {:e} on a fresh solver given only the last scaling",
                    k, x, hist, y
                ));
            }
        }
    }
    // identity scaling must give H = I on second-order / nonnegative cones (0 on zero cones)
    if hist.ends_with("ident") {
        let H = dense_mul_hs(&mut live.cones);
        let spec = parse_cs(r.str("cones"));
        let mut row = 0;
        for c in &spec {
            for i in 0..c.numel() {
                for j in 0..H.len() {
                    let want = if row + i == j && !matches!(c, CS::Zero(_)) { 1.0 } else { 0.0 };
                    if H[row + i][j] != want {
                        return Err(format!("identity scaling: mul_Hs({},{}) = {:e}, expected {}", row + i, j, H[row + i][j], want));
                    }
                }
            }
            row += c.numel();
        }
    }
    // assembled structure of the live solver = the assembly oracle
    let asm_line = line_map(Line::out().csc("", &view.KKT), &view.map).is("dsigns", &view.dsigns).done();
    let mut asm = parse_asm(&asm_line)?;
    // structure only: the Hs/expansion values are no longer zero
    let mut K0 = asm.K.clone();
    for k in 0..K0.nnz() {
        K0.nzval[k] = 0.0;
    }
    for (k, &i) in view.map.P.iter().enumerate() { K0.nzval[i] = P.nzval[k]; }
    for (k, &i) in view.map.A.iter().enumerate() { K0.nzval[i] = A.nzval[k]; }
    asm.K = K0;
    check_assembly(&P, &A, &parse_cs(r.str("cones")), true, &asm)?;
    // regulariser bookkeeping
    let o = Req::parse(&format!("x {}", out)).unwrap();
    let nzfactor = o.fs("nzfactor");
    if r.b("reg") {
        let eps = view.diagonal_regularizer;
        let maxd = view.map.diag_full.iter().fold(0.0f64, |a, &i| a.max(view.KKT.nzval[i].abs()));
        let want = r.f("regconst") + r.f("regprop") * maxd;
        if eps.to_bits() != want.to_bits() && !(eps.is_nan() && want.is_nan()) {
            return Err(format!("regulariser {:e}, expected const + prop*max|diag| = {:e}", eps, want));
        }
        let mut is_diag = vec![false; view.KKT.nnz()];
        for (j, &i) in view.map.diag_full.iter().enumerate() {
            is_diag[i] = true;
            let d = view.KKT.nzval[i];
            let w = if view.dsigns[j] == 1 { d + eps } else { d - eps };
            if nzfactor[i].to_bits() != w.to_bits() && !(w.is_nan() && nzfactor[i].is_nan()) {
                return Err(format!("LDL copy of diagonal {} is {:e}, expected diag {:+} eps = {:e}", j, nzfactor[i], view.dsigns[j], w));
            }
        }
        for k in 0..view.KKT.nnz() {
            if !is_diag[k] && nzfactor[k].to_bits() != view.KKT.nzval[k].to_bits() && !(nzfactor[k].is_nan() && view.KKT.nzval[k].is_nan()) {
                return Err(format!("LDL copy of off-diagonal entry {} differs from the KKT matrix", k));
            }
        }
    }
    if live.update_ok && view.KKT.nzval.iter().all(|x| x.is_finite()) {
        check_schur(&view, &mut live.cones)?;
        if r.b("psd") && r.b("reg") && r.f("regconst") >= 1e-4 {
            check_inertia(&view, &nzfactor)?;
        }
    }
    Ok(())
}

// ------------------------------------------------------------------ kkt.passes

/// scaling tokens of pass `k`: the keys of `scaling_tokens` prefixed with `p{k}` (`nc` is shared)
fn scaling_tokens_pass(mut l: Line, cones: &CompositeCone<f64>, k: usize) -> Line {
    let t = Req::parse(&scaling_tokens(Line::new("x"), cones).done()).unwrap();
    for (key, v) in t.kv.iter() {
        if key == "nc" {
            continue;
        }
        l = l.s(&format!("p{}{}", k, key), v);
    }
    l
}

struct PassRec {
    nzval: Vec<f64>,
    nzfactor: Vec<f64>,
    eps: f64,
}

struct PassesLive {
    kkt: DirectLDLKKTSolver<f64>,
    recs: Vec<PassRec>,
}

/// `DirectLDLKKTSolver::new`, then for every pass `k` in `first..np`: `update_scaling(s_k, z_k, mu_k)`
/// on ONE composite cone object and `kkt.update` on ONE solver object (what the interior-point
/// loop does).  `first = np - 1` is "a fresh solver given only the last scaling".
fn passes_live(r: &Req, first: usize) -> Result<PassesLive, String> {
    let P = r.csc("P");
    let A = r.csc("A");
    let np = r.u("np");
    let mut cones = CompositeCone::<f64>::new(&parse_cones(r.str("cones")));
    let mut settings = DefaultSettings::<f64>::default();
    settings.direct_solve_method = "qdldl".to_string();
    settings.static_regularization_enable = r.b("reg");
    settings.static_regularization_constant = r.f("regconst");
    settings.static_regularization_proportional = r.f("regprop");
    let mut kkt = DirectLDLKKTSolver::<f64>::new(&P, &A, &cones, A.m, A.n, &settings);
    let strat = strategy(r.str("strategy"));
    let mut recs = vec![];
    for k in first..np {
        let (s, z, mu) = (r.fs(&format!("p{}s", k)), r.fs(&format!("p{}z", k)), r.f(&format!("p{}mu", k)));
        if !cones.update_scaling(&s, &z, mu, strat) {
            return Err("scaling-failed".into());
        }
        // the scaling data in the request is what this implementation computes (a cone object
        // that went through the earlier passes included)
        let again = scaling_tokens_pass(Line::new("x"), &cones, k).done();
        let mine = Req::parse(&again).unwrap();
        for (key, v) in mine.kv.iter() {
            if r.kv.get(key) != Some(v) {
                return Err(format!("scaling-data-in-request-differs key={}", key));
            }
        }
        kkt.update(&cones, &settings);
        let v: KktView<f64> = kkt.verif_view();
        let nzfactor: Vec<f64> = match (&v.ldl_nzval, &v.AtoPAPt) {
            (Some(l), Some(a)) => (0..v.KKT.nnz()).map(|i| l[a[i]]).collect(),
            _ => return Err("no-ldl-copy".into()),
        };
        recs.push(PassRec { nzval: v.KKT.nzval.clone(), nzfactor, eps: v.diagonal_regularizer });
    }
    Ok(PassesLive { kkt, recs })
}

fn run_passes(r: &Req) -> String {
    match passes_live(r, 0) {
        Err(e) => e,
        Ok(live) => {
            let mut l = Line::out().u("np", live.recs.len());
            for (k, rec) in live.recs.iter().enumerate() {
                l = l
                    .fs(&format!("p{}nzval", k), &rec.nzval)
                    .fs(&format!("p{}nzfactor", k), &rec.nzfactor)
                    .f(&format!("p{}eps", k), rec.eps);
            }
            l.done()
        }
    }
}

fn same_bits(x: f64, y: f64) -> bool {
    x.to_bits() == y.to_bits() || (x.is_nan() && y.is_nan())
}

/// The property at every pass of the loop, on the implementation's own response:
///  * the outputs of the LAST pass are bit for bit those of a fresh solver given only the last
///    scaling (C11.passes_last_is_fresh / pass_history_independent);
///  * after every pass the P and A entries are where the maps say, untouched (C11.passes_keep_PA);
///  * the LDL copy of every pass is the refinement copy with diag ± eps (C11.refinement_ldl_copy).
fn oracle_passes(r: &Req, out: &str) -> Result<(), String> {
    if !out.starts_with("np=") {
        return Ok(());
    }
    let o = Req::parse(&format!("x {}", out)).unwrap();
    let np = r.u("np");
    if o.u("np") != np {
        return Err(format!("{} passes reported, {} requested", o.u("np"), np));
    }
    let fresh = passes_live(r, np - 1).map_err(|e| format!("fresh solver with the last scaling only: {}", e))?;
    let fr = &fresh.recs[0];
    let last = np - 1;
    let (lv, lf, le) = (o.fs(&format!("p{}nzval", last)), o.fs(&format!("p{}nzfactor", last)), o.f(&format!("p{}eps", last)));
    if lv.len() != fr.nzval.len() || lf.len() != fr.nzfactor.len() {
        return Err("value arrays of the last pass and of the fresh solver differ in length".into());
    }
    for k in 0..lv.len() {
        if !same_bits(lv[k], fr.nzval[k]) {
            return Err(format!(
                "KKT.nzval[{}] = {:e} after {} passes but {:e} on a fresh solver given only the last scaling",
                k, lv[k], np, fr.nzval[k]
            ));
        }
        if !same_bits(lf[k], fr.nzfactor[k]) {
            return Err(format!(
                "LDL copy [{}] = {:e} after {} passes but {:e} on a fresh solver given only the last scaling",
                k, lf[k], np, fr.nzfactor[k]
            ));
        }
    }
    if !same_bits(le, fr.eps) {
        return Err(format!("regulariser {:e} after {} passes but {:e} on a fresh solver", le, np, fr.eps));
    }
    let view = fresh.kkt.verif_view();
    let (P, A) = (r.csc("P"), r.csc("A"));
    let mut is_diag = vec![false; view.KKT.nnz()];
    for &i in view.map.diag_full.iter() {
        is_diag[i] = true;
    }
    for p in 0..np {
        let nz = o.fs(&format!("p{}nzval", p));
        let nf = o.fs(&format!("p{}nzfactor", p));
        let eps = o.f(&format!("p{}eps", p));
        for (k, &i) in view.map.P.iter().enumerate() {
            if !same_bits(nz[i], P.nzval[k]) {
                return Err(format!("pass {}: entry {} of P is {:e} in the KKT matrix, {:e} in P", p, k, nz[i], P.nzval[k]));
            }
        }
        for (k, &i) in view.map.A.iter().enumerate() {
            if !same_bits(nz[i], A.nzval[k]) {
                return Err(format!("pass {}: entry {} of A is {:e} in the KKT matrix, {:e} in A", p, k, nz[i], A.nzval[k]));
            }
        }
        if r.b("reg") {
            for (j, &i) in view.map.diag_full.iter().enumerate() {
                let d = nz[i];
                let w = if view.dsigns[j] == 1 { d + eps } else { d - eps };
                if !same_bits(nf[i], w) {
                    return Err(format!("pass {}: LDL copy of diagonal {} is {:e}, expected diag {:+} eps = {:e}", p, j, nf[i], view.dsigns[j], w));
                }
            }
        }
        for k in 0..nz.len() {
            if (!is_diag[k] || !r.b("reg")) && !same_bits(nf[k], nz[k]) {
                return Err(format!("pass {}: LDL copy of entry {} differs from the KKT matrix", p, k));
            }
        }
    }
    Ok(())
}

// ------------------------------------------------------------------ kkt.get_hs

fn run_get_hs(r: &Req) -> String {
    let mut cones = CompositeCone::<f64>::new(&parse_cones(r.str("cones")));
    if !apply_history(r, &hist_of(r), &mut cones, None) {
        return "scaling-failed".into();
    }
    let again = scaling_tokens(Line::new("x"), &cones).done();
    let mine = Req::parse(&again).unwrap();
    for (k, v) in mine.kv.iter() {
        if r.kv.get(k) != Some(v) {
            return format!("scaling-data-in-request-differs key={}", k);
        }
    }
    let (_, blocks) = hk::cone_ranges(&cones);
    let mut H = vec![0.0; blocks.last().map(|b| b.1).unwrap_or(0)];
    cones.get_Hs(&mut H);
    Line::out().fs("Hs", &H).done()
}

/// `get_Hs` and `mul_Hs` denote the same operator
fn oracle_get_hs(r: &Req, out: &str) -> Result<(), String> {
    if !out.starts_with("Hs=") {
        return Ok(());
    }
    let o = Req::parse(&format!("x {}", out)).unwrap();
    let Hs = o.fs("Hs");
    let spec = parse_cs(r.str("cones"));
    let mut cones = CompositeCone::<f64>::new(&parse_cones(r.str("cones")));
    apply_history(r, &hist_of(r), &mut cones, None);
    let H = dense_mul_hs(&mut cones);
    let (rc, rb) = hk::cone_ranges(&cones);
    for (ci, c) in spec.iter().enumerate() {
        if c.sparse() {
            continue; // diagonal part only; covered by the Schur oracle of kkt.update
        }
        let (r0, b0) = (rc[ci].0, rb[ci].0);
        let d = c.numel();
        let hmax = (0..d).fold(0.0f64, |a, i| a.max(H[r0 + i][r0 + i].abs()));
        let mut k = 0;
        for col in 0..d {
            let rows: Vec<usize> = if c.diag() { vec![col] } else { (0..=col).collect() };
            for row in rows {
                let a = Hs[b0 + k];
                let b = H[r0 + row][r0 + col];
                let scale = (H[r0 + row][r0 + row].abs() * H[r0 + col][r0 + col].abs()).sqrt().max(b.abs());
                if (a - b).abs() > 1e-9 * scale + 1e-13 * hmax + 1e-300 {
                    return Err(format!("cone {} get_Hs({},{}) = {:e} but mul_Hs gives {:e}", ci, row, col, a, b));
                }
                k += 1;
            }
        }
    }
    Ok(())
}

// ------------------------------------------------------------------ kkt.cone_ranges

/// `make_rng_cones` / `make_rng_blocks` (as stored by `CompositeCone::new`), the crate-private
/// iterator `rng_cones_iter` over the `SupportedConeT` list, and the length of the vector
/// `allocate_kkt_Hsblocks` returns (read off `LDLDataMap::new` through the assembly hook)
fn run_cone_ranges(r: &Req) -> String {
    let list = parse_cones(r.str("cones"));
    let cones = CompositeCone::<f64>::new(&list);
    let (rc, rb) = hk::cone_ranges(&cones);
    let it = clarabel::verif_hooks::cones::verif_hooks_ranges::rng_cones_iter_pairs(&list);
    let m: usize = cones.numel();
    let P = CscMatrix::<f64>::zeros((1, 1));
    let A = CscMatrix::<f64>::zeros((m, 1));
    let (_, map, _) = hk::assemble(&P, &A, &cones, hk::triangle(true));
    let fst = |v: &[(usize, usize)]| v.iter().map(|p| p.0).collect::<Vec<_>>();
    let snd = |v: &[(usize, usize)]| v.iter().map(|p| p.1).collect::<Vec<_>>();
    Line::out()
        .us("cs", &fst(&rc)).us("ce", &snd(&rc))
        .us("bs", &fst(&rb)).us("be", &snd(&rb))
        .us("is", &fst(&it)).us("ie", &snd(&it))
        .u("hslen", map.Hsblocks.len())
        .done()
}

/// the ranges are consecutive, start at 0, have the width of their cone / block, and the last
/// one ends at the total; written down from the cone list only
fn oracle_cone_ranges(r: &Req, out: &str) -> Result<(), String> {
    let o = Req::parse(&format!("x {}", out)).ok_or("unparsable response")?;
    let spec = parse_cs(r.str("cones"));
    let check = |ks: &str, ke: &str, width: &dyn Fn(&CS) -> usize| -> Result<usize, String> {
        let (st, en) = (o.us(ks), o.us(ke));
        if st.len() != spec.len() || en.len() != spec.len() {
            return Err(format!("{}: {} ranges for {} cones", ks, st.len(), spec.len()));
        }
        let mut at = 0;
        for (i, c) in spec.iter().enumerate() {
            if st[i] != at {
                return Err(format!("{}[{}] = {} but the previous range ends at {}", ks, i, st[i], at));
            }
            if en[i] != st[i] + width(c) {
                return Err(format!("{}[{}] = {} but start {} + width {}", ke, i, en[i], st[i], width(c)));
            }
            at = en[i];
        }
        Ok(at)
    };
    let total = check("cs", "ce", &|c| c.numel())?;
    if total != spec.iter().map(|c| c.numel()).sum::<usize>() {
        return Err("cone ranges do not cover 0..numel".into());
    }
    check("is", "ie", &|c| c.numel())?;
    let btotal = check("bs", "be", &|c| if c.diag() { c.numel() } else { c.numel() * (c.numel() + 1) / 2 })?;
    if o.u("hslen") != btotal {
        return Err(format!("allocate_kkt_Hsblocks length {} but the block ranges end at {}", o.u("hslen"), btotal));
    }
    Ok(())
}

// ------------------------------------------------------------------ blk.*

fn out_k(K: &CscMatrix<f64>) -> String {
    fmt_csc(K)
}
fn out_kmap(K: &CscMatrix<f64>, map: &[usize]) -> String {
    Line::out().csc("", K).us("map", map).done()
}

fn run_blk(r: &Req) -> String {
    let mut K = r.csc("K");
    match r.chan.as_str() {
        "blk.colcount_dense_triangle" => {
            hk::colcount_dense_triangle(&mut K, r.u("initcol"), r.u("blockcols"), hk::triangle(r.str("shape") == "triu"));
            out_k(&K)
        }
        "blk.colcount_diag" => {
            hk::colcount_diag(&mut K, r.u("initcol"), r.u("blockcols"));
            out_k(&K)
        }
        "blk.colcount_missing_diag" => {
            hk::colcount_missing_diag(&mut K, &r.csc("M"), r.u("initcol"));
            out_k(&K)
        }
        "blk.colcount_colvec" => {
            hk::colcount_colvec(&mut K, r.u("len"), r.u("firstrow"), r.u("firstcol"));
            out_k(&K)
        }
        "blk.colcount_rowvec" => {
            hk::colcount_rowvec(&mut K, r.u("len"), r.u("firstrow"), r.u("firstcol"));
            out_k(&K)
        }
        "blk.colcount_block" => {
            hk::colcount_block(&mut K, &r.csc("M"), r.u("initcol"), hk::shape(r.str("shape") == "T"));
            out_k(&K)
        }
        "blk.fill_colvec" => {
            let mut map = r.us("map");
            hk::fill_colvec(&mut K, &mut map, r.u("initrow"), r.u("initcol"));
            out_kmap(&K, &map)
        }
        "blk.fill_rowvec" => {
            let mut map = r.us("map");
            hk::fill_rowvec(&mut K, &mut map, r.u("initrow"), r.u("initcol"));
            out_kmap(&K, &map)
        }
        "blk.fill_block" => {
            let mut map = r.us("map");
            hk::fill_block(&mut K, &r.csc("M"), &mut map, r.u("initrow"), r.u("initcol"), hk::shape(r.str("shape") == "T"));
            out_kmap(&K, &map)
        }
        "blk.fill_dense_triangle" => {
            let mut map = r.us("map");
            hk::fill_dense_triangle(&mut K, &mut map, r.u("offset"), r.u("blockdim"), hk::triangle(r.str("shape") == "triu"));
            out_kmap(&K, &map)
        }
        "blk.fill_diag" => {
            let mut map = r.us("map");
            hk::fill_diag(&mut K, &mut map, r.u("offset"), r.u("blockdim"));
            out_kmap(&K, &map)
        }
        "blk.fill_missing_diag" => {
            hk::fill_missing_diag(&mut K, &r.csc("M"), r.u("initcol"));
            out_k(&K)
        }
        "blk.colcount_to_colptr" => {
            hk::colcount_to_colptr(&mut K);
            out_k(&K)
        }
        "blk.colptr_to_colcount" => {
            hk::colptr_to_colcount(&mut K);
            out_k(&K)
        }
        "blk.backshift_colptrs" => {
            hk::backshift_colptrs(&mut K);
            out_k(&K)
        }
        "blk.count_diagonal_entries" => format!("{}", hk::count_diagonal_entries(&K, hk::triangle(r.str("shape") == "triu"))),
        other => panic!("unknown blk channel {}", other),
    }
}

/// what each utility means, stated on its result
fn oracle_blk(r: &Req, out: &str) -> Result<(), String> {
    if out.starts_with("panic") {
        return Ok(());
    }
    let K0 = r.csc("K");
    let name = &r.chan["blk.".len()..];
    if name == "count_diagonal_entries" {
        if K0.check_format().is_err() {
            return Ok(());
        }
        let d = gen::to_dense(&K0);
        let triu = r.str("shape") == "triu";
        // structural diagonal entries that are last (triu) / first (tril) in their column
        let mut want = 0;
        for j in 0..K0.n {
            let (lo, hi) = (K0.colptr[j], K0.colptr[j + 1]);
            if lo < hi {
                let k = if triu { hi - 1 } else { lo };
                if K0.rowval[k] == j {
                    want += 1;
                }
            }
        }
        let _ = d;
        let got: usize = out.parse().map_err(|_| "not a number")?;
        if got != want {
            return Err(format!("count {} expected {}", got, want));
        }
        return Ok(());
    }
    let o = Req::parse(&format!("x {}", out)).ok_or("unparsable")?;
    let K1 = o.csc("");
    let added: i64 = K1.colptr.iter().map(|&x| x as i64).sum::<i64>() - K0.colptr.iter().map(|&x| x as i64).sum::<i64>();
    let tri = |d: usize| (d * (d + 1) / 2) as i64;
    let want_added: Option<i64> = match name {
        "colcount_dense_triangle" => Some(tri(r.u("blockcols"))),
        "colcount_diag" => Some(r.u("blockcols") as i64),
        "colcount_colvec" | "colcount_rowvec" => Some(r.u("len") as i64),
        "colcount_block" => {
            let M = r.csc("M");
            if M.check_format().is_ok() && M.colptr[0] == 0 { Some(M.nnz() as i64) } else { None }
        }
        "fill_colvec" | "fill_rowvec" => Some(r.us("map").len() as i64),
        "fill_diag" => Some(r.u("blockdim") as i64),
        "fill_dense_triangle" => Some(tri(r.u("blockdim"))),
        "fill_block" => {
            let M = r.csc("M");
            if M.check_format().is_ok() && M.colptr[0] == 0 { Some(M.nnz() as i64) } else { None }
        }
        _ => None,
    };
    if let Some(w) = want_added {
        if added != w {
            return Err(format!("{}: counters grew by {} in total, expected {}", name, added, w));
        }
    }
    if name.starts_with("fill_") && o.has("map") {
        // each recorded destination is where the entry was written, destinations are distinct
        // and were free slots (>= the old counter of their column)
        let map = o.us("map");
        let set: BTreeSet<usize> = map.iter().cloned().collect();
        let expect_len = match name {
            "fill_dense_triangle" => tri(r.u("blockdim")) as usize,
            "fill_diag" => r.u("blockdim"),
            _ => map.len(),
        };
        // only meaningful when the K counters describe disjoint free ranges (the generator
        // marks such cases)
        if r.has("disjoint") && r.b("disjoint") {
            if set.len() != expect_len.min(map.len()) && expect_len == map.len() {
                return Err(format!("{}: destinations are not distinct", name));
            }
            for &d in &map[..expect_len.min(map.len())] {
                if d >= K1.nzval.len() {
                    return Err("destination out of range".into());
                }
                if name != "fill_block" && K1.nzval[d] != 0.0 {
                    return Err(format!("{}: structural zero expected at {}", name, d));
                }
            }
        }
    }
    Ok(())
}

// ------------------------------------------------------------------ kkt.live

/// State of the KKT solver behind a live `DefaultSolver`: the solver's own KKT matrix must
/// be exactly what the data and the cones' current scaling determine (no regularisation
/// left, nothing stale), the LDL engine's copy must be that matrix with `±ε` on the
/// diagonal, the structure must be the intended one, and eliminating the expansion
/// variables must give `-H` with `H` what `mul_Hs` applies.
fn check_live_state(solver: &mut DefaultSolver<f64>, r: &Req, stage: &str, check_ldl: bool) -> Result<(), String> {
    let view = solver.kktsystem.verif_kkt_view().ok_or("no-view")?;
    let tag = format!("stage={} status={:?} iters={} nnz={}", stage, solver.solution.status, solver.solution.iterations, view.KKT.nnz());
    let fail = |e: String| format!("{} :: {}", tag, e);
    check_values(&view, &solver.data.P, &solver.data.A, &solver.cones).map_err(&fail)?;
    if let (true, Some(l), Some(a)) = (check_ldl, &view.ldl_nzval, &view.AtoPAPt) {
        let eps = view.diagonal_regularizer;
        let mut is_diag = vec![false; view.KKT.nnz()];
        for (j, &i) in view.map.diag_full.iter().enumerate() {
            is_diag[i] = true;
            let d = view.KKT.nzval[i];
            let w = if !r.b("reg") { d } else if view.dsigns[j] == 1 { d + eps } else { d - eps };
            if l[a[i]].to_bits() != w.to_bits() && !(w.is_nan() && l[a[i]].is_nan()) {
                return Err(fail(format!("LDL copy of diagonal {} is {:e} expected {:e}", j, l[a[i]], w)));
            }
        }
        for k in 0..view.KKT.nnz() {
            if !is_diag[k] && l[a[k]].to_bits() != view.KKT.nzval[k].to_bits() && !(l[a[k]].is_nan() && view.KKT.nzval[k].is_nan()) {
                return Err(fail(format!("LDL copy of entry {} differs", k)));
            }
        }
    }
    let asm_line = line_map(Line::out().csc("", &view.KKT), &view.map).is("dsigns", &view.dsigns).done();
    parse_asm(&asm_line)
        .and_then(|mut asm| {
            for k in 0..asm.K.nnz() {
                asm.K.nzval[k] = 0.0;
            }
            for (k, &i) in view.map.P.iter().enumerate() { asm.K.nzval[i] = solver.data.P.nzval[k]; }
            for (k, &i) in view.map.A.iter().enumerate() { asm.K.nzval[i] = solver.data.A.nzval[k]; }
            check_assembly(&solver.data.P, &solver.data.A, &parse_cs(r.str("cones")), true, &asm)
        })
        .map_err(&fail)?;
    if view.KKT.nzval.iter().all(|x| x.is_finite()) {
        check_schur(&view, &mut solver.cones).map_err(&fail)?;
    }
    Ok(())
}

/// `solve()` with the loop observer on; returns false when the loop ended on a FAILED
/// scaling update: `CompositeCone::update_scaling` stops at the first failing cone, so the
/// cones before it hold the new scaling while the KKT matrix (never updated in that pass)
/// holds the previous one.  That is not a state "after a scaling update"; the next solve
/// starts with a complete scaling update, so nothing is read from it.
fn solve_observed(solver: &mut DefaultSolver<f64>) -> bool {
    use clarabel::verif_hooks::observer::{self, Event};
    observer::start();
    solver.solve();
    let ev = observer::take();
    for e in ev.iter().rev() {
        if let Event::Flag("scaling_success", v) = e {
            return !v.starts_with("(false");
        }
    }
    true
}

fn live_settings(r: &Req) -> DefaultSettings<f64> {
    let mut settings = DefaultSettings::<f64>::default();
    settings.verbose = false;
    settings.direct_solve_method = r.str("method").to_string();
    settings.max_iter = r.u("maxiter") as u32;
    settings.equilibrate_enable = r.b("equil");
    settings.presolve_enable = false;
    settings.static_regularization_enable = r.b("reg");
    settings.iterative_refinement_enable = r.b("ir");
    settings
}

/// Solves, re-solves on the same object (optionally after a data update) and inspects the
/// KKT state after every solve and right after `default_start` of the re-solve (a re-solve
/// with `max_iter = 0` stops exactly there).
fn run_live(r: &Req) -> String {
    let P = r.csc("P");
    let A = r.csc("A");
    let (q, b) = (r.fs("q"), r.fs("b"));
    let cones = parse_cones(r.str("cones"));
    let resolve = if r.has("resolve") { r.str("resolve").to_string() } else { "none".to_string() };
    let mut solver = DefaultSolver::<f64>::new(&P, &q, &A, &b, &cones, live_settings(r));
    let scaled_ok = solve_observed(&mut solver);
    let symmetric = solver.cones.is_symmetric();
    let mut stages = vec![];
    // nonsymmetric start: no KKT update has happened before the first pass of the loop, the
    // Hs / expansion entries still hold their structural zeros
    let never_updated = solver.solution.iterations == 0 && !symmetric;
    if never_updated {
        stages.push("first:never-updated".to_string());
    } else if !scaled_ok {
        stages.push("first:ended-on-failed-scaling".to_string());
    } else {
        if let Err(e) = check_live_state(&mut solver, r, "first", true) {
            return format!("FAIL {}", e).replace(' ', "_");
        }
        stages.push(format!("first:{:?}:{}", solver.solution.status, solver.solution.iterations));
    }
    if resolve == "none" {
        return format!("ok {}", stages.join(","));
    }
    // data of the re-solve
    let (mut P2, mut A2, mut q2, mut b2) = (P.clone(), A.clone(), q.clone(), b.clone());
    if resolve == "update" {
        let (fp, fa) = (r.f("fp"), r.fs("fa"));
        P2.nzval.iter_mut().for_each(|x| *x *= fp);
        A2.nzval.iter_mut().zip(fa.iter().cycle()).for_each(|(x, f)| *x *= *f);
        q2.iter_mut().for_each(|x| *x *= fp);
        b2.iter_mut().zip(fa.iter().cycle()).for_each(|(x, f)| *x += 0.25 * *f);
        if solver.update_P(&P2.nzval).is_err() || solver.update_A(&A2.nzval).is_err()
            || solver.update_q(&q2).is_err() || solver.update_b(&b2).is_err()
        {
            return "FAIL data-update-rejected".into();
        }
    }
    // re-solve stopped right after default_start
    solver.settings.max_iter = 0;
    solver.solve();
    // (a nonsymmetric restart does not touch cones or KKT: it inherits the end state above)
    if !(never_updated && !symmetric) && (symmetric || scaled_ok) {
        // `update_P` writes the raw P diagonal into the LDL engine's copy; `±ε` is re-applied
        // by the next `regularize_and_refactor`, which a nonsymmetric `default_start` does not run
        let refactored = symmetric || resolve != "update";
        if let Err(e) = check_live_state(&mut solver, r, "restart", refactored) {
            return format!("FAIL {}", e).replace(' ', "_");
        }
    }
    stages.push("restart".to_string());
    // the restarted state is the state of a fresh solver on the same data (internal data is
    // the same only without equilibration once the data was updated in place)
    if symmetric && (resolve == "again" || !r.b("equil")) {
        let mut st = live_settings(r);
        st.max_iter = 0;
        let mut fresh = DefaultSolver::<f64>::new(&P2, &q2, &A2, &b2, &cones, st);
        fresh.solve();
        let (v1, v2) = (solver.kktsystem.verif_kkt_view().unwrap(), fresh.kktsystem.verif_kkt_view().unwrap());
        for k in 0..v1.KKT.nnz() {
            let (x, y) = (v1.KKT.nzval[k], v2.KKT.nzval[k]);
            if x.to_bits() != y.to_bits() && !(x.is_nan() && y.is_nan()) {
                return format!(
                    "FAIL stage=restart :: KKT.nzval[{}] = {:e} on the re-solved solver but {:e} on a fresh solver at the same point (state of the previous solve leaks)",
                    k, x, y
                )
                .replace(' ', "_");
            }
        }
        stages.push("restart=fresh".to_string());
    }
    // full re-solve
    solver.settings.max_iter = (r.u("maxiter") as u32).max(3);
    let scaled_ok2 = solve_observed(&mut solver);
    if !(solver.solution.iterations == 0 && !symmetric && never_updated) && scaled_ok2 {
        if let Err(e) = check_live_state(&mut solver, r, "second", true) {
            return format!("FAIL {}", e).replace(' ', "_");
        }
    }
    stages.push(format!("second:{:?}:{}", solver.solution.status, solver.solution.iterations));
    format!("ok {}", stages.join(","))
}
fn oracle_live(_r: &Req, out: &str) -> Result<(), String> {
    if out.starts_with("ok ") { Ok(()) } else { Err(out.to_string()) }
}

// ------------------------------------------------------------------ channel table

fn channels() -> Vec<Channel> {
    let mut v = vec![
        Channel { name: "kkt.assemble", tol: Tol::Exact, run: run_assemble, oracle: Some(oracle_assemble), modelled: true,
            rust_fn: "assemble_kkt_matrix / LDLDataMap::new (allocate_kkt_Hsblocks) / _fill_signs / csc_{colcount,fill}_sparsecone = csc_colcount_sparsecone, csc_fill_sparsecone (SOC and genpow expansion maps; to_sparse_expansion, recover_map / recover_map_mut select the cone and its map; the map is read back through the hook plain_map)",
            lean: "Kkt.assembleKktMatrix, Kkt.fillSigns / C11.signs, C11.assembly_*" },
        Channel { name: "kkt.update", tol: Tol::Exact, run: run_update, oracle: Some(oracle_update), modelled: true,
            rust_fn: "DirectLDLKKTSolver::{new,update,regularize_and_refactor} / _update_values, _update_values_KKT, _scale_values, _scale_values_KKT / csc_update_sparsecone (recover_map) / get_Hs",
            lean: "Kkt.updateValues, Kkt.regularizeAndRestore / C11.refinement_copy_clean, C11.soc_expansion, C11.genpow_expansion" },
        Channel { name: "kkt.get_hs", tol: Tol::Exact, run: run_get_hs, oracle: Some(oracle_get_hs), modelled: true,
            rust_fn: "Cone::get_Hs (zero, nonnegative, second-order dense/sparse, genpow)", lean: "Kkt.getHs" },
        Channel { name: "kkt.passes", tol: Tol::Exact, run: run_passes, oracle: Some(oracle_passes), modelled: true,
            rust_fn: "DirectLDLKKTSolver::update called once per pass of the loop on one solver object (2-4 passes)",
            lean: "Kkt.runPasses, Kkt.updatePass / C11.pass_history_independent, C11.passes_last_is_fresh, C11.passes_keep_PA" },
        Channel { name: "kkt.cone_ranges", tol: Tol::Exact, run: run_cone_ranges, oracle: Some(oracle_cone_ranges), modelled: true,
            rust_fn: "compositecone::make_rng_cones / make_rng_blocks (CompositeCone::new), supportedcone::rng_cones_iter (RangeSupportedConesIterator::next), kkt_assembly::allocate_kkt_Hsblocks (length)",
            lean: "Kkt.makeRngCones, Kkt.makeRngBlocks, Kkt.rngConesIter, Kkt.allocateKktHsblocksLen (KktRanges.lean) / C11.cone_ranges_*" },
        Channel { name: "kkt.live", tol: Tol::Exact, run: run_live, oracle: Some(oracle_live), modelled: false,
            rust_fn: "DefaultSolver::solve -> DirectLDLKKTSolver state; DirectLDLKKTSolver::new picks the backend and the triangle through get_ldlsolver_config (direct_solve_method qdldl / auto / faer; each backend's required_matrix_shape is Triu): the oracle checks the live KKT matrix against the upper-triangle layout", lean: "(oracle only; the model assembles with shape triu)" },
    ];
    for (name, rust_fn) in [
        ("blk.colcount_dense_triangle", "CscMatrix::colcount_dense_triangle"),
        ("blk.colcount_diag", "CscMatrix::colcount_diag"),
        ("blk.colcount_missing_diag", "CscMatrix::colcount_missing_diag"),
        ("blk.colcount_colvec", "CscMatrix::colcount_colvec"),
        ("blk.colcount_rowvec", "CscMatrix::colcount_rowvec"),
        ("blk.colcount_block", "CscMatrix::colcount_block"),
        ("blk.fill_colvec", "CscMatrix::fill_colvec"),
        ("blk.fill_rowvec", "CscMatrix::fill_rowvec"),
        ("blk.fill_block", "CscMatrix::fill_block"),
        ("blk.fill_dense_triangle", "CscMatrix::fill_dense_triangle (both arms: _fill_dense_triangle_triu / _fill_dense_triangle_tril)"),
        ("blk.fill_diag", "CscMatrix::fill_diag"),
        ("blk.fill_missing_diag", "CscMatrix::fill_missing_diag"),
        ("blk.colcount_to_colptr", "CscMatrix::colcount_to_colptr"),
        ("blk.colptr_to_colcount", "CscMatrix::colptr_to_colcount"),
        ("blk.backshift_colptrs", "CscMatrix::backshift_colptrs"),
        ("blk.count_diagonal_entries", "CscMatrix::count_diagonal_entries"),
    ] {
        v.push(Channel { name, tol: Tol::Exact, run: run_blk, oracle: Some(oracle_blk), modelled: true, rust_fn,
            lean: "Csc.<same name> (CscBlocks.lean) / C11.placeAll_*" });
    }
    v
}

// ------------------------------------------------------------------ generators

fn cone_lists() -> Vec<Vec<CS>> {
    use CS::*;
    vec![
        vec![],
        vec![Zero(1)],
        vec![NN(1)],
        vec![Zero(2)],
        vec![NN(2)],
        vec![Soc(2)],
        vec![Zero(1), NN(1)],
        vec![Zero(3)],
        vec![NN(3)],
        vec![Soc(3)],
        vec![Exp],
        vec![Pow],
        vec![GenPow(2, 1)],
        vec![GenPow(1, 2)],
        vec![NN(1), Soc(2)],
        vec![Psd(2)],
        vec![Zero(1), NN(1), Zero(1)],
    ]
}

fn big_cone_lists() -> Vec<Vec<CS>> {
    use CS::*;
    vec![
        vec![Soc(4)],
        vec![Soc(5)],
        vec![Soc(6)],
        vec![Soc(8)],
        vec![Soc(4), Soc(5)],
        vec![Soc(5), Soc(7)],
        vec![GenPow(2, 2)],
        vec![GenPow(3, 1), GenPow(1, 1)],
        vec![Exp, Pow],
        vec![Zero(2), NN(3), Soc(3), Soc(6), Exp, GenPow(2, 1), Pow, NN(1)],
        vec![Soc(5), NN(2), GenPow(2, 2), Soc(2), Zero(1)],
        vec![GenPow(2, 1), Soc(6), Exp],
        vec![Psd(2), Soc(5), NN(1)],
        vec![Psd(3), GenPow(1, 2)],
        vec![NN(2), Psd(1), Soc(8), Zero(1)],
    ]
}

fn random_cone_list(rng: &mut Rng, allow_psd: bool) -> Vec<CS> {
    let k = 1 + rng.below(5);
    (0..k)
        .map(|_| match rng.below(if allow_psd { 8 } else { 7 }) {
            0 => CS::Zero(1 + rng.below(3)),
            1 => CS::NN(1 + rng.below(4)),
            2 => CS::Soc(2 + rng.below(3)),
            3 => CS::Soc(5 + rng.below(5)),
            4 => CS::Exp,
            5 => CS::Pow,
            6 => CS::GenPow(1 + rng.below(3), 1 + rng.below(3)),
            _ => CS::Psd(1 + rng.below(3)),
        })
        .collect()
}

fn triu_from_mask(n: usize, mask: u32, rng: &mut Rng) -> CscMatrix<f64> {
    let (mut colptr, mut rowval, mut nzval) = (vec![0], vec![], vec![]);
    let mut bit = 0;
    for c in 0..n {
        for r in 0..=c {
            if mask >> bit & 1 == 1 {
                rowval.push(r);
                nzval.push(rng.smallint(3));
            }
            bit += 1;
        }
        colptr.push(rowval.len());
    }
    CscMatrix::new(n, n, colptr, rowval, nzval)
}
fn full_from_mask(m: usize, n: usize, mask: u32, rng: &mut Rng) -> CscMatrix<f64> {
    let (mut colptr, mut rowval, mut nzval) = (vec![0], vec![], vec![]);
    for c in 0..n {
        for r in 0..m {
            if mask >> (c * m + r) & 1 == 1 {
                rowval.push(r);
                nzval.push(rng.smallint(3));
            }
        }
        colptr.push(rowval.len());
    }
    CscMatrix::new(m, n, colptr, rowval, nzval)
}

fn asm_line(P: &CscMatrix<f64>, A: &CscMatrix<f64>, cones: &[CS], triu: bool) -> String {
    Line::new("kkt.assemble")
        .csc("P", P)
        .csc("A", A)
        .s("cones", &fmt_cs(cones))
        .s("shape", if triu { "triu" } else { "tril" })
        .done()
}

fn gen_assemble(s: &mut Session) {
    let small = cone_lists();
    let big = big_cone_lists();
    if !s.is_searching() {
        // (a) every triu pattern of P (n<=3) x every cone list, A random
        for cones in small.iter().chain(big.iter()) {
            let m: usize = cones.iter().map(|c| c.numel()).sum();
            for n in 0..=3usize {
                let cells = n * (n + 1) / 2;
                for mask in 0u32..(1 << cells) {
                    let P = triu_from_mask(n, mask, &mut s.rng);
                    let dens = *s.rng.choose(&[0.0, 0.3, 0.7, 1.0]);
                    let A = gen::csc(&mut s.rng, m, n, dens, Vals::SmallInt(3));
                    for triu in [true, false] {
                        s.submit(asm_line(&P, &A, cones, triu));
                    }
                }
            }
            s.count("asm:all-P-patterns");
        }
        // (b) every pattern of A (m<=3, n<=3; thorough: every P pattern as well)
        for cones in small.iter() {
            let m: usize = cones.iter().map(|c| c.numel()).sum();
            for n in 0..=3usize {
                if m * n > 9 {
                    continue;
                }
                let pcells = n * (n + 1) / 2;
                for amask in 0u32..(1 << (m * n)) {
                    let pmasks: Vec<u32> = if (s.thorough() && pcells <= 3) || pcells <= 1 {
                        (0..(1u32 << pcells)).collect()
                    } else if s.thorough() {
                        (0..6).map(|_| s.rng.below(1 << pcells) as u32).collect()
                    } else {
                        vec![s.rng.below(1 << pcells) as u32]
                    };
                    for pm in pmasks {
                        let P = triu_from_mask(n, pm, &mut s.rng);
                        let A = full_from_mask(m, n, amask, &mut s.rng);
                        let triu = if s.thorough() { vec![true, false] } else { vec![amask % 2 == 0] };
                        for t in triu {
                            s.submit(asm_line(&P, &A, cones, t));
                        }
                    }
                }
            }
            s.count("asm:all-A-patterns");
        }
    }
    // (c) random larger
    for _ in 0..s.budget(2500, 40000) {
        let cones = random_cone_list(&mut s.rng, true);
        let m: usize = cones.iter().map(|c| c.numel()).sum();
        let n = s.rng.below(9);
        let pd = *s.rng.choose(&[0.0, 0.2, 0.6, 1.0]);
        let fd = s.rng.bool(0.3);
        let P = gen::csc_triu(&mut s.rng, n, pd, fd, Vals::SmallInt(3));
        let ad = *s.rng.choose(&[0.0, 0.15, 0.5, 1.0]);
        let A = gen::csc(&mut s.rng, m, n, ad, Vals::SmallInt(3));
        let triu = s.rng.bool(0.5);
        s.submit(asm_line(&P, &A, &cones, triu));
        s.count("asm:random");
    }
    // (d) inputs outside the contract (model must follow the code; oracle skips them)
    for _ in 0..s.budget(150, 3000) {
        let mut cones = random_cone_list(&mut s.rng, false);
        let m: usize = cones.iter().map(|c| c.numel()).sum();
        let n = 1 + s.rng.below(4);
        let mut P = gen::csc_triu(&mut s.rng, n, 0.5, false, Vals::SmallInt(3));
        let mut A = gen::csc(&mut s.rng, m, n, 0.4, Vals::SmallInt(3));
        match s.rng.below(4) {
            0 => { P = gen::csc(&mut s.rng, n, n, 0.5, Vals::SmallInt(3)); } // not triu
            1 => { cones.push(CS::NN(1 + s.rng.below(2))); }                // cones longer than m
            2 => { if !cones.is_empty() { cones.pop(); } }                  // cones shorter than m
            _ => { A = gen::csc(&mut s.rng, m, n + 1, 0.4, Vals::SmallInt(3)); } // P.n != A.n
        }
        let triu = s.rng.bool(0.5);
        s.submit(asm_line(&P, &A, &cones, triu));
        s.count("asm:out-of-contract");
    }
}

/// interior points of the composite cone
fn interior_point(rng: &mut Rng, spec: &[CS], cones: &CompositeCone<f64>, wild: bool) -> (Vec<f64>, Vec<f64>) {
    let m = cones.numel();
    let (mut s, mut z) = (vec![0.0; m], vec![0.0; m]);
    cones.unit_initialization(&mut z, &mut s);
    let (rc, _) = hk::cone_ranges(cones);
    let mag = |rng: &mut Rng| if wild { 10f64.powf(rng.uniform(-4.0, 4.0)) } else { 10f64.powf(rng.uniform(-0.7, 0.7)) };
    for (ci, c) in spec.iter().enumerate() {
        let (lo, hi) = rc[ci];
        match c {
            CS::Zero(_) => {
                for i in lo..hi {
                    s[i] = 0.0;
                    z[i] = rng.normal();
                }
            }
            CS::NN(_) => {
                for i in lo..hi {
                    s[i] = mag(rng);
                    z[i] = mag(rng);
                }
            }
            CS::Soc(_) => {
                for v in [&mut s, &mut z] {
                    let sc = mag(rng);
                    let mut nrm = 0.0;
                    for i in lo + 1..hi {
                        v[i] = rng.normal() * sc;
                        nrm += v[i] * v[i];
                    }
                    // distance to the boundary from comfortable to tiny
                    let gap = if wild { 10f64.powf(rng.uniform(-6.0, 1.0)) } else { rng.uniform(0.2, 2.0) };
                    v[lo] = nrm.sqrt() * (1.0 + gap) + sc * gap;
                }
            }
            _ => {
                // nonsymmetric / PSD cones: positive multiples of the central point with a
                // small relative perturbation (stays interior)
                let (ts, tz) = (mag(rng).min(50.0).max(0.02), mag(rng).min(50.0).max(0.02));
                for i in lo..hi {
                    s[i] *= ts * (1.0 + 1e-3 * rng.uniform(-1.0, 1.0));
                    z[i] *= tz * (1.0 + 1e-3 * rng.uniform(-1.0, 1.0));
                }
            }
        }
    }
    (s, z)
}

fn psd_pattern_matrix(rng: &mut Rng, n: usize, dens: f64) -> CscMatrix<f64> {
    // symmetric diagonally dominant => PSD; returned as its upper triangle, zero rows allowed
    let mut d = vec![vec![0.0; n]; n];
    for j in 0..n {
        for i in 0..j {
            if rng.bool(dens) {
                d[i][j] = rng.smallint(3);
                d[j][i] = d[i][j];
            }
        }
    }
    let (mut colptr, mut rowval, mut nzval) = (vec![0], vec![], vec![]);
    for j in 0..n {
        let off: f64 = (0..n).map(|i| d[i][j].abs()).sum();
        for i in 0..j {
            if d[i][j] != 0.0 {
                rowval.push(i);
                nzval.push(d[i][j]);
            }
        }
        let extra = if rng.bool(0.5) { rng.below(3) as f64 } else { 0.0 };
        if off + extra > 0.0 || rng.bool(0.3) {
            rowval.push(j);
            nzval.push(off + extra);
        }
        colptr.push(rowval.len());
    }
    CscMatrix::new(n, n, colptr, rowval, nzval)
}

fn update_case(s: &mut Session, spec: &[CS], chan: &str) {
    let m: usize = spec.iter().map(|c| c.numel()).sum();
    // (an empty 0x0 KKT system is not a solver state: QDLDL rejects it)
    let n = if m == 0 { 1 + s.rng.below(5) } else { s.rng.below(6) };
    let psd = s.rng.bool(0.7);
    let wild = !psd && s.rng.bool(0.5);
    let P = if psd {
        psd_pattern_matrix(&mut s.rng, n, 0.4)
    } else {
        gen::csc_triu(&mut s.rng, n, 0.5, false, if wild { Vals::LogMag(-3.0, 3.0) } else { Vals::SmallInt(3) })
    };
    let adens = *s.rng.choose(&[0.2, 0.5, 1.0]);
    let A = gen::csc(&mut s.rng, m, n, adens, if wild { Vals::LogMag(-3.0, 3.0) } else { Vals::SmallIntNZ(3) });
    let mut cones = CompositeCone::<f64>::new(&parse_cones(&fmt_cs(spec)));
    let (sv, zv) = interior_point(&mut s.rng, spec, &cones, wild);
    let (s0, z0) = interior_point(&mut s.rng, spec, &cones, wild);
    let mu = if wild { 10f64.powf(s.rng.uniform(-8.0, 2.0)) } else { s.rng.uniform(0.1, 2.0) };
    let mu0 = s.rng.uniform(0.1, 2.0);
    let strat = if s.rng.bool(0.5) { "dual" } else { "pd" };
    // scaling history: the model can compute identity scaling for zero / nonneg / SOC lists
    let simple = spec.iter().all(|c| matches!(c, CS::Zero(_) | CS::NN(_) | CS::Soc(_)));
    let hist = if simple {
        *s.rng.choose(&["fresh", "fresh", "twice", "twice", "ident", "ident", "ident", "freshident"])
    } else {
        *s.rng.choose(&["fresh", "fresh", "twice"])
    };
    {
        let pre = Req::parse(
            &Line::new("x").fs("s", &sv).fs("z", &zv).f("mu", mu).fs("s0", &s0).fs("z0", &z0).f("mu0", mu0).s("strategy", strat).done(),
        )
        .unwrap();
        if !apply_history(&pre, hist, &mut cones, None) {
            s.count("update:scaling-failed-at-generation");
            return;
        }
    }
    // the inertia oracle factorises without dynamic regularisation: it needs a regulariser
    // well above the rounding level of the elimination (a true quasidefinite matrix with
    // eps = 1e-8 and O(1) data loses the -eps of a zero-cone row in the fill-in)
    let inertia = psd && s.rng.bool(0.6);
    let reg = inertia || s.rng.bool(0.85);
    let (rc, rp) = if inertia {
        (10f64.powf(s.rng.uniform(-4.0, -2.0)), f64::EPSILON * f64::EPSILON)
    } else if s.rng.bool(0.6) {
        (1e-8, f64::EPSILON * f64::EPSILON)
    } else {
        (10f64.powf(s.rng.uniform(-10.0, -4.0)), 10f64.powf(s.rng.uniform(-16.0, -6.0)))
    };
    let mut l = Line::new(chan)
        .csc("P", &P)
        .csc("A", &A)
        .s("cones", &fmt_cs(spec))
        .s("shape", "triu")
        .fs("s", &sv)
        .fs("z", &zv)
        .f("mu", mu)
        .fs("s0", &s0)
        .fs("z0", &z0)
        .f("mu0", mu0)
        .s("hist", hist)
        .s("strategy", strat)
        .b("reg", reg)
        .f("regconst", rc)
        .f("regprop", rp)
        .b("psd", inertia);
    l = scaling_tokens(l, &cones);
    s.submit(l.done());
    s.count(&format!("{}:{}", chan, if psd { "psd" } else if wild { "wild" } else { "indef" }));
    s.count(&format!("{}:hist={}", chan, hist));
}

/// several passes of the loop on one solver object: 2-4 interior points, one `update` each
fn passes_case(s: &mut Session, spec: &[CS]) {
    let m: usize = spec.iter().map(|c| c.numel()).sum();
    let n = if m == 0 { 1 + s.rng.below(5) } else { s.rng.below(6) };
    let wild = s.rng.bool(0.3);
    let P = if s.rng.bool(0.6) {
        psd_pattern_matrix(&mut s.rng, n, 0.4)
    } else {
        gen::csc_triu(&mut s.rng, n, 0.5, false, if wild { Vals::LogMag(-3.0, 3.0) } else { Vals::SmallInt(3) })
    };
    let adens = *s.rng.choose(&[0.2, 0.5, 1.0]);
    let A = gen::csc(&mut s.rng, m, n, adens, if wild { Vals::LogMag(-3.0, 3.0) } else { Vals::SmallIntNZ(3) });
    let mut cones = CompositeCone::<f64>::new(&parse_cones(&fmt_cs(spec)));
    let np = 2 + s.rng.below(3);
    let strat = if s.rng.bool(0.5) { "dual" } else { "pd" };
    let reg = s.rng.bool(0.85);
    let (rc, rp) = if s.rng.bool(0.6) {
        (1e-8, f64::EPSILON * f64::EPSILON)
    } else {
        (10f64.powf(s.rng.uniform(-10.0, -2.0)), 10f64.powf(s.rng.uniform(-16.0, -6.0)))
    };
    let mut l = Line::new("kkt.passes")
        .csc("P", &P)
        .csc("A", &A)
        .s("cones", &fmt_cs(spec))
        .s("shape", "triu")
        .s("strategy", strat)
        .b("reg", reg)
        .f("regconst", rc)
        .f("regprop", rp)
        .u("np", np)
        .u("nc", cones.len());
    for k in 0..np {
        // later passes are closer to the boundary / of very different magnitude now and then
        let w = wild && s.rng.bool(0.7);
        let (sv, zv) = interior_point(&mut s.rng, spec, &cones, w);
        let mu = if wild { 10f64.powf(s.rng.uniform(-8.0, 2.0)) } else { s.rng.uniform(0.1, 2.0) };
        if !cones.update_scaling(&sv, &zv, mu, strategy(strat)) {
            s.count("kkt.passes:scaling-failed-at-generation");
            return;
        }
        l = l.fs(&format!("p{}s", k), &sv).fs(&format!("p{}z", k), &zv).f(&format!("p{}mu", k), mu);
        l = scaling_tokens_pass(l, &cones, k);
    }
    s.submit(l.done());
    s.count(&format!("kkt.passes:np={}", np));
}

fn gen_passes(s: &mut Session) {
    let mut lists = cone_lists();
    lists.extend(big_cone_lists());
    for spec in lists.iter() {
        for _ in 0..s.budget(4, 40) {
            passes_case(s, spec);
        }
    }
    for _ in 0..s.budget(300, 6000) {
        let spec = random_cone_list(&mut s.rng.clone(), true);
        s.rng.next_u64();
        passes_case(s, &spec);
    }
}

fn gen_update(s: &mut Session) {
    let mut lists = cone_lists();
    lists.extend(big_cone_lists());
    for spec in lists.iter() {
        for _ in 0..s.budget(12, 100) {
            update_case(s, spec, "kkt.update");
        }
        for _ in 0..s.budget(4, 40) {
            update_case(s, spec, "kkt.get_hs");
        }
    }
    for _ in 0..s.budget(1200, 20000) {
        let spec = random_cone_list(&mut s.rng.clone(), true);
        s.rng.next_u64();
        update_case(s, &spec, "kkt.update");
    }
    for _ in 0..s.budget(400, 6000) {
        let spec = random_cone_list(&mut s.rng.clone(), true);
        s.rng.next_u64();
        update_case(s, &spec, "kkt.get_hs");
    }
}

/// counters as they are between `colcount_to_colptr` and the fills: each column has a free
/// range; `slack` extra free slots per column
fn fill_state(rng: &mut Rng, n: usize, caps: &[usize]) -> CscMatrix<f64> {
    let mut colptr = vec![0; n + 1];
    let mut acc = 0;
    for j in 0..n {
        colptr[j] = acc;
        acc += caps[j];
    }
    colptr[n] = acc;
    let rowval: Vec<usize> = (0..acc).map(|_| 90 + rng.below(9)).collect();
    let nzval: Vec<f64> = (0..acc).map(|_| 7.0).collect();
    CscMatrix { m: n, n, colptr, rowval, nzval }
}

fn gen_blk(s: &mut Session) {
    let reps = s.budget(400, 6000);
    for _ in 0..reps {
        let n = 1 + s.rng.below(7);
        // --- count state: arbitrary counters
        let mut K = CscMatrix::<f64>::spalloc((n, n), 0);
        for j in 0..=n {
            K.colptr[j] = s.rng.below(4);
        }
        let initcol = s.rng.below(n + 1);
        let blockcols = s.rng.below(n + 2 - initcol.min(n));
        for sh in ["triu", "tril"] {
            s.submit(Line::new("blk.colcount_dense_triangle").csc("K", &K).u("initcol", initcol).u("blockcols", blockcols).s("shape", sh).done());
        }
        s.submit(Line::new("blk.colcount_diag").csc("K", &K).u("initcol", initcol).u("blockcols", blockcols).done());
        let (cl, cfr, cfc) = (s.rng.below(5), s.rng.below(4), s.rng.below(n + 2));
        s.submit(Line::new("blk.colcount_colvec").csc("K", &K).u("len", cl).u("firstrow", cfr).u("firstcol", cfc).done());
        s.submit(Line::new("blk.colcount_rowvec").csc("K", &K).u("len", blockcols).u("firstrow", cfr).u("firstcol", initcol).done());
        let mn = s.rng.below(n + 1);
        let M = gen::csc_triu(&mut s.rng, mn, 0.5, false, Vals::SmallInt(2));
        let ic = s.rng.below(n + 1 - mn + 1).min(n);
        s.submit(Line::new("blk.colcount_missing_diag").csc("K", &K).csc("M", &M).u("initcol", ic).done());
        let mm = s.rng.below(5);
        let Mr = gen::csc(&mut s.rng, mm, mn, 0.5, Vals::SmallInt(2));
        for sh in ["N", "T"] {
            s.submit(Line::new("blk.colcount_block").csc("K", &K).csc("M", &Mr).u("initcol", ic).s("shape", sh).done());
        }
        s.submit(Line::new("blk.colcount_to_colptr").csc("K", &K).done());
        s.submit(Line::new("blk.backshift_colptrs").csc("K", &K).done());
        let mut Kc = K.clone();
        Kc.colptr.sort();
        s.submit(Line::new("blk.colptr_to_colcount").csc("K", &Kc).done());
        for sh in ["triu", "tril"] {
            let Msq = gen::csc(&mut s.rng, mn, mn, 0.5, Vals::SmallInt(2));
            s.submit(Line::new("blk.count_diagonal_entries").csc("K", &Msq).s("shape", sh).done());
            s.submit(Line::new("blk.count_diagonal_entries").csc("K", &M).s("shape", sh).done());
        }

        // --- fill state: free ranges per column, mostly large enough
        let roomy = s.rng.bool(0.8);
        let caps: Vec<usize> = (0..n).map(|_| if roomy { 8 } else { s.rng.below(4) }).collect();
        let Kf = fill_state(&mut s.rng, n, &caps);
        let len = s.rng.below(6);
        let map0: Vec<usize> = (0..len).map(|_| 555).collect();
        let (ir, icol) = (s.rng.below(5), s.rng.below(n + 1));
        s.submit(Line::new("blk.fill_colvec").csc("K", &Kf).us("map", &map0).u("initrow", ir).u("initcol", icol).b("disjoint", roomy).done());
        s.submit(Line::new("blk.fill_rowvec").csc("K", &Kf).us("map", &map0).u("initrow", ir).u("initcol", icol).b("disjoint", roomy).done());
        let off = s.rng.below(n + 1);
        let bd = s.rng.below(n + 2 - off.min(n)).min(4);
        let mlen = if s.rng.bool(0.85) { bd * (bd + 1) / 2 } else { s.rng.below(8) };
        let mapt: Vec<usize> = vec![777; mlen];
        for sh in ["triu", "tril"] {
            s.submit(Line::new("blk.fill_dense_triangle").csc("K", &Kf).us("map", &mapt).u("offset", off).u("blockdim", bd).s("shape", sh).b("disjoint", roomy && mlen == bd * (bd + 1) / 2).done());
        }
        let mapd: Vec<usize> = vec![333; if s.rng.bool(0.85) { bd } else { s.rng.below(5) }];
        s.submit(Line::new("blk.fill_diag").csc("K", &Kf).us("map", &mapd).u("offset", off).u("blockdim", bd).b("disjoint", roomy && mapd.len() == bd).done());
        let initcol_md = if s.rng.bool(0.8) { 0 } else { s.rng.below(3) };
        s.submit(Line::new("blk.fill_missing_diag").csc("K", &Kf).csc("M", &M).u("initcol", initcol_md).done());
        let mapb: Vec<usize> = vec![111; if s.rng.bool(0.9) { Mr.nnz() } else { s.rng.below(Mr.nnz() + 2) }];
        for sh in ["N", "T"] {
            let (r0, c0) = (s.rng.below(4), s.rng.below(3));
            s.submit(Line::new("blk.fill_block").csc("K", &Kf).csc("M", &Mr).us("map", &mapb).u("initrow", r0).u("initcol", c0).s("shape", sh).b("disjoint", roomy && mapb.len() == Mr.nnz()).done());
        }
    }
}

fn gen_live(s: &mut Session) {
    let mut lists = cone_lists();
    lists.extend(big_cone_lists());
    // symmetric lists with a sparse-expanded second-order cone, always re-solved: the only
    // family where `default_start` of a re-solve writes an identity scaling over the
    // expansion entries left by the previous solve
    let resolved: Vec<Vec<CS>> = vec![
        vec![CS::Soc(5)],
        vec![CS::Soc(6), CS::NN(2)],
        vec![CS::Soc(5), CS::Soc(7)],
        vec![CS::Zero(1), CS::Soc(8), CS::Soc(3)],
    ];
    let nres = resolved.len() * s.budget(6, 60);
    let total = nres + s.budget(200, 3000);
    for it0 in 0..total {
        let forced = it0 < nres;
        let it = it0.wrapping_sub(nres);
        let spec: Vec<CS> = if forced {
            resolved[it0 % resolved.len()].clone()
        } else if it < lists.len() {
            lists[it].clone()
        } else {
            random_cone_list(&mut s.rng.clone(), false)
        };
        s.rng.next_u64();
        // PSD cones in a full solve need LAPACK; structure is covered by kkt.assemble/update
        if spec.iter().any(|c| matches!(c, CS::Psd(_))) {
            continue;
        }
        let m: usize = spec.iter().map(|c| c.numel()).sum();
        let n = 1 + s.rng.below(5);
        let P = psd_pattern_matrix(&mut s.rng, n, 0.4);
        let A = gen::csc(&mut s.rng, m, n, 0.6, Vals::SmallIntNZ(3));
        // feasible by construction: b = A x0 + s0 with s0 interior
        let cones = CompositeCone::<f64>::new(&parse_cones(&fmt_cs(&spec)));
        let (s0, _z0) = interior_point(&mut s.rng, &spec, &cones, false);
        let x0 = gen::vec_of(&mut s.rng, n, Vals::SmallInt(2));
        let mut b = s0.clone();
        let Ad = gen::to_dense(&A);
        for i in 0..m {
            for j in 0..n {
                b[i] += Ad[i][j] * x0[j];
            }
        }
        let q = gen::vec_of(&mut s.rng, n, Vals::SmallInt(2));
        let method = if s.rng.bool(0.75) { "qdldl" } else { *s.rng.choose(&["auto", "faer"]) };
        let symmetric = spec.iter().all(|c| matches!(c, CS::Zero(_) | CS::NN(_) | CS::Soc(_)));
        let maxiter = if forced { *s.rng.choose(&[2usize, 5, 50]) } else if symmetric { *s.rng.choose(&[0usize, 1, 3, 50]) } else { *s.rng.choose(&[1usize, 2, 50]) };
        let (equil, reg, ir) = (s.rng.bool(0.7), s.rng.bool(0.85), s.rng.bool(0.8));
        let resolve = if forced { *s.rng.choose(&["again", "again", "update"]) } else { *s.rng.choose(&["none", "again", "again", "update"]) };
        let fp = s.rng.uniform(0.5, 2.0);
        let fa: Vec<f64> = (0..5).map(|_| s.rng.uniform(0.5, 1.5)).collect();
        s.count(&format!("live:resolve={}:{}", resolve, if symmetric { "symmetric" } else { "nonsymmetric" }));
        s.submit(
            Line::new("kkt.live")
                .s("resolve", resolve)
                .f("fp", fp)
                .fs("fa", &fa)
                .csc("P", &P)
                .csc("A", &A)
                .fs("q", &q)
                .fs("b", &b)
                .s("cones", &fmt_cs(&spec))
                .s("method", method)
                .u("maxiter", maxiter)
                .b("equil", equil)
                .b("reg", reg)
                .b("ir", ir)
                .done(),
        );
    }
}

fn gen_cone_ranges(s: &mut Session) {
    let mut lists = cone_lists();
    lists.extend(big_cone_lists());
    lists.push(vec![CS::Zero(0)]);
    lists.push(vec![CS::NN(0), CS::Soc(3), CS::Zero(0)]);
    lists.push(vec![CS::Soc(2), CS::Soc(4), CS::Soc(5), CS::Psd(1), CS::Psd(4), CS::NN(0)]);
    for _ in 0..s.budget(20, 200) {
        let l = random_cone_list(&mut s.rng, true);
        lists.push(l);
    }
    for l in lists {
        s.submit(Line::new("kkt.cone_ranges").s("cones", &fmt_cs(&l)).done());
    }
}

fn generate(s: &mut Session) {
    gen_cone_ranges(s);
    gen_live(s);
    gen_assemble(s);
    gen_blk(s);
    gen_update(s);
    gen_passes(s);
}

fn main() {
    Session::from_args("C11", channels()).run(generate)
}
