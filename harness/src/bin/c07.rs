//! C07 — iterates stay strictly inside the cones; the trajectory does not depend on the
//! iteration budget.
//!
//! Channels
//!   vars.calc_step_length  `DefaultVariables::calc_step_length` (nonnegative cone) vs `Step.calcStepLength`
//!   vars.add_step          `DefaultVariables::add_step` vs `Step.addStepVec / addStepScalar`
//!   vars.step_k            `calc_step_length` + `add_step` over a CompositeCone of all seven cone kinds
//!                          vs `StepK.calcStepLength / addStep`; oracle: the stepped point is interior
//!   loop.prefix            solves under every budget k ≤ K vs the skeleton replaying the long
//!                          run's oracle answers under budget k
//!   traj.prefix            implementation-only: bitwise prefix property of the trajectory
//!   traj.margin            implementation-only: every observed iterate is strictly interior
#![allow(non_snake_case)]
#![allow(dead_code)]
use vharness::*;

#[path = "c04.rs"]
#[allow(unused_imports)]
mod c04;
use c04::common::*;

use clarabel::algebra::*;
use clarabel::solver::*;
use clarabel::verif_hooks::cones::CompositeCone;
use clarabel::verif_hooks::observer::{self, IterSnapshot};
use vharness::gen::Vals;

// ---------------------------------------------------------------- vars.*

fn run_calc_step_length(r: &Req) -> String {
    let (z, dz, s, ds) = (r.fs("z"), r.fs("dz"), r.fs("s"), r.fs("ds"));
    let m = z.len();
    let mut vars = DefaultVariables::<f64>::new(0, m);
    let mut step = DefaultVariables::<f64>::new(0, m);
    vars.z = z;
    vars.s = s;
    vars.τ = r.f("tau");
    vars.κ = r.f("kappa");
    step.z = dz;
    step.s = ds;
    step.τ = r.f("dtau");
    step.κ = r.f("dkappa");
    let mut cones = CompositeCone::<f64>::new(&[NonnegativeConeT(m)]);
    let mut st = DefaultSettings::<f64>::default();
    st.max_step_fraction = r.f("msf");
    let a = verif_hooks_info::calc_step_length(&vars, &step, &mut cones, &st, r.b("combined"));
    // αmax is what the same function returns for a step that no cone restricts
    let mut free = DefaultVariables::<f64>::new(0, m);
    free.τ = step.τ;
    free.κ = step.κ;
    let amax = verif_hooks_info::calc_step_length(&vars, &free, &mut cones, &st, false);
    Line::out().f("alpha", a).f("amax", amax).done()
}
fn oracle_calc_step_length(r: &Req, out: &str) -> Result<(), String> {
    // safety of the step, stated directly: with fraction < 1 every component stays positive
    let rr = Req::parse(&format!("x {}", out)).ok_or("resp")?;
    let a = rr.f("alpha");
    let (z, dz, s, ds) = (r.fs("z"), r.fs("dz"), r.fs("s"), r.fs("ds"));
    let (tau, kappa, dtau, dkappa) = (r.f("tau"), r.f("kappa"), r.f("dtau"), r.f("dkappa"));
    let msf = r.f("msf");
    let all: Vec<f64> = z.iter().chain(&s).chain(&dz).chain(&ds).cloned().chain([tau, kappa, dtau, dkappa]).collect();
    if all.iter().any(|v| !v.is_finite()) || z.iter().chain(&s).any(|v| *v <= 0.0) || tau <= 0.0 || kappa <= 0.0 {
        return Ok(());
    }
    if !(0.0..=1.0).contains(&a) {
        return Err(format!("step length {} outside [0,1]", a));
    }
    if r.b("combined") && msf < 1.0 && msf > 0.0 {
        if a > msf {
            return Err(format!("combined step {} exceeds max_step_fraction {}", a, msf));
        }
        for (v, dv) in z.iter().zip(&dz).chain(s.iter().zip(&ds)).chain([(&tau, &dtau), (&kappa, &dkappa)]) {
            if v + a * dv <= 0.0 {
                return Err(format!("{} + {}·{} is not positive", v, a, dv));
            }
        }
    }
    // tightness: a longer step (by 1/msf and a bit) would leave the cone or exceed 1
    if r.b("combined") && msf > 0.0 && msf <= 1.0 {
        let full = a / msf * (1.0 + 1e-9);
        let leaves = z.iter().zip(&dz).chain(s.iter().zip(&ds)).chain([(&tau, &dtau), (&kappa, &dkappa)])
            .any(|(v, dv)| v + full * dv <= 0.0);
        if !leaves && full < 1.0 - 1e-9 {
            return Err(format!("step {} is not maximal: {} is still interior", a, full));
        }
    }
    Ok(())
}

fn run_add_step(r: &Req) -> String {
    let x = r.fs("x");
    let sz = r.fs("sv");
    let (n, m) = (x.len(), sz.len());
    let mut vars = DefaultVariables::<f64>::new(n, m);
    let mut step = DefaultVariables::<f64>::new(n, m);
    vars.x = x;
    step.x = r.fs("dx");
    vars.s = sz;
    step.s = r.fs("dsv");
    vars.z = r.fs("zv");
    step.z = r.fs("dzv");
    vars.τ = r.f("tau");
    step.τ = r.f("dtau");
    vars.κ = r.f("kappa");
    step.κ = r.f("dkappa");
    verif_hooks_info::add_step(&mut vars, &step, r.f("alpha"));
    Line::out().fs("x", &vars.x).fs("s", &vars.s).fs("z", &vars.z).f("tau", vars.τ).f("kappa", vars.κ).done()
}


// ---------------------------------------------------------------- vars.step_k

use clarabel::verif_hooks::cones::verif_hooks_expcone as hexp;
use clarabel::verif_hooks::cones::verif_hooks_genpowcone as hgp;
use clarabel::verif_hooks::cones::verif_hooks_powcone as hpow;
use clarabel::verif_hooks::cones::verif_hooks_psdcone as hpsd;
use clarabel::verif_hooks::cones::verif_hooks_psdcone_step as hpstep;
use clarabel::verif_hooks::cones::verif_hooks_socone as hsoc;
use clarabel::verif_hooks::cones::{Cone, ExponentialCone, GenPowerCone, PSDTriangleCone, PowerCone, SymmetricCone};
use clarabel::verif_hooks::step::ScalingStrategy;

/// kinds: 0 zero, 1 nonnegative, 2 second-order, 3 exponential (alpha < 0) / power, 4 PSD, 5 genpow
fn k_cone_types(r: &Req) -> Vec<SupportedConeT<f64>> {
    let (kinds, dims, alphas, gpal, gpd1) = (r.us("kinds"), r.us("dims"), r.fs("alphas"), r.fs("gpal"), r.us("gpd1"));
    let (mut ia, mut ig, mut iga) = (0, 0, 0);
    kinds.iter().zip(&dims).map(|(&k, &n)| match k {
        0 => ZeroConeT(n),
        1 => NonnegativeConeT(n),
        2 => SecondOrderConeT(n),
        3 => {
            let a = alphas[ia];
            ia += 1;
            if a < 0.0 { ExponentialConeT() } else { PowerConeT(a) }
        }
        5 => {
            let d1 = gpd1[ig];
            ig += 1;
            let al = gpal[iga..iga + d1].to_vec();
            iga += d1;
            GenPowerConeT(al, n - d1)
        }
        _ => PSDTriangleConeT(n),
    }).collect()
}
fn k_settings(r: &Req) -> DefaultSettings<f64> {
    let mut st = DefaultSettings::<f64>::default();
    st.max_step_fraction = r.f("msf");
    st.linesearch_backtrack_step = r.f("bstep");
    st.min_terminate_step_length = r.f("bamin");
    st
}
fn run_step_k(r: &Req) -> String {
    let types = k_cone_types(r);
    let mut cones = CompositeCone::<f64>::new(&types);
    let st = k_settings(r);
    let (z, s, x) = (r.fs("z"), r.fs("s"), r.fs("x"));
    let (n, m) = (x.len(), z.len());
    if !cones.update_scaling(&s, &z, 1.0, ScalingStrategy::Dual) {
        return "update_scaling=false".into();
    }
    let mut vars = DefaultVariables::<f64>::new(n, m);
    let mut step = DefaultVariables::<f64>::new(n, m);
    vars.x = x;
    vars.z = z;
    vars.s = s;
    vars.τ = r.f("tau");
    vars.κ = r.f("kappa");
    step.x = r.fs("dx");
    step.z = r.fs("dz");
    step.s = r.fs("ds");
    step.τ = r.f("dtau");
    step.κ = r.f("dkappa");
    let a = verif_hooks_info::calc_step_length(&vars, &step, &mut cones, &st, r.b("combined"));
    verif_hooks_info::add_step(&mut vars, &step, a);
    Line::out().f("alpha", a).fs("x", &vars.x).fs("s", &vars.s).fs("z", &vars.z).f("tau", vars.τ).f("kappa", vars.κ).done()
}
/// the property, stated on the implementation's response: from an interior iterate the combined
/// step is in [0, msf·min(1, ατ, ακ)] and the iterate after `add_step` is interior again
fn oracle_step_k(r: &Req, out: &str) -> Result<(), String> {
    if out.starts_with("panic") {
        return Err(out.to_string());
    }
    let o = Req::parse(&format!("x {}", out)).ok_or("resp")?;
    if !o.has("alpha") {
        return Ok(()); // update_scaling=false: never submitted
    }
    let a = o.f("alpha");
    let (z, s, dz, ds) = (r.fs("z"), r.fs("s"), r.fs("dz"), r.fs("ds"));
    let (tau, kappa, dtau, dkappa, msf) = (r.f("tau"), r.f("kappa"), r.f("dtau"), r.f("dkappa"), r.f("msf"));
    let finite = z.iter().chain(&s).chain(&dz).chain(&ds).chain([tau, kappa, dtau, dkappa].iter()).all(|v| v.is_finite());
    if !finite {
        // non-finite directions: the step length itself must still be a number
        if a.is_nan() {
            return Err("calc_step_length returned NaN".into());
        }
        return Ok(());
    }
    if !(tau > 0.0 && kappa > 0.0 && msf > 0.0 && msf < 1.0) {
        return Ok(());
    }
    let types = k_cone_types(r);
    // only from interior iterates (the generator produces them; measured with the same margin function)
    let mut off = 0;
    let mut start_ok = true;
    for c in &types {
        let k = cone_nvars(c);
        for (dual, v) in [(false, &s[off..off + k]), (true, &z[off..off + k])] {
            if let Some(mg) = margin(c, v, dual) {
                if !(mg > 1e-9) { start_ok = false; }
            }
        }
        off += k;
    }
    if !start_ok {
        return Ok(());
    }
    let ratio = |v: f64, dv: f64| if dv < 0.0 { -v / dv } else { f64::MAX };
    let amax = ratio(tau, dtau).min(ratio(kappa, dkappa)).min(1.0);
    let combined = r.b("combined");
    let cap = if combined { amax * msf } else { amax };
    if !(a >= 0.0 && a <= cap) {
        return Err(format!("step length {:e} outside [0, {:e}]", a, cap));
    }
    let nonsym = types.iter().any(|c| matches!(c, ExponentialConeT() | PowerConeT(_) | GenPowerConeT(_, _)));
    if combined && nonsym && !(a <= msf * msf) {
        return Err(format!("step length {:e} exceeds max_step_fraction^2 with a nonsymmetric cone", a));
    }
    if !combined {
        return Ok(());
    }
    let (tn, kn) = (o.f("tau"), o.f("kappa"));
    if !(tn > 0.0 && kn > 0.0) {
        return Err(format!("tau = {:e}, kappa = {:e} after the step", tn, kn));
    }
    let (zn, sn) = (o.fs("z"), o.fs("s"));
    let mut off = 0;
    for c in &types {
        let k = cone_nvars(c);
        for (dual, v, v0) in [(false, &sn[off..off + k], &s[off..off + k]), (true, &zn[off..off + k], &z[off..off + k])] {
            if let Some(mg) = margin(c, v, dual) {
                let tol = match c {
                    NonnegativeConeT(_) => 0.0,
                    SecondOrderConeT(_) => -1e-12,
                    PSDTriangleConeT(n) => {
                        // conditioning of the start point enters the eigenvalue error
                        let e0 = psd_eigs(v0, *n);
                        let (l0, m0) = (e0.iter().cloned().fold(f64::INFINITY, f64::min), e0.iter().map(|t| t.abs()).fold(0.0, f64::max));
                        -1e-12 * (m0 / l0).max(1.0)
                    }
                    _ => -1e-9,
                };
                if !(mg > tol) {
                    return Err(format!("{} {} leaves the cone: margin {:e} after step {:e}", fmt_cones(std::slice::from_ref(c)), if dual { "z" } else { "s" }, mg, a));
                }
            }
        }
        off += k;
    }
    Ok(())
}
fn psd_eigs(v: &[f64], n: usize) -> Vec<f64> {
    let mut a = vec![vec![0.0; n]; n];
    let mut idx = 0;
    for col in 0..n {
        for row in 0..=col {
            let val = if row == col { v[idx] } else { v[idx] / std::f64::consts::SQRT_2 };
            a[row][col] = val;
            a[col][row] = val;
            idx += 1;
        }
    }
    // power of the cyclic Jacobi routine above: diagonal after convergence
    let lo = min_eig(a.clone());
    let hi = -min_eig(a.iter().map(|r| r.iter().map(|t| -t).collect()).collect());
    vec![lo, hi]
}

// generators for interior points of every cone kind
fn vnrm(a: &[f64]) -> f64 {
    a.iter().map(|x| x * x).sum::<f64>().sqrt()
}
fn k_soc_interior(rng: &mut Rng, n: usize, delta: f64) -> Vec<f64> {
    let v: Vec<f64> = (0..n - 1).map(|_| if rng.bool(0.1) { 0.0 } else { rng.normal() }).collect();
    let nv = vnrm(&v);
    let mut x = vec![if nv == 0.0 { 1.0 } else { nv * (1.0 + delta) }];
    x.extend(v);
    while !(x[0] > vnrm(&x[1..])) {
        x[0] *= 1.0 + 1e-15;
    }
    x
}
fn k_dir(rng: &mut Rng, x: &[f64]) -> Vec<f64> {
    match rng.below(6) {
        0 => x.iter().map(|v| -v * (1.0 + 0.2 * rng.normal())).collect(),
        1 => vec![0.0; x.len()],
        2 => (0..x.len()).map(|_| rng.normal() * 10.0).collect(),
        3 => x.iter().map(|v| -v * rng.uniform(0.0, 2.0)).collect(),
        4 => (0..x.len()).map(|_| rng.normal() * 10f64.powf(rng.uniform(-6.0, 6.0))).collect(),
        _ => (0..x.len()).map(|_| rng.normal()).collect(),
    }
}
fn k_feas(al: f64, primal: bool, p: &[f64]) -> bool {
    if al < 0.0 {
        let k = ExponentialCone::<f64>::new();
        if primal { hexp::is_primal_feasible(&k, p) } else { hexp::is_dual_feasible(&k, p) }
    } else {
        let k = PowerCone::<f64>::new(al);
        if primal { hpow::is_primal_feasible(&k, p) } else { hpow::is_dual_feasible(&k, p) }
    }
}
fn k_nonsym_point(rng: &mut Rng, al: f64, primal: bool) -> Vec<f64> {
    for _ in 0..200 {
        let p: Vec<f64> = if al < 0.0 {
            if primal {
                let s2 = 10f64.powf(rng.uniform(-1.0, 1.0));
                let s1 = rng.normal();
                vec![s1, s2, s2 * (s1 / s2).exp() * (1.0 + 10f64.powf(rng.uniform(-3.0, 0.5)))]
            } else {
                let z1 = -10f64.powf(rng.uniform(-1.0, 1.0));
                let z2 = rng.normal();
                vec![z1, z2, -z1 * (z2 / z1 - 1.0).exp() * (1.0 + 10f64.powf(rng.uniform(-3.0, 0.5)))]
            }
        } else {
            let a = 10f64.powf(rng.uniform(-1.0, 1.0));
            let b = 10f64.powf(rng.uniform(-1.0, 1.0));
            let bound = if primal { a.powf(al) * b.powf(1.0 - al) } else { (a / al).powf(al) * (b / (1.0 - al)).powf(1.0 - al) };
            vec![a, b, bound * rng.uniform(-0.95, 0.95)]
        };
        if k_feas(al, primal, &p) {
            return p;
        }
    }
    if al < 0.0 { vec![-1.051383945322714, 0.556409619469370, 1.258967884768947] } else { vec![(1.0 + al).sqrt(), (2.0 - al).sqrt(), 0.0] }
}
fn k_psd_point(rng: &mut Rng, n: usize, spread: f64) -> Vec<f64> {
    let b: Vec<Vec<f64>> = (0..n).map(|_| (0..n).map(|_| rng.normal()).collect()).collect();
    let mut x = vec![];
    for col in 0..n {
        for row in 0..=col {
            let mut v: f64 = (0..n).map(|k| b[row][k] * b[col][k]).sum();
            if row == col { v += spread; x.push(v) } else { x.push((v + v) * std::f64::consts::FRAC_1_SQRT_2) }
        }
    }
    x
}
fn k_alpha_vec(rng: &mut Rng, d1: usize) -> Vec<f64> {
    loop {
        let mut a: Vec<f64> = (0..d1).map(|_| rng.uniform(0.05, 1.0)).collect();
        let sum: f64 = a.iter().sum();
        for v in a.iter_mut() { *v /= sum; }
        if d1 > 1 {
            let head: f64 = a[..d1 - 1].iter().fold(0.0, |acc, x| acc + x);
            a[d1 - 1] = 1.0 - head;
        } else {
            a[0] = 1.0;
        }
        let sum = a.iter().fold(0.0, |acc, x| acc + x);
        if a.iter().all(|&v| v > 0.0) && (1.0 - sum).abs() < f64::EPSILON * d1 as f64 * 0.5 {
            return a;
        }
    }
}
fn k_genpow_point(rng: &mut Rng, al: &[f64], d2: usize, dual: bool) -> Vec<f64> {
    let k = GenPowerCone::<f64>::new(al.to_vec(), d2);
    for _ in 0..200 {
        let u: Vec<f64> = al.iter().map(|_| 10f64.powf(rng.uniform(-1.0, 1.0))).collect();
        let bound: f64 = u.iter().zip(al).map(|(x, a)| if dual { (x / a).powf(*a) } else { x.powf(*a) }).product();
        let w: Vec<f64> = (0..d2).map(|_| rng.normal()).collect();
        let nw = vnrm(&w).max(f64::MIN_POSITIVE);
        let f = bound * rng.uniform(0.0, 0.95) / nw;
        let mut p = u.clone();
        p.extend(w.iter().map(|v| v * f));
        let ok = if dual { hgp::is_dual_feasible(&k, &p) } else { hgp::is_primal_feasible(&k, &p) };
        if ok {
            return p;
        }
    }
    let mut p: Vec<f64> = al.iter().map(|a| (1.0 + a).sqrt()).collect();
    p.extend(vec![0.0; d2]);
    p
}
/// what LAPACK contributes to `PSDTriangleCone::step_length` at `(s, z)` along `(dz, ds)`
fn k_psd_record(n: usize, sv: &[f64], z: &[f64], dz: &[f64], ds: &[f64]) -> Option<(Vec<f64>, Vec<f64>, f64, f64, bool, bool)> {
    let mut k = PSDTriangleCone::<f64>::new(n);
    if !k.update_scaling(sv, z, 1.0, ScalingStrategy::PrimalDual) {
        return None;
    }
    let len = n * (n + 1) / 2;
    let mut dzw = vec![0.0; len];
    k.mul_W(hsoc::matrix_shape(false), &mut dzw, dz, 1.0, 0.0);
    let gzok = hpstep::eigvals_ok(&mut k, &dzw);
    let (_, gz) = hpsd::step_length_component_gamma(&mut k, &dzw, 1.0);
    let mut dsw = vec![0.0; len];
    k.mul_Winv(hsoc::matrix_shape(true), &mut dsw, ds, 1.0, 0.0);
    let gsok = hpstep::eigvals_ok(&mut k, &dsw);
    let (_, gs) = hpsd::step_length_component_gamma(&mut k, &dsw, 1.0);
    Some((hpsd::R(&k).to_vec(), hpsd::Rinv(&k).to_vec(), if gzok { gz } else { 0.0 }, if gsok { gs } else { 0.0 }, gzok, gsok))
}

fn gen_step_k(s: &mut Session) {
    let ncones = 1 + s.rng.below(5);
    let (mut kinds, mut dims, mut alphas, mut gpal, mut gpd1) = (vec![], vec![], vec![], vec![], vec![]);
    let (mut z, mut sv, mut dz, mut ds) = (vec![], vec![], vec![], vec![]);
    let (mut psdg, mut psdok, mut psd_r, mut psd_ri): (Vec<f64>, Vec<usize>, Vec<f64>, Vec<f64>) = (vec![], vec![], vec![], vec![]);
    let symmetric_only = s.rng.bool(0.3);
    for _ in 0..ncones {
        let kind = if symmetric_only { *s.rng.choose(&[0usize, 1, 1, 2, 2, 4]) } else { *s.rng.choose(&[0usize, 1, 2, 3, 3, 4, 5]) };
        match kind {
            0 => {
                let n = s.rng.below(3);
                kinds.push(0);
                dims.push(n);
                for _ in 0..n {
                    z.push(s.rng.normal());
                    sv.push(0.0);
                    dz.push(s.rng.normal());
                    ds.push(if s.rng.bool(0.5) { 0.0 } else { s.rng.normal() });
                }
            }
            1 => {
                let n = 1 + s.rng.below(3);
                kinds.push(1);
                dims.push(n);
                for _ in 0..n {
                    let (a, b) = (10f64.powf(s.rng.uniform(-3.0, 3.0)), 10f64.powf(s.rng.uniform(-3.0, 3.0)));
                    z.push(a);
                    sv.push(b);
                    dz.push(if s.rng.bool(0.3) { -a * s.rng.uniform(0.5, 3.0) } else { s.rng.normal() });
                    ds.push(if s.rng.bool(0.3) { -b * s.rng.uniform(0.5, 3.0) } else { s.rng.normal() });
                }
            }
            2 => {
                let n = 2 + s.rng.below(4);
                kinds.push(2);
                dims.push(n);
                let d = *s.rng.choose(&[1e-3, 0.1, 1.0]);
                let a = k_soc_interior(&mut s.rng, n, d);
                let b = k_soc_interior(&mut s.rng, n, d);
                dz.extend(k_dir(&mut s.rng, &a));
                ds.extend(k_dir(&mut s.rng, &b));
                z.extend(a);
                sv.extend(b);
            }
            3 => {
                let al = if s.rng.bool(0.5) { -1.0 } else { *s.rng.choose(&[0.5, 0.3, 0.9]) };
                kinds.push(3);
                dims.push(3);
                alphas.push(al);
                let a = k_nonsym_point(&mut s.rng, al, false);
                let b = k_nonsym_point(&mut s.rng, al, true);
                dz.extend(k_dir(&mut s.rng, &a));
                ds.extend(k_dir(&mut s.rng, &b));
                z.extend(a);
                sv.extend(b);
            }
            4 => {
                let n = 1 + s.rng.below(3);
                kinds.push(4);
                dims.push(n);
                let sp = *s.rng.choose(&[1.0, 0.3]);
                let a = k_psd_point(&mut s.rng, n, sp);
                let b = k_psd_point(&mut s.rng, n, sp);
                let da = k_dir(&mut s.rng, &a);
                let db = k_dir(&mut s.rng, &b);
                match k_psd_record(n, &b, &a, &da, &db) {
                    Some((r, ri, gz, gs, okz, oks)) => {
                        psd_r.extend(r);
                        psd_ri.extend(ri);
                        psdg.push(gz);
                        psdg.push(gs);
                        psdok.push(okz as usize);
                        psdok.push(oks as usize);
                    }
                    None => {
                        s.count("step_k:psd-scaling-failed (skipped)");
                        return;
                    }
                }
                z.extend(a);
                sv.extend(b);
                dz.extend(da);
                ds.extend(db);
            }
            _ => {
                let d1 = 1 + s.rng.below(3);
                let d2 = 1 + s.rng.below(2);
                let al = k_alpha_vec(&mut s.rng, d1);
                kinds.push(5);
                dims.push(d1 + d2);
                let a = k_genpow_point(&mut s.rng, &al, d2, true);
                let b = k_genpow_point(&mut s.rng, &al, d2, false);
                dz.extend(k_dir(&mut s.rng, &a));
                ds.extend(k_dir(&mut s.rng, &b));
                z.extend(a);
                sv.extend(b);
                gpd1.push(d1);
                gpal.extend(al);
            }
        }
    }
    let n = s.rng.below(4);
    let x: Vec<f64> = (0..n).map(|_| dir(&mut s.rng)).collect();
    let dx: Vec<f64> = (0..n).map(|_| dir(&mut s.rng)).collect();
    let (mut tau, mut kappa, mut dtau, mut dkappa) = (pos(&mut s.rng), pos(&mut s.rng), dir(&mut s.rng), dir(&mut s.rng));
    if s.rng.bool(0.5) {
        tau = s.rng.uniform(0.1, 3.0);
        kappa = s.rng.uniform(0.1, 3.0);
    }
    // a few requests with non-finite entries in the direction (never inside a PSD block: LAPACK)
    let mut nonfinite = false;
    if s.rng.bool(0.06) {
        nonfinite = true;
        match s.rng.below(4) {
            0 => dtau = f64::NAN,
            1 => dkappa = f64::NEG_INFINITY,
            2 => { tau = tau.max(1e-3); dtau = f64::NEG_INFINITY; }
            _ => {
                let mut start = 0;
                for (&k, &d) in kinds.iter().zip(&dims) {
                    let len = if k == 4 { d * (d + 1) / 2 } else { d };
                    if k != 4 && len > 0 {
                        let i = start + s.rng.below(len);
                        let bad = *s.rng.choose(&[f64::NAN, f64::INFINITY, f64::NEG_INFINITY]);
                        if s.rng.bool(0.5) { dz[i] = bad; } else { ds[i] = bad; }
                        break;
                    }
                    start += len;
                }
            }
        }
    }
    let msf = *s.rng.choose(&[0.99, 0.99, 0.9, 0.5, 0.999]);
    let (bstep, bamin) = (*s.rng.choose(&[0.8, 0.5]), *s.rng.choose(&[1e-4, 1e-2]));
    let line = Line::new("vars.step_k").us("kinds", &kinds).us("dims", &dims).fs("alphas", &alphas)
        .fs("gpal", &gpal).us("gpd1", &gpd1).fs("psdg", &psdg).us("psdok", &psdok).fs("psdR", &psd_r).fs("psdRinv", &psd_ri)
        .fs("x", &x).fs("dx", &dx).fs("z", &z).fs("s", &sv).fs("dz", &dz).fs("ds", &ds)
        .f("tau", tau).f("kappa", kappa).f("dtau", dtau).f("dkappa", dkappa)
        .f("msf", msf).f("bstep", bstep).f("bamin", bamin).b("combined", s.rng.bool(0.8)).done();
    if s.run_impl(&line).starts_with("update_scaling=false") {
        s.count("step_k:update_scaling=false (skipped)");
        return;
    }
    s.count(if nonfinite { "step_k:non-finite-direction" } else if kinds.iter().any(|&k| k == 3 || k == 5) { "step_k:with-nonsymmetric" } else { "step_k:symmetric-only" });
    let out = s.submit(line);
    if let Some(a) = field(&out, "alpha").and_then(vharness::proto::parse_f) {
        s.count(if a == 0.0 { "step_k:alpha=0" } else if a.is_nan() { "step_k:alpha=NaN" } else { "step_k:alpha>0" });
    }
}

// ---------------------------------------------------------------- loop.prefix

fn ks_of(r: &Req) -> Vec<usize> {
    r.us("ks")
}
fn run_loop_prefix(r: &Req) -> String {
    let p = req_prob(r);
    let base = req_settings(r);
    let mut st = vec![];
    let mut it = vec![];
    let mut ps = vec![];
    for k in ks_of(r) {
        let mut s = base.clone();
        s.max_iter = k as u32;
        let o = solve_observed(&p, s);
        st.push(format!("{:?}", o.status));
        it.push(o.iterations.to_string());
        ps.push(o.passes.len().to_string());
    }
    format!("st={} it={} ps={}", st.join(","), it.join(","), ps.join(","))
}

// ---------------------------------------------------------------- traj.prefix

fn bits_eq(a: &[f64], b: &[f64]) -> bool {
    a.len() == b.len() && a.iter().zip(b).all(|(x, y)| x.to_bits() == y.to_bits())
}
fn snap_eq(a: &IterSnapshot, b: &IterSnapshot) -> bool {
    bits_eq(&a.x, &b.x) && bits_eq(&a.s, &b.s) && bits_eq(&a.z, &b.z)
        && a.tau.to_bits() == b.tau.to_bits() && a.kappa.to_bits() == b.kappa.to_bits()
        && a.mu.to_bits() == b.mu.to_bits() && a.iterations == b.iterations
        && a.res_primal.to_bits() == b.res_primal.to_bits() && a.res_dual.to_bits() == b.res_dual.to_bits()
        && a.step_length.to_bits() == b.step_length.to_bits()
}

struct Run {
    o: Observed,
    d: Vec<f64>,
    e: Vec<f64>,
    einv: Vec<f64>,
    c: f64,
    reduced: bool,
}
fn run_with_data(p: &Prob, s: DefaultSettings<f64>) -> Run {
    use clarabel::io::ConfigurablePrintTarget;
    let mut solver = DefaultSolver::new(&p.P, &p.q, &p.A, &p.b, &p.cones, s);
    solver.print_to_sink();
    let symmetric = { use clarabel::verif_hooks::cones::Cone; solver.cones.is_symmetric() };
    observer::start();
    solver.solve();
    let events = observer::take();
    let eq = &solver.data.equilibration;
    Run {
        d: eq.d.clone(), e: eq.e.clone(), einv: eq.einv.clone(), c: eq.c,
        reduced: solver.data.m != p.b.len() || solver.data.cones.len() != p.cones.len(),
        o: Observed {
            passes: passes_of(&events), status: solver.solution.status, info_status: solver.info.status,
            iterations: solver.solution.iterations, info_iterations: solver.info.iterations,
            info_step_length: solver.info.step_length, symmetric, allows_pd: true, log: String::new(),
            x: solver.solution.x.clone(), s: solver.solution.s.clone(), z: solver.solution.z.clone(),
            obj_val: solver.solution.obj_val, obj_val_dual: solver.solution.obj_val_dual,
            solve_time: solver.solution.solve_time,
        },
    }
}

/// the documented unscaling, in the operation order of `DefaultVariables::unscale`
fn unscale(run: &Run, snap: &IterSnapshot, infeasible: bool) -> (Vec<f64>, Vec<f64>, Vec<f64>) {
    let scaleinv = if infeasible { 1.0 / snap.kappa } else { 1.0 / snap.tau };
    let cinv = 1.0 / run.c;
    let x = snap.x.iter().zip(&run.d).map(|(v, d)| (v * d) * scaleinv).collect();
    let z = snap.z.iter().zip(&run.e).map(|(v, e)| (v * e) * (scaleinv * cinv)).collect();
    let s = snap.s.iter().zip(&run.einv).map(|(v, e)| (v * e) * scaleinv).collect();
    (x, s, z)
}

fn run_traj_prefix(r: &Req) -> String {
    let p = req_prob(r);
    let base = req_settings(r);
    let long = run_with_data(&p, base.clone());
    let kmax = (long.o.iterations as usize).min(r.u("kcap"));
    let mut bad: Vec<String> = vec![];
    let mut checked = 0usize;
    let mut budget_stops = 0usize;
    for k in 0..=kmax {
        let mut s = base.clone();
        s.max_iter = k as u32;
        let short = run_with_data(&p, s);
        let np = short.o.passes.len();
        if np > long.o.passes.len() {
            bad.push(format!("k={}: short run made {} passes, long run only {}", k, np, long.o.passes.len()));
            continue;
        }
        // (a) pass by pass: same iterate, same scalars, same decisions (except the last check)
        for j in 0..np {
            let (a, b) = (&short.o.passes[j], &long.o.passes[j]);
            if !snap_eq(&a.snap, &b.snap) {
                bad.push(format!("k={}: iterate of pass {} differs from the long run", k, j));
                break;
            }
            if j + 1 < np && (a.status != b.status || a.ss != b.ss || a.alpha.map(f64::to_bits) != b.alpha.map(f64::to_bits)
                || a.sm != b.sm || a.ne != b.ne || a.ip != b.ip) {
                bad.push(format!("k={}: decisions of pass {} differ from the long run", k, j));
                break;
            }
        }
        checked += np;
        if short.o.iterations as usize > k {
            bad.push(format!("k={}: {} iterations", k, short.o.iterations));
        }
        // (b) the returned point
        let last = short.o.passes.last().unwrap();
        let stopped_on_budget = last.status == "MaxIterations";
        let infeasible = format!("{:?}", short.o.status).contains("Infeasible");
        if stopped_on_budget {
            budget_stops += 1;
            if last.snap.iterations as usize != k {
                bad.push(format!("k={}: budget stop at iterations {}", k, last.snap.iterations));
            }
            if !short.reduced {
                // the k-th iterate of the LONG run, unscaled by the documented formula
                let (x, s, z) = unscale(&long, &long.o.passes[np - 1].snap, infeasible);
                if !(bits_eq(&x, &short.o.x) && bits_eq(&s, &short.o.s) && bits_eq(&z, &short.o.z)) {
                    bad.push(format!("k={}: returned point is not the unscaled k-th iterate of the long run", k));
                }
            }
        } else {
            // another verdict: the long run must have ended in the same way at the same pass
            if np != long.o.passes.len() || short.o.status != long.o.status
                || !(bits_eq(&short.o.x, &long.o.x) && bits_eq(&short.o.s, &long.o.s) && bits_eq(&short.o.z, &long.o.z)) {
                bad.push(format!("k={}: run ended with {:?} after {} passes, long run {:?} after {}", k, short.o.status, np,
                    long.o.status, long.o.passes.len()));
            }
        }
    }
    let switched = long.o.passes.iter().any(|q| q.sm.as_deref() == Some("Update(Dual)")
        || q.ip.as_deref() == Some("Update(Dual)") || q.ne.as_ref().map(|x| x.1 == "Update(Dual)").unwrap_or(false));
    format!("ok={} ks={} passes={} budgetstops={} long={:?} switched={} bad={}", bad.is_empty() as u8, kmax + 1, checked,
        budget_stops, long.o.status, switched as u8, if bad.is_empty() { "-".into() } else { bad[0].replace(' ', "_").replace('=', ":").replace(',', ";") })
}
fn oracle_traj_prefix(_r: &Req, out: &str) -> Result<(), String> {
    if out.starts_with("panic") {
        return Err(out.to_string());
    }
    if field(out, "ok") != Some("1") {
        return Err(format!("prefix property violated: {}", field(out, "bad").unwrap_or("?")));
    }
    Ok(())
}

// ---------------------------------------------------------------- traj.margin

/// smallest eigenvalue of a symmetric matrix (cyclic Jacobi)
fn min_eig(mut a: Vec<Vec<f64>>) -> f64 {
    let n = a.len();
    for _sweep in 0..60 {
        let off: f64 = (0..n).flat_map(|i| (0..n).map(move |j| (i, j))).filter(|(i, j)| i != j).map(|(i, j)| a[i][j] * a[i][j]).sum();
        let diag: f64 = (0..n).map(|i| a[i][i] * a[i][i]).sum();
        if off <= 1e-30 * diag.max(1e-300) {
            break;
        }
        for p in 0..n {
            for q in p + 1..n {
                if a[p][q] == 0.0 {
                    continue;
                }
                let theta = (a[q][q] - a[p][p]) / (2.0 * a[p][q]);
                let t = theta.signum() / (theta.abs() + (theta * theta + 1.0).sqrt());
                let t = if theta == 0.0 { 1.0 } else { t };
                let c = 1.0 / (t * t + 1.0).sqrt();
                let s = t * c;
                for k in 0..n {
                    let (akp, akq) = (a[k][p], a[k][q]);
                    a[k][p] = c * akp - s * akq;
                    a[k][q] = s * akp + c * akq;
                }
                for k in 0..n {
                    let (apk, aqk) = (a[p][k], a[q][k]);
                    a[p][k] = c * apk - s * aqk;
                    a[q][k] = s * apk + c * aqk;
                }
            }
        }
    }
    (0..n).map(|i| a[i][i]).fold(f64::INFINITY, f64::min)
}

/// relative margin of `v` in the cone (dual cone if `dual`); > 0 means strictly inside.
fn margin(c: &SupportedConeT<f64>, v: &[f64], dual: bool) -> Option<f64> {
    let nrm = v.iter().map(|x| x * x).sum::<f64>().sqrt().max(1e-300);
    Some(match c {
        ZeroConeT(_) => return None,
        NonnegativeConeT(_) => v.iter().cloned().fold(f64::INFINITY, f64::min) / nrm,
        SecondOrderConeT(_) => {
            let t: f64 = v[1..].iter().map(|x| x * x).sum::<f64>().sqrt();
            (v[0] - t) / nrm
        }
        ExponentialConeT() => {
            if !dual {
                // y·exp(x/y) < z, y > 0
                let (x, y, z) = (v[0], v[1], v[2]);
                if y <= 0.0 || z <= 0.0 { -1.0 } else { (z.ln() - (y.ln() + x / y)).min(y / nrm) }
            } else {
                // u < 0, -u·exp(v/u) < e·w
                let (u, vv, w) = (v[0], v[1], v[2]);
                if u >= 0.0 || w <= 0.0 { -1.0 } else { (1.0 + w.ln() - ((-u).ln() + vv / u)).min(-u / nrm) }
            }
        }
        PowerConeT(a) => {
            let (x, y, z) = (v[0], v[1], v[2]);
            if x <= 0.0 || y <= 0.0 { -1.0 } else {
                let lhs = if !dual { a * x.ln() + (1.0 - a) * y.ln() } else { a * (x / a).ln() + (1.0 - a) * (y / (1.0 - a)).ln() };
                (lhs - z.abs().max(1e-300).ln()).min(x.min(y) / nrm)
            }
        }
        GenPowerConeT(al, d2) => {
            let k = al.len();
            let u = &v[..k];
            let w: f64 = v[k..k + d2].iter().map(|x| x * x).sum::<f64>().sqrt();
            if u.iter().any(|x| *x <= 0.0) { -1.0 } else {
                let lhs: f64 = u.iter().zip(al).map(|(x, a)| if !dual { a * x.ln() } else { a * (x / a).ln() }).sum();
                (lhs - w.max(1e-300).ln()).min(u.iter().cloned().fold(f64::INFINITY, f64::min) / nrm)
            }
        }
        PSDTriangleConeT(n) => {
            let mut a = vec![vec![0.0; *n]; *n];
            let mut idx = 0;
            for col in 0..*n {
                for row in 0..=col {
                    let val = if row == col { v[idx] } else { v[idx] / std::f64::consts::SQRT_2 };
                    a[row][col] = val;
                    a[col][row] = val;
                    idx += 1;
                }
            }
            min_eig(a) / nrm
        }
    })
}

fn run_traj_margin(r: &Req) -> String {
    use clarabel::io::ConfigurablePrintTarget;
    let p = req_prob(r);
    let s = req_settings(r);
    let mut solver = DefaultSolver::new(&p.P, &p.q, &p.A, &p.b, &p.cones, s);
    solver.print_to_sink();
    observer::start();
    solver.solve();
    let passes = passes_of(&observer::take());
    let cones = solver.data.cones.clone();
    let mut worst = f64::INFINITY;
    let mut bad = String::from("-");
    let mut accepted_bad = String::from("-");
    for (j, q) in passes.iter().enumerate() {
        let sn = &q.snap;
        if !(sn.tau > 0.0) || !(sn.kappa > 0.0) {
            bad = format!("pass{}:tau:{:e}:kappa:{:e}", j, sn.tau, sn.kappa);
            break;
        }
        // magnitude of the numbers the iterate was formed from (internal, equilibrated data)
        let raw_scale = {
            let d = &solver.data;
            let mut ax = vec![0.0; d.b.len()];
            if sn.x.len() == d.A.n {
                for col in 0..d.A.n {
                    for kk in d.A.colptr[col]..d.A.colptr[col + 1] {
                        ax[d.A.rowval[kk]] += d.A.nzval[kk] * sn.x[col];
                    }
                }
            }
            d.b.iter().chain(ax.iter()).chain(sn.s.iter()).chain(sn.z.iter()).fold(0.0f64, |a, x| a.max(x.abs()))
        };
        let mut off = 0;
        for c in &cones {
            let k = cone_nvars(c);
            for (dual, v) in [(false, &sn.s[off..off + k]), (true, &sn.z[off..off + k])] {
                if let Some(m) = margin(c, v, dual) {
                    if m < worst { worst = m; }
                    // nonnegative cone: strict (every component is s + α·ds with α < α*, robustly
                    // positive in floating point).  Other cones: the harness's own membership
                    // computation (norms, logs, Jacobi) is only accurate to a few ulps of the
                    // vector norm, and converged iterates approach the boundary to that order.
                    // (data of magnitude 1e15..1e18: norms lose a few thousand ulps, tolerance 1e-9)
                    let tol = if matches!(c, NonnegativeConeT(_)) { 0.0 } else if r.has("extreme") { -1e-9 } else { -1e-13 };
                    // the starting point: after the shift to the interior (or the unit
                    // initialisation) every component of a nonnegative block is at least the
                    // target margin, which is at least 1 -- whatever the magnitude of the data
                    if j == 0 && matches!(c, NonnegativeConeT(_)) && bad == "-" {
                        let lo = v.iter().cloned().fold(f64::INFINITY, f64::min);
                        if !(lo >= 0.999) {
                            bad = format!("pass0:{}:{}:initial-margin:{:e}", fmt_cones(std::slice::from_ref(c)), if dual { "z" } else { "s" }, lo);
                        }
                    }
                    // starting point of the extreme-magnitude family: s = b − A x and z are formed
                    // from numbers of magnitude S = max(‖b‖∞, ‖A x‖∞) (internal data), so entries of
                    // the tail carry cancellation noise of a few ulps of S; the shift to the
                    // interior adds to s[0] only and cannot see a tail below ulp(S)/2.  "Up to
                    // rounding" is therefore measured against S here: the absolute margin may be
                    // negative by at most 1e3·ε·S (≈ 2e-13·S).  At ordinary magnitudes this is far
                    // below the relative tolerance above, at |b| ~ 1e18 it is ~ 200.
                    let nrm = v.iter().map(|x| x * x).sum::<f64>().sqrt();
                    let rounding_ok = j == 0 && r.has("extreme") && !matches!(c, NonnegativeConeT(_))
                        && m * nrm > -1e3 * f64::EPSILON * raw_scale;
                    if !(m > tol) && !rounding_ok && bad == "-" {
                        bad = format!("pass{}:{}:{}:margin:{:e}", j, fmt_cones(std::slice::from_ref(c)), if dual { "z" } else { "s" }, m);
                    }
                }
            }
            off += k;
        }
        // every accepted step length lies in (0,1]
        if q.sm.as_deref() == Some("NoUpdate") {
            let a = q.alpha.unwrap_or(f64::NAN);
            if !(a > 0.0 && a <= 1.0) && accepted_bad == "-" {
                accepted_bad = format!("pass{}:alpha:{:e}", j, a);
            }
        }
    }
    format!("passes={} worst={:e} bad={} alpha={} status={:?}", passes.len(), worst, bad, accepted_bad, solver.solution.status)
}
fn oracle_traj_margin(_r: &Req, out: &str) -> Result<(), String> {
    if out.starts_with("panic") {
        return Err(out.to_string());
    }
    if field(out, "bad") != Some("-") {
        return Err(format!("iterate not strictly interior: {}", field(out, "bad").unwrap_or("?")));
    }
    if field(out, "alpha") != Some("-") {
        return Err(format!("accepted step length outside (0,1]: {}", field(out, "alpha").unwrap_or("?")));
    }
    Ok(())
}

fn channels() -> Vec<Channel> {
    vec![
        Channel { name: "vars.calc_step_length", tol: Tol::Exact, run: run_calc_step_length, oracle: Some(oracle_calc_step_length),
            modelled: true, rust_fn: "DefaultVariables::calc_step_length + NonnegativeCone::step_length",
            lean: "Step.calcStepLength, Step.nnStepLength / C07.tau_kappa_pos, C07.interior_preserved_nn" },
        Channel { name: "vars.add_step", tol: Tol::Exact, run: run_add_step, oracle: None, modelled: true,
            rust_fn: "DefaultVariables::add_step", lean: "Step.addStepVec / addStepScalar" },
        Channel { name: "vars.step_k", tol: Tol::Exact, run: run_step_k, oracle: Some(oracle_step_k), modelled: true,
            rust_fn: "DefaultVariables::calc_step_length + CompositeCone::step_length (all cone kinds) + add_step",
            lean: "StepK.calcStepLength, StepK.addStep / C07.interior_preserved, interior_preserved_mixed, calc_step_length_nan_free" },
        Channel { name: "loop.prefix", tol: Tol::Exact, run: run_loop_prefix, oracle: None, modelled: true,
            rust_fn: "Solver::solve under max_iter = k", lean: "Loop.solve {cfg with maxIter := k} / C07.prefix" },
        Channel { name: "traj.prefix", tol: Tol::Exact, run: run_traj_prefix, oracle: Some(oracle_traj_prefix), modelled: false,
            rust_fn: "Solver::solve, DefaultVariables::unscale", lean: "C07.prefix" },
        Channel { name: "traj.margin", tol: Tol::Exact, run: run_traj_margin, oracle: Some(oracle_traj_margin), modelled: false,
            rust_fn: "calc_step_length / cone step_length / backtrack_step_to_barrier / add_step", lean: "C07.tau_kappa_pos, C07.step_in_unit" },
    ]
}

// ---------------------------------------------------------------- generators

fn problem(rng: &mut Rng) -> Prob {
    let kinds = *rng.choose(&["n", "zn", "znq", "q", "e", "p", "g", "t", "znqe", "nep", "qpg", "nqt", "nqepgt", "zt", "eg"]);
    let cones = cone_list(rng, kinds, 3);
    let n = 1 + rng.below(5);
    let pdiag = *rng.choose(&[0.0, 1.0, 1.0, 0.1]);
    let vals = *rng.choose(&[Vals::SmallInt(3), Vals::Normal, Vals::Normal]);
    let mut p = planted(rng, n, cones, pdiag, vals);
    match rng.below(8) {
        0 => { for v in p.b.iter_mut() { *v = -(v.abs() + 5.0); } }
        1 => { p.P = CscMatrix::zeros((p.q.len(), p.q.len())); }
        _ => {}
    }
    p
}

fn settings(rng: &mut Rng) -> DefaultSettings<f64> {
    let mut s = DefaultSettings::<f64>::default();
    s.verbose = false;
    s.max_iter = 60;
    s.presolve_enable = false;
    s.chordal_decomposition_enable = false;
    s.equilibrate_enable = rng.bool(0.8);
    if rng.bool(0.2) {
        s.max_step_fraction = *rng.choose(&[0.9, 0.5, 0.999]);
    }
    if rng.bool(0.15) {
        s.min_switch_step_length = *rng.choose(&[0.9, 0.5]);
    }
    if rng.bool(0.1) {
        s.linesearch_backtrack_step = 0.5;
    }
    if rng.bool(0.1) {
        s.tol_feas = 1e-13;
        s.tol_gap_abs = 1e-14;
        s.tol_gap_rel = 1e-14;
    }
    s
}

/// huge / tiny data magnitudes: the starting point (budget 0) must still be strictly interior
fn extreme_problem(rng: &mut Rng, k: usize) -> Prob {
    if k == 0 {
        // x1 + x2 <= -3e17, x >= 0
        let A = CscMatrix::new(3, 2, vec![0, 2, 4], vec![0, 1, 0, 2], vec![1.0, -1.0, 1.0, -1.0]);
        return Prob { P: CscMatrix::zeros((2, 2)), q: vec![1.0, 1.0], A, b: vec![-3e17, 0.0, 0.0], cones: vec![NonnegativeConeT(3)] };
    }
    let kinds = *rng.choose(&["n", "n", "zn", "nq", "q", "nt", "znq"]);
    let cones = cone_list(rng, kinds, 3);
    let n = 1 + rng.below(4);
    let pdiag = *rng.choose(&[0.0, 1.0]);
    let mut p = planted(rng, n, cones, pdiag, Vals::SmallInt(3));
    let e = rng.uniform(15.0, 18.0);
    let sc = 10f64.powf(if rng.bool(0.8) { e } else { -e });
    match rng.below(4) {
        0 => { for v in p.b.iter_mut() { *v = -(v.abs() + 1.0) * sc; } }
        1 => { for v in p.b.iter_mut() { if rng.bool(0.5) { *v = -(v.abs() + 1.0) * sc; } } }
        2 => { for v in p.b.iter_mut() { *v *= sc; } for v in p.q.iter_mut() { *v *= sc; } }
        _ => { for v in p.q.iter_mut() { *v = (v.abs() + 1.0) * sc; } }
    }
    p
}

fn pos(rng: &mut Rng) -> f64 {
    match rng.below(5) { 0 => 1.0, 1 => rng.logmag(-8.0, 8.0).abs(), 2 => 1e-300, _ => rng.uniform(0.01, 3.0) }
}
fn dir(rng: &mut Rng) -> f64 {
    match rng.below(6) { 0 => 0.0, 1 => -0.0, 2 => rng.logmag(-8.0, 8.0), 3 => -rng.uniform(0.0, 5.0), _ => rng.normal() }
}

fn generate(s: &mut Session) {
    for _ in 0..s.budget(1500, 60000) {
        let m = s.rng.below(6);
        let z: Vec<f64> = (0..m).map(|_| pos(&mut s.rng)).collect();
        let sv: Vec<f64> = (0..m).map(|_| pos(&mut s.rng)).collect();
        let dz: Vec<f64> = (0..m).map(|_| dir(&mut s.rng)).collect();
        let ds: Vec<f64> = (0..m).map(|_| dir(&mut s.rng)).collect();
        let l = Line::new("vars.calc_step_length")
            .f("tau", pos(&mut s.rng)).f("kappa", pos(&mut s.rng)).f("dtau", dir(&mut s.rng)).f("dkappa", dir(&mut s.rng))
            .fs("z", &z).fs("dz", &dz).fs("s", &sv).fs("ds", &ds)
            .b("combined", s.rng.bool(0.7)).f("msf", *s.rng.choose(&[0.99, 0.99, 0.5, 0.999, 1.0]));
        s.submit(l.done());
    }
    for _ in 0..s.budget(500, 20000) {
        let n = s.rng.below(6);
        let x: Vec<f64> = (0..n).map(|_| dir(&mut s.rng)).collect();
        let dx: Vec<f64> = (0..n).map(|_| dir(&mut s.rng)).collect();
        let m = s.rng.below(5);
        let sv: Vec<f64> = (0..m).map(|_| pos(&mut s.rng)).collect();
        let dsv: Vec<f64> = (0..m).map(|_| dir(&mut s.rng)).collect();
        let zv: Vec<f64> = (0..m).map(|_| pos(&mut s.rng)).collect();
        let dzv: Vec<f64> = (0..m).map(|_| dir(&mut s.rng)).collect();
        let l = Line::new("vars.add_step").fs("x", &x).fs("dx", &dx).f("tau", pos(&mut s.rng)).f("dtau", dir(&mut s.rng))
            .fs("sv", &sv).fs("dsv", &dsv).fs("zv", &zv).fs("dzv", &dzv).f("kappa", pos(&mut s.rng)).f("dkappa", dir(&mut s.rng))
            .f("alpha", *s.rng.choose(&[0.99, 1.0, 0.3, 1e-4, 0.123456789]));
        s.submit(l.done());
    }
    for _ in 0..s.budget(1500, 40000) {
        gen_step_k(s);
    }
    for k in 0..s.budget(150, 4000) {
        let mut rng = s.rng.fork();
        let p = extreme_problem(&mut rng, k);
        let mut st = settings(&mut rng);
        st.max_iter = 0;
        let l = line_settings(line_prob(Line::new("traj.margin"), &p), &st).u("extreme", 1);
        s.count("extreme-initial-point");
        s.submit(l.done());
    }
    for _ in 0..s.budget(200, 4000) {
        let mut rng = s.rng.fork();
        let p = problem(&mut rng);
        let st = settings(&mut rng);
        // trajectory oracles (implementation only)
        let mut l = line_prob(Line::new("traj.prefix"), &p);
        l = line_settings(l, &st).u("kcap", if s.thorough() { 60 } else { 14 });
        let out = s.submit(l.done());
        if field(&out, "switched") == Some("1") {
            s.count("prefix-with-strategy-switch");
        }
        if let Some(st_) = field(&out, "long") {
            s.count(&format!("prefix-long:{}", st_));
        }
        let mut l = line_prob(Line::new("traj.margin"), &p);
        l = line_settings(l, &st);
        s.submit(l.done());
        // model: the long run's oracle answers replayed under smaller budgets
        let pc = p.clone();
        let st2 = st.clone();
        if let Ok(o) = std::panic::catch_unwind(std::panic::AssertUnwindSafe(|| solve_observed(&pc, st2))) {
            let kmax = (o.iterations as usize).min(10);
            let ks: Vec<usize> = (0..=kmax).collect();
            let mut l = line_prob(Line::new("loop.prefix"), &p);
            l = line_settings(l, &st);
            l = line_oracles(l, &o).us("ks", &ks);
            s.submit(l.done());
        }
    }
}

fn main() {
    Session::from_args("C07", channels()).run(generate)
}
