//! Cone lists on the wire (format documented at the top of
//! /verif/lean/ClarabelModel/Collapse.lean):
//!
//!   z<n> | n<n> | q<n> | e | p:<float> | g:<float>;<float>;…:<dim2> | s<n>
//!
//! comma separated, floats as `x<16 hex digits>`.  Include from a bin with
//! `#[path = "common_cones.rs"] mod common_cones;`.
#![allow(dead_code)]
use clarabel::solver::SupportedConeT::{self, *};
use vharness::proto::{ff, parse_f};
use vharness::Rng;

pub fn fmt_cone(c: &SupportedConeT<f64>) -> String {
    match c {
        ZeroConeT(n) => format!("z{}", n),
        NonnegativeConeT(n) => format!("n{}", n),
        SecondOrderConeT(n) => format!("q{}", n),
        ExponentialConeT() => "e".to_string(),
        PowerConeT(a) => format!("p:{}", ff(*a)),
        GenPowerConeT(al, d) => {
            let a: Vec<String> = al.iter().map(|x| ff(*x)).collect();
            format!("g:{}:{}", a.join(";"), d)
        }
        PSDTriangleConeT(n) => format!("s{}", n),
    }
}

pub fn fmt_cones(cs: &[SupportedConeT<f64>]) -> String {
    cs.iter().map(fmt_cone).collect::<Vec<_>>().join(",")
}

pub fn parse_cone(tok: &str) -> Option<SupportedConeT<f64>> {
    if tok == "e" {
        return Some(ExponentialConeT());
    }
    let (head, rest) = tok.split_at(1);
    match head {
        "z" => rest.parse().ok().map(ZeroConeT),
        "n" => rest.parse().ok().map(NonnegativeConeT),
        "q" => rest.parse().ok().map(SecondOrderConeT),
        "s" => rest.parse().ok().map(PSDTriangleConeT),
        "p" => parse_f(rest.strip_prefix(':')?).map(PowerConeT),
        "g" => {
            let body = rest.strip_prefix(':')?;
            let (al, d) = body.rsplit_once(':')?;
            let d: usize = d.parse().ok()?;
            let mut v = vec![];
            if !al.is_empty() {
                for t in al.split(';') {
                    v.push(parse_f(t)?);
                }
            }
            Some(GenPowerConeT(v, d))
        }
        _ => None,
    }
}

pub fn parse_cones(s: &str) -> Vec<SupportedConeT<f64>> {
    if s.is_empty() {
        return vec![];
    }
    s.split(',').map(|t| parse_cone(t).unwrap_or_else(|| panic!("protocol: bad cone token {}", t))).collect()
}

pub fn nvars(c: &SupportedConeT<f64>) -> usize {
    match c {
        ZeroConeT(n) | NonnegativeConeT(n) | SecondOrderConeT(n) => *n,
        ExponentialConeT() | PowerConeT(_) => 3,
        GenPowerConeT(a, d) => a.len() + d,
        PSDTriangleConeT(n) => n * (n + 1) / 2,
    }
}

pub fn numel(cs: &[SupportedConeT<f64>]) -> usize {
    cs.iter().map(nvars).sum()
}

/// index range of every cone
pub fn ranges(cs: &[SupportedConeT<f64>]) -> Vec<std::ops::Range<usize>> {
    let mut out = vec![];
    let mut start = 0;
    for c in cs {
        let stop = start + nvars(c);
        out.push(start..stop);
        start = stop;
    }
    out
}

/// A random cone of one of the given kinds (`kinds` ⊆ "znqepgs"), dimension in `lo..=hi`
/// where that applies (PSD: matrix side in 0..=3).
pub fn random_cone(rng: &mut Rng, kinds: &str, lo: usize, hi: usize) -> SupportedConeT<f64> {
    let ks: Vec<char> = kinds.chars().collect();
    let dim = |rng: &mut Rng| lo + rng.below(hi - lo + 1);
    match *rng.choose(&ks) {
        'z' => ZeroConeT(dim(rng)),
        'n' => NonnegativeConeT(dim(rng)),
        'q' => SecondOrderConeT(dim(rng)),
        'e' => ExponentialConeT(),
        'p' => PowerConeT(*rng.choose(&[0.5, 0.3, 0.75, 0.1])),
        'g' => {
            // GenPowerCone::new asserts |1 - Σα| < ε·len/2: dyadic tables sum to 1 exactly
            let tables: [&[f64]; 6] = [&[1.0], &[0.5, 0.5], &[0.25, 0.75], &[0.125, 0.375, 0.5], &[0.75, 0.125, 0.125], &[0.3, 0.7]];
            let a = tables[rng.below(tables.len())].to_vec();
            GenPowerConeT(a, 1 + rng.below(2))
        }
        's' => PSDTriangleConeT(rng.below(4).max(lo.min(1))),
        c => panic!("unknown cone kind {}", c),
    }
}

/// cargo auto-discovers every file in src/bin as a binary; this keeps a plain
/// `cargo build` (all targets) working.  Unused when the file is included as a module.
fn main() {}
