//! C08, channel `upd.solve`: a history of `update_P / update_q / update_A / update_b / update_data`
//! interleaved with `solve()` on a real `DefaultSolver<f64>`, compared bit for bit with the Lean
//! model of the same operations on the WHOLE solver object (`ClarabelModel/SolverUpdate.lean`:
//! `Solver.new` then `Solver.runU`; driver `Driver/C08Solve.lean`).
//!
//! request : the problem `P q A b cones` and every setting exactly like `solver.rs`
//!           (`put_prob`, `Sets::put`), `perm` (AMD ordering read from a live solver built from the
//!           same data), `nops`, `op0 … op{k-1}` (`enc_op` of c08.rs for the updates, `S` = solve)
//! response: per operation `r{i}=<Result>` (update) or every token of the `observe_solve` record
//!           with its key prefixed by `s{i}.` (solve); then the state data updating touches:
//!           `P q A b` (internal), `nq nb` (what `get_normq()/get_normb()` answer now), `kP kA`
//!           (KKT values at `map.P` / `map.A`), `lPo lA` (QDLDL's permuted copy at the off-diagonal
//!           `map.P` positions and at `map.A`)
//!
//! `Sets`, `SProb`, `put_prob`, `parse_prob`, `new_solver`, `perm_of`, `observe_solve`, `status_u`,
//! `is_infeasible_u`, `tuple_fields`, `bits_eq` are copies of the private items of `solver.rs`.
#![allow(non_snake_case)]
#![allow(clippy::too_many_arguments)]
use super::*;
use crate::common_cones::{fmt_cones, parse_cones};
use clarabel::verif_hooks::observer::{self, Event};
use vharness::proto::fbs;

// ------------------------------------------------------------------------------------
// settings on the wire (copy of solver.rs)

#[derive(Clone, Debug)]
pub struct Sets {
    maxiter: u32,
    tols: [f64; 6],
    rtols: [f64; 6],
    msf: f64,
    minterm: f64,
    eq: bool,
    eqit: u32,
    eqmin: f64,
    eqmax: f64,
    sreg: bool,
    sregc: f64,
    sregp: f64,
    dyneps: f64,
    dyndelta: f64,
    ir: bool,
    irrel: f64,
    irabs: f64,
    irit: u32,
    irstop: f64,
    presolve: bool,
}

impl Default for Sets {
    fn default() -> Self {
        let d = DefaultSettings::<f64>::default();
        Sets {
            maxiter: d.max_iter,
            tols: [d.tol_gap_abs, d.tol_gap_rel, d.tol_feas, d.tol_infeas_abs, d.tol_infeas_rel, d.tol_ktratio],
            rtols: [
                d.reduced_tol_gap_abs,
                d.reduced_tol_gap_rel,
                d.reduced_tol_feas,
                d.reduced_tol_infeas_abs,
                d.reduced_tol_infeas_rel,
                d.reduced_tol_ktratio,
            ],
            msf: d.max_step_fraction,
            minterm: d.min_terminate_step_length,
            eq: d.equilibrate_enable,
            eqit: d.equilibrate_max_iter,
            eqmin: d.equilibrate_min_scaling,
            eqmax: d.equilibrate_max_scaling,
            sreg: d.static_regularization_enable,
            sregc: d.static_regularization_constant,
            sregp: d.static_regularization_proportional,
            dyneps: d.dynamic_regularization_eps,
            dyndelta: d.dynamic_regularization_delta,
            ir: d.iterative_refinement_enable,
            irrel: d.iterative_refinement_reltol,
            irabs: d.iterative_refinement_abstol,
            irit: d.iterative_refinement_max_iter,
            irstop: d.iterative_refinement_stop_ratio,
            presolve: d.presolve_enable,
        }
    }
}

impl Sets {
    fn to_settings(&self) -> DefaultSettings<f64> {
        let mut s = DefaultSettings::<f64>::default();
        s.verbose = false;
        s.direct_solve_method = "qdldl".into();
        s.chordal_decomposition_enable = false;
        s.time_limit = f64::INFINITY;
        s.max_iter = self.maxiter;
        s.tol_gap_abs = self.tols[0];
        s.tol_gap_rel = self.tols[1];
        s.tol_feas = self.tols[2];
        s.tol_infeas_abs = self.tols[3];
        s.tol_infeas_rel = self.tols[4];
        s.tol_ktratio = self.tols[5];
        s.reduced_tol_gap_abs = self.rtols[0];
        s.reduced_tol_gap_rel = self.rtols[1];
        s.reduced_tol_feas = self.rtols[2];
        s.reduced_tol_infeas_abs = self.rtols[3];
        s.reduced_tol_infeas_rel = self.rtols[4];
        s.reduced_tol_ktratio = self.rtols[5];
        s.max_step_fraction = self.msf;
        s.min_terminate_step_length = self.minterm;
        s.equilibrate_enable = self.eq;
        s.equilibrate_max_iter = self.eqit;
        s.equilibrate_min_scaling = self.eqmin;
        s.equilibrate_max_scaling = self.eqmax;
        s.static_regularization_enable = self.sreg;
        s.static_regularization_constant = self.sregc;
        s.static_regularization_proportional = self.sregp;
        s.dynamic_regularization_eps = self.dyneps;
        s.dynamic_regularization_delta = self.dyndelta;
        s.iterative_refinement_enable = self.ir;
        s.iterative_refinement_reltol = self.irrel;
        s.iterative_refinement_abstol = self.irabs;
        s.iterative_refinement_max_iter = self.irit;
        s.iterative_refinement_stop_ratio = self.irstop;
        s.presolve_enable = self.presolve;
        s
    }
    fn put(&self, l: Line) -> Line {
        l.u("maxiter", self.maxiter as usize)
            .fs("tols", &self.tols)
            .fs("rtols", &self.rtols)
            .f("msf", self.msf)
            .f("minterm", self.minterm)
            .b("eq", self.eq)
            .u("eqit", self.eqit as usize)
            .f("eqmin", self.eqmin)
            .f("eqmax", self.eqmax)
            .b("sreg", self.sreg)
            .f("sregc", self.sregc)
            .f("sregp", self.sregp)
            .f("dyneps", self.dyneps)
            .f("dyndelta", self.dyndelta)
            .b("ir", self.ir)
            .f("irrel", self.irrel)
            .f("irabs", self.irabs)
            .u("irit", self.irit as usize)
            .f("irstop", self.irstop)
            .b("presolve", self.presolve)
            .f("inf", clarabel::get_infinity())
            .f("maxval", f64::MAX)
    }
    fn parse(r: &Req) -> Sets {
        let t = r.fs("tols");
        let rt = r.fs("rtols");
        Sets {
            maxiter: r.u("maxiter") as u32,
            tols: [t[0], t[1], t[2], t[3], t[4], t[5]],
            rtols: [rt[0], rt[1], rt[2], rt[3], rt[4], rt[5]],
            msf: r.f("msf"),
            minterm: r.f("minterm"),
            eq: r.b("eq"),
            eqit: r.u("eqit") as u32,
            eqmin: r.f("eqmin"),
            eqmax: r.f("eqmax"),
            sreg: r.b("sreg"),
            sregc: r.f("sregc"),
            sregp: r.f("sregp"),
            dyneps: r.f("dyneps"),
            dyndelta: r.f("dyndelta"),
            ir: r.b("ir"),
            irrel: r.f("irrel"),
            irabs: r.f("irabs"),
            irit: r.u("irit") as u32,
            irstop: r.f("irstop"),
            presolve: r.b("presolve"),
        }
    }
}

/// `Prob` of solver.rs (c08.rs has its own `Prob`)
#[derive(Clone, Debug)]
pub struct SProb {
    P: CscMatrix<f64>,
    q: Vec<f64>,
    A: CscMatrix<f64>,
    b: Vec<f64>,
    cones: Vec<SupportedConeT<f64>>,
}

fn put_prob(l: Line, p: &SProb) -> Line {
    l.csc("P", &p.P).fs("q", &p.q).csc("A", &p.A).fs("b", &p.b).s("cones", &fmt_cones(&p.cones))
}
fn parse_prob(r: &Req) -> SProb {
    SProb { P: r.csc("P"), q: r.fs("q"), A: r.csc("A"), b: r.fs("b"), cones: parse_cones(r.str("cones")) }
}

fn new_solver(p: &SProb, st: &Sets) -> DefaultSolver<f64> {
    DefaultSolver::new(&p.P, &p.q, &p.A, &p.b, &p.cones, st.to_settings())
}

fn perm_of(solver: &DefaultSolver<f64>) -> Vec<usize> {
    solver.kktsystem.verif_ldl_perm().expect("qdldl engine exposes its ordering")
}

fn status_u(name: &str) -> usize {
    match name {
        "Unsolved" => 0,
        "Solved" => 1,
        "PrimalInfeasible" => 2,
        "DualInfeasible" => 3,
        "AlmostSolved" => 4,
        "AlmostPrimalInfeasible" => 5,
        "AlmostDualInfeasible" => 6,
        "MaxIterations" => 7,
        "MaxTime" => 8,
        "NumericalError" => 9,
        "InsufficientProgress" => 10,
        other => panic!("unknown status {}", other),
    }
}

fn is_infeasible_u(s: usize) -> bool {
    matches!(s, 2 | 3 | 5 | 6)
}

/// fields of a `Debug`-rendered tuple `(a, b, c)`
fn tuple_fields(v: &str) -> Vec<String> {
    v.trim_start_matches('(').trim_end_matches(')').split(", ").map(|s| s.to_string()).collect()
}

fn bits_eq(a: &[f64], b: &[f64]) -> bool {
    a.len() == b.len() && a.iter().zip(b).all(|(x, y)| x.to_bits() == y.to_bits() || (x.is_nan() && y.is_nan()))
}

/// run `solve()` under the observer and render every pass + the returned solution
/// (copy of `observe_solve` of solver.rs)
fn observe_solve(solver: &mut DefaultSolver<f64>) -> String {
    let perm = perm_of(solver);
    observer::start();
    solver.solve();
    let ev = observer::take();

    let mut passes: Vec<&observer::IterSnapshot> = vec![];
    let (mut dbz, mut dqx) = (vec![], vec![]);
    let (mut pdone, mut pst) = (vec![], vec![]);
    let (mut pss, mut pks) = (vec![], vec![]);
    let (mut aaff, mut sig, mut alpha) = (vec![], vec![], vec![]);
    let mut rollback = false;
    for e in &ev {
        match e {
            Event::Pass(b) => passes.push(&**b),
            Event::Scalar("dot_bz", v) => dbz.push(*v),
            Event::Scalar("dot_qx", v) => dqx.push(*v),
            Event::Scalar("alpha_aff", v) => aaff.push(*v),
            Event::Scalar("sigma", v) => sig.push(*v),
            Event::Scalar("alpha", v) => alpha.push(*v),
            Event::Scalar(_, _) => {}
            Event::Flag("isdone", v) => {
                let f = tuple_fields(v);
                pdone.push(f[0] == "true");
                pst.push(status_u(&f[1]));
            }
            Event::Flag("scaling_success", v) => pss.push(tuple_fields(v)[0] == "true"),
            Event::Flag("numerical_error", v) => pks.push(tuple_fields(v)[0] == "true"),
            Event::Flag("insufficient_progress", v) => {
                if v != "NoUpdate" {
                    rollback = true
                }
            }
            Event::Flag(_, _) => {}
        }
    }
    let cat = |f: &dyn Fn(&observer::IterSnapshot) -> &Vec<f64>| -> Vec<f64> {
        passes.iter().flat_map(|s| f(s).iter().copied()).collect()
    };
    let col = |f: &dyn Fn(&observer::IterSnapshot) -> f64| -> Vec<f64> { passes.iter().map(|s| f(s)).collect() };
    let its: Vec<usize> = passes.iter().map(|s| s.iterations as usize).collect();

    // provenance of the returned point: which recorded iterate does it un-scale?
    let eq = &solver.data.equilibration;
    let sol = &solver.solution;
    let st_u = sol.status as usize;
    let inf = is_infeasible_u(st_u);
    let mut prov = 99usize;
    for (k, ps) in passes.iter().rev().enumerate().take(3) {
        let scaleinv = if inf { 1.0 / ps.kappa } else { 1.0 / ps.tau };
        let cinv = 1.0 / eq.c;
        let x: Vec<f64> = ps.x.iter().zip(&eq.d).map(|(a, b)| (a * b) * scaleinv).collect();
        let z: Vec<f64> = ps.z.iter().zip(&eq.e).map(|(a, b)| (a * b) * (scaleinv * cinv)).collect();
        let s: Vec<f64> = ps.s.iter().zip(&eq.einv).map(|(a, b)| (a * b) * scaleinv).collect();
        if bits_eq(&x, &solver.variables.x) && bits_eq(&s, &solver.variables.s) && bits_eq(&z, &solver.variables.z) {
            prov = k;
            break;
        }
    }

    let mut out = String::new();
    let mut kv = |k: &str, v: String| {
        if !out.is_empty() {
            out.push(' ');
        }
        out.push_str(k);
        out.push('=');
        out.push_str(&v);
    };
    kv("np", passes.len().to_string());
    kv("px", ffs(&cat(&|s| &s.x)));
    kv("ps", ffs(&cat(&|s| &s.s)));
    kv("pz", ffs(&cat(&|s| &s.z)));
    kv("ptau", ffs(&col(&|s| s.tau)));
    kv("pkap", ffs(&col(&|s| s.kappa)));
    kv("pmu", ffs(&col(&|s| s.mu)));
    kv("psig", ffs(&col(&|s| s.sigma)));
    kv("pstep", ffs(&col(&|s| s.step_length)));
    kv("pit", fus(&its));
    kv("pcp", ffs(&col(&|s| s.cost_primal)));
    kv("pcd", ffs(&col(&|s| s.cost_dual)));
    kv("prp", ffs(&col(&|s| s.res_primal)));
    kv("prd", ffs(&col(&|s| s.res_dual)));
    kv("prpi", ffs(&col(&|s| s.res_primal_inf)));
    kv("prdi", ffs(&col(&|s| s.res_dual_inf)));
    kv("pga", ffs(&col(&|s| s.gap_abs)));
    kv("pgr", ffs(&col(&|s| s.gap_rel)));
    kv("pkt", ffs(&col(&|s| s.ktratio)));
    kv("pdbz", ffs(&dbz));
    kv("pdqx", ffs(&dqx));
    kv("pdone", fbs(&pdone));
    kv("pst", fus(&pst));
    kv("pss", fbs(&pss));
    kv("pks", fbs(&pks));
    kv("aaff", ffs(&aaff));
    kv("sig", ffs(&sig));
    kv("alpha", ffs(&alpha));
    kv("status", st_u.to_string());
    kv("iterations", sol.iterations.to_string());
    kv("x", ffs(&sol.x));
    kv("s", ffs(&sol.s));
    kv("z", ffs(&sol.z));
    kv("obj", ff(sol.obj_val));
    kv("objd", ff(sol.obj_val_dual));
    kv("rp", ff(sol.r_prim));
    kv("rd", ff(sol.r_dual));
    kv("imu", ff(solver.info.μ));
    kv("isig", ff(solver.info.sigma));
    kv("istep", ff(solver.info.step_length));
    kv("perm", fus(&perm));
    kv("prov", prov.to_string());
    kv("rb", (rollback as usize).to_string());
    out
}

// ------------------------------------------------------------------------------------
// operations on the wire: the update forms of `enc_op`, `S` = solve

fn enc_sop(o: &Op) -> String {
    match o {
        Op::Solve => "S".into(),
        Op::Norms => panic!("no norm query in upd.solve"),
        _ => enc_op(o),
    }
}
fn dec_sop(s: &str) -> Op {
    if s == "S" {
        Op::Solve
    } else {
        dec_op(s)
    }
}
fn sops_of_req(r: &Req) -> Vec<Op> {
    (0..r.u("nops")).map(|i| dec_sop(r.str(&format!("op{}", i)))).collect()
}

/// the state data updating touches, rendered exactly like `C08Solve.fmtState`
fn final_state(s: &mut DefaultSolver<f64>) -> String {
    let nq = s.data.verif_c08_get_normq();
    let nb = s.data.verif_c08_get_normb();
    let k = s.kktsystem.verif_c08_kkt_state().expect("kkt state");
    let ldl = k.ldl_nzval.as_ref().expect("qdldl");
    let atop = k.AtoPAPt.as_ref().expect("qdldl");
    let is_diag = |j: usize| k.map_diag_full.contains(&j);
    let kp: Vec<f64> = k.map_P.iter().map(|&j| k.kkt_nzval[j]).collect();
    let ka: Vec<f64> = k.map_A.iter().map(|&j| k.kkt_nzval[j]).collect();
    let lpo: Vec<f64> = k.map_P.iter().filter(|&&j| !is_diag(j)).map(|&j| ldl[atop[j]]).collect();
    let la: Vec<f64> = k.map_A.iter().map(|&j| ldl[atop[j]]).collect();
    format!(
        "P={} q={} A={} b={} nq={} nb={} kP={} kA={} lPo={} lA={}",
        ffs(&s.data.P.nzval),
        ffs(&s.data.q),
        ffs(&s.data.A.nzval),
        ffs(&s.data.b),
        ff(nq),
        ff(nb),
        ffs(&kp),
        ffs(&ka),
        ffs(&lpo),
        ffs(&la)
    )
}

pub fn run_solve(r: &Req) -> String {
    clarabel::set_infinity(r.f("inf"));
    let (p, st) = (parse_prob(r), Sets::parse(r));
    let mut solver = new_solver(&p, &st);
    let ops = sops_of_req(r);
    let mut out: Vec<String> = vec![];
    for (i, op) in ops.iter().enumerate() {
        if let Op::Solve = op {
            let rec = observe_solve(&mut solver);
            out.extend(rec.split(' ').filter(|t| !t.is_empty()).map(|t| format!("s{}.{}", i, t)));
        } else {
            out.push(format!("r{}={}", i, apply(&mut solver, op)));
        }
    }
    out.push(final_state(&mut solver));
    out.join(" ")
}

// ------------------------------------------------------------------------------------
// oracle

/// the tokens of the solve record of operation `i`, keys un-prefixed, in order
fn solve_record(out: &str, i: usize) -> Vec<String> {
    let pre = format!("s{}.", i);
    out.split_whitespace().filter_map(|t| t.strip_prefix(&pre).map(|x| x.to_string())).collect()
}

/// self-check of the observer (as `oracle_observer` of solver.rs) on one solve record
fn observer_check(rec: &[String]) -> Result<(), String> {
    let o = Req::parse(&format!("o {}", rec.join(" "))).ok_or("unparsable solve record")?;
    let (prov, rb, np) = (o.u("prov"), o.u("rb"), o.u("np"));
    if np == 0 {
        return Err("no pass recorded".into());
    }
    // a NaN iterate is its own provenance problem (bit patterns of NaN payloads); skip
    let nan = o.fs("x").iter().chain(o.fs("s").iter()).chain(o.fs("z").iter()).any(|v| v.is_nan());
    if nan {
        return Ok(());
    }
    let expect = if rb == 1 { 1 } else { 0 };
    if prov != expect {
        // two consecutive identical iterates are possible only with a zero step; accept
        // the earlier index then
        if !(rb == 1 && prov == 0) {
            return Err(format!("returned point is not the un-scaling of recorded iterate #{} from the end (prov={}, rollback={})", expect, prov, rb));
        }
    }
    if o.us("pit").len() != np || o.us("pst").len() != np {
        return Err("observer: pass / isdone events out of step".into());
    }
    Ok(())
}

/// (1) observer self-check of the last solve; (2) the documented `Result` of every update;
/// (3) **update-then-solve = rebuilt**: with equilibration off, no guard, no rejected pair-form
/// update, a history that ends with a solve and a final `b` below the infinity bound, the record
/// of the last solve equals — token for token, bitwise — the record of the first solve of a FRESH
/// solver built from the final user-level data with the same settings.
pub fn oracle_solve(r: &Req, out: &str) -> Result<(), String> {
    if out.starts_with("panic") || out.starts_with("err") {
        return Ok(());
    }
    let ops = sops_of_req(r);
    let o = Req::parse(&format!("o {}", out)).ok_or("unparsable response")?;
    let last_solve = ops.iter().rposition(|op| matches!(op, Op::Solve));
    if let Some(i) = last_solve {
        observer_check(&solve_record(out, i)).map_err(|e| format!("op {} (solve): {}", i, e))?;
    }
    clarabel::set_infinity(r.f("inf"));
    let inf = r.f("inf");
    let (p, st) = (parse_prob(r), Sets::parse(r));
    let probe = match std::panic::catch_unwind(std::panic::AssertUnwindSafe(|| new_solver(&p, &st))) {
        Ok(s) => s,
        Err(_) => return Ok(()),
    };
    let allowed = probe.is_data_update_allowed();
    let guard = if allowed { None } else { Some("PresolveIsActive") };
    let (patP, patA) = (probe.data.P.clone(), probe.data.A.clone());
    // user-level data tracked by plain overwrite (meaningful without guard and equilibration only;
    // the `Result` rule does not depend on the values)
    let mut u = User { P: p.P.to_triu().nzval.clone(), q: p.q.clone(), A: p.A.nzval.clone(), b: p.b.clone() };
    let mut rejected_pairs = false;
    for (i, op) in ops.iter().enumerate() {
        if let Op::Solve = op {
            continue;
        }
        let (want, _) = spec_op(op, guard, &patP, &patA, &mut u);
        let got = o.str(&format!("r{}", i));
        if got != want {
            return Err(format!("op {} ({}): result {} but the documented rule gives {}", i, enc_op(op).chars().take(40).collect::<String>(), got, want));
        }
        if want != "ok" && is_pairs_op(op) {
            rejected_pairs = true;
        }
    }
    if guard.is_some() {
        tally("upd.solve: rebuilt comparison skipped (presolve active: every update refused)");
        return Ok(());
    }
    if st.eq {
        tally("upd.solve: rebuilt comparison skipped (equilibration on: KF-C08-stale-equilibration)");
        return Ok(());
    }
    if rejected_pairs {
        tally("upd.solve: rebuilt comparison skipped (history contains a rejected pair-form update)");
        return Ok(());
    }
    let ls = match (last_solve, ops.len()) {
        (Some(i), k) if i + 1 == k => i,
        _ => {
            tally("upd.solve: rebuilt comparison skipped (history does not end with a solve)");
            return Ok(());
        }
    };
    // `new` caps b at the infinity bound (and presolve removes such rows), `update_b` does not
    if !u.b.iter().all(|v| v.is_finite() && v.abs() < 0.1 * inf) {
        tally("upd.solve: rebuilt comparison skipped (final b reaches the infinity bound, which only `new` caps)");
        return Ok(());
    }
    if u.P.len() != patP.nzval.len() || u.A.len() != patA.nzval.len() {
        return Ok(());
    }
    let fp = SProb {
        P: CscMatrix { nzval: u.P.clone(), ..patP.clone() },
        q: u.q.clone(),
        A: CscMatrix { nzval: u.A.clone(), ..patA.clone() },
        b: u.b.clone(),
        cones: p.cones.clone(),
    };
    let fresh = std::panic::catch_unwind(std::panic::AssertUnwindSafe(|| {
        let mut f = new_solver(&fp, &st);
        if f.is_data_update_allowed() {
            Some(observe_solve(&mut f))
        } else {
            None
        }
    }));
    let fresh = match fresh {
        Ok(Some(rec)) => rec,
        Ok(None) => {
            tally("upd.solve: rebuilt comparison skipped (fresh solver presolved)");
            return Ok(());
        }
        Err(_) => {
            tally("upd.solve: rebuilt comparison skipped (fresh solver panicked)");
            return Ok(());
        }
    };
    let got = solve_record(out, ls);
    let want: Vec<&str> = fresh.split(' ').filter(|t| !t.is_empty()).collect();
    tally("upd.solve: update-then-solve compared bitwise (whole trajectory) with a fresh solver on the final data");
    if got.len() != want.len() {
        return Err(format!("update-then-solve vs rebuilt: the solve record has {} tokens, the fresh solver's {}", got.len(), want.len()));
    }
    for (a, b) in got.iter().zip(want.iter()) {
        if a != b {
            let key = a.split('=').next().unwrap_or("?");
            let cut = |s: &str| s.chars().take(120).collect::<String>();
            return Err(format!(
                "update-then-solve differs from a fresh solver on the final data (equilibration off) at `{}` of solve #{}: updated {} / fresh {}",
                key, ls, cut(a), cut(b)
            ));
        }
    }
    Ok(())
}

// ------------------------------------------------------------------------------------
// generator

/// problems with zero / nonnegative / second-order cones only (SOC dims 2..8: dense (<= 4) and
/// sparse-expanded (> 4)); `P` zero / diagonal / general upper triangle
fn gen_sproblem(rng: &mut Rng) -> (SProb, Shape) {
    let pkind = rng.below(4); // 0 zero, 1 diagonal, 2|3 general triu
    let psc = *rng.choose(&[1.0, 1.0, 1e3, 1e-2]);
    let qsc = *rng.choose(&[1.0, 1.0, 1e2, 1e-1]);
    let full_diag = pkind != 0 && rng.bool(0.8);
    let n = if full_diag { 1 + rng.below(6) } else { 1 + rng.below(3) };
    let pd = if pkind >= 2 { *rng.choose(&[0.3, 0.7]) } else { 0.0 };
    let has_diag: Vec<bool> = (0..n).map(|_| pkind != 0 && (full_diag || rng.bool(0.5))).collect();
    let mut colptr = vec![0usize];
    let mut rowval = vec![];
    let mut nzval = vec![];
    for c in 0..n {
        for r in 0..=c {
            let keep = if r == c { has_diag[c] } else { has_diag[r] && has_diag[c] && rng.bool(pd) };
            if keep {
                rowval.push(r);
                nzval.push(gen_P_entry(rng, r == c, psc));
            }
        }
        colptr.push(rowval.len());
    }
    let P = CscMatrix { m: n, n, colptr, rowval, nzval };
    let mut cones = vec![];
    let mut kinds: Vec<u8> = vec![];
    let soc_first = rng.bool(0.3);
    let push_soc = |rng: &mut Rng, cones: &mut Vec<SupportedConeT<f64>>, kinds: &mut Vec<u8>| {
        let room = 13usize.saturating_sub(kinds.len());
        let d = (2 + rng.below(7)).min(room);
        if d >= 2 {
            cones.push(SupportedConeT::SecondOrderConeT(d));
            kinds.push(2);
            kinds.extend(std::iter::repeat(3).take(d - 1));
        }
    };
    if soc_first {
        push_soc(rng, &mut cones, &mut kinds);
    }
    if n >= 2 && rng.bool(0.3) {
        cones.push(SupportedConeT::ZeroConeT(1));
        kinds.push(0);
    }
    let k1 = 1 + rng.below(3);
    cones.push(SupportedConeT::NonnegativeConeT(k1));
    kinds.extend(std::iter::repeat(1).take(k1));
    if !full_diag && rng.bool(0.8) {
        // keep the feasible set bounded when P is not positive definite: a box
        cones.push(SupportedConeT::NonnegativeConeT(2 * n));
        kinds.extend(std::iter::repeat(7).take(2 * n));
    }
    if !soc_first && rng.bool(0.6) {
        push_soc(rng, &mut cones, &mut kinds);
        if rng.bool(0.2) {
            push_soc(rng, &mut cones, &mut kinds);
        }
    }
    let m = kinds.len();
    let ad = *rng.choose(&[0.4, 0.7, 1.0]);
    let mut colptr = vec![0usize];
    let mut rowval = vec![];
    let mut nzval = vec![];
    let first_box = kinds.iter().position(|&k| k == 7);
    for c in 0..n {
        for r in 0..m {
            if kinds[r] == 7 {
                let j = r - first_box.unwrap();
                if j == 2 * c || j == 2 * c + 1 {
                    rowval.push(r);
                    nzval.push(if j % 2 == 0 { 1.0 } else { -1.0 });
                }
            } else if rng.bool(ad) {
                rowval.push(r);
                nzval.push(rng.uniform(-1.0, 1.0));
            }
        }
        colptr.push(rowval.len());
    }
    let A = CscMatrix { m, n, colptr, rowval, nzval };
    let wild = rng.bool(0.1);
    let b: Vec<f64> = kinds.iter().map(|&k| if k == 7 { 5.0 } else { gen_b_entry(rng, k, wild) }).collect();
    let q: Vec<f64> = (0..n).map(|_| scaled(rng, -1.0, 1.0, qsc)).collect();
    (SProb { P, q, A, b, cones }, Shape { kinds, psc, qsc })
}

fn gen_sets(rng: &mut Rng) -> Sets {
    let mut st = Sets::default();
    st.eq = rng.bool(0.35);
    st.presolve = rng.bool(0.3);
    st.sreg = rng.bool(0.7);
    st.ir = rng.bool(0.7);
    if rng.bool(0.3) {
        st.maxiter = *rng.choose(&[0u32, 1, 2, 3, 5]);
    }
    st
}

/// value generators of the four blocks (the closures of `gen_op_with`)
struct Vals {
    diag: Vec<bool>,
    psc: f64,
    qsc: f64,
    kinds: Vec<u8>,
    arow: Vec<usize>,
    first_box: usize,
    wild: bool,
}
impl Vals {
    fn new(rng: &mut Rng, sh: &Shape, patP: &CscMatrix<f64>, patA: &CscMatrix<f64>) -> Vals {
        Vals {
            diag: diag_flags(patP),
            psc: sh.psc,
            qsc: sh.qsc,
            kinds: sh.kinds.clone(),
            arow: patA.rowval.clone(),
            first_box: sh.kinds.iter().position(|&k| k == 7).unwrap_or(0),
            wild: rng.bool(0.1),
        }
    }
    fn p(&self, rng: &mut Rng, i: usize) -> f64 {
        gen_P_entry(rng, self.diag.get(i).copied().unwrap_or(true), self.psc)
    }
    fn q(&self, rng: &mut Rng, _i: usize) -> f64 {
        scaled(rng, -1.0, 1.0, self.qsc)
    }
    fn a(&self, rng: &mut Rng, i: usize) -> f64 {
        match self.arow.get(i) {
            Some(&r) if self.kinds[r] == 7 => {
                if (r - self.first_box) % 2 == 0 { 1.0 } else { -1.0 }
            }
            _ => rng.uniform(-1.0, 1.0),
        }
    }
    fn b(&self, rng: &mut Rng, i: usize) -> f64 {
        match self.kinds.get(i) {
            Some(&7) => rng.uniform(3.0, 6.0),
            Some(&k) => gen_b_entry(rng, k, self.wild),
            None => 1.0,
        }
    }
}

/// how an argument is to be received
#[derive(Clone, Copy, PartialEq, Debug)]
enum Want {
    /// accepted, any form (may be a no-op)
    Ok,
    /// accepted and really overwriting something
    OkEffective,
    /// accepted, whole form (slice / Vec / CscMatrix), really overwriting
    OkWhole,
    /// accepted, `(index, value)` form, really overwriting
    OkPairs,
    /// rejected in a whole form (wrong length, pattern mismatch): nothing applied
    RejWhole,
    /// rejected `(index, value)` form whose bad index comes after at least one valid pair
    RejPairsPrefix,
    /// rejected `(index, value)` form (bad index anywhere)
    RejPairs,
}

fn bad_pos(i: &[usize], x: &[f64], len: usize) -> Option<usize> {
    let k = i.len().min(x.len());
    i[..k].iter().position(|&j| j >= len)
}

fn v_matches(a: &VArg, len: usize, w: Want) -> bool {
    let rej = v_rejects(a, len);
    match w {
        Want::Ok => !rej,
        Want::OkEffective => !rej && !v_noop(a),
        Want::OkWhole => !rej && !v_noop(a) && form_v(a) == 1,
        Want::OkPairs => !rej && !v_noop(a) && form_v(a) == 3,
        Want::RejWhole => rej && form_v(a) == 1,
        Want::RejPairs => rej && form_v(a) == 3,
        Want::RejPairsPrefix => match a {
            VArg::Pairs(i, x) => rej && matches!(bad_pos(i, x, len), Some(p) if p > 0),
            _ => false,
        },
    }
}
fn m_matches(a: &MArg, pat: &CscMatrix<f64>, w: Want) -> bool {
    let rej = m_rejects(a, pat);
    let whole = matches!(form_m(a), 1 | 2);
    match w {
        Want::Ok => !rej,
        Want::OkEffective => !rej && !m_noop(a) && !pat.nzval.is_empty(),
        Want::OkWhole => !rej && !m_noop(a) && whole && !pat.nzval.is_empty(),
        Want::OkPairs => !rej && !m_noop(a) && form_m(a) == 3,
        Want::RejWhole => rej && whole,
        Want::RejPairs => rej && form_m(a) == 3,
        Want::RejPairsPrefix => match a {
            MArg::Pairs(i, x) => rej && matches!(bad_pos(i, x, pat.nzval.len()), Some(p) if p > 0),
            _ => false,
        },
    }
}

/// generator context of one problem
struct Ctx {
    vals: Vals,
    patP: CscMatrix<f64>,
    patA: CscMatrix<f64>,
    n: usize,
    m: usize,
}
impl Ctx {
    fn invalid(w: Want) -> bool {
        matches!(w, Want::RejWhole | Want::RejPairs | Want::RejPairsPrefix)
    }
    /// `None` when the shape of the block cannot realise `w` (e.g. `nnz(P) = 0`)
    fn marg(&self, rng: &mut Rng, isP: bool, w: Want) -> Option<MArg> {
        let pat = if isP { &self.patP } else { &self.patA };
        for _ in 0..300 {
            let a = if isP {
                gen_marg(rng, pat, Self::invalid(w), &mut |r, i| self.vals.p(r, i))
            } else {
                gen_marg(rng, pat, Self::invalid(w), &mut |r, i| self.vals.a(r, i))
            };
            if m_matches(&a, pat, w) {
                return Some(a);
            }
        }
        None
    }
    fn varg(&self, rng: &mut Rng, isq: bool, w: Want) -> Option<VArg> {
        let len = if isq { self.n } else { self.m };
        for _ in 0..300 {
            let a = if isq {
                gen_varg(rng, len, Self::invalid(w), &mut |r, i| self.vals.q(r, i))
            } else {
                gen_varg(rng, len, Self::invalid(w), &mut |r, i| self.vals.b(r, i))
            };
            if v_matches(&a, len, w) {
                return Some(a);
            }
        }
        None
    }
    /// a single-block update of block `blk` (0 P, 1 q, 2 A, 3 b)
    fn single(&self, rng: &mut Rng, blk: usize, w: Want) -> Option<Op> {
        match blk {
            0 => self.marg(rng, true, w).map(Op::P),
            1 => self.varg(rng, true, w).map(Op::Q),
            2 => self.marg(rng, false, w).map(Op::A),
            _ => self.varg(rng, false, w).map(Op::B),
        }
    }
    fn data(&self, rng: &mut Rng, w: [Want; 4]) -> Option<Op> {
        Some(Op::D(self.marg(rng, true, w[0])?, self.varg(rng, true, w[1])?, self.marg(rng, false, w[2])?, self.varg(rng, false, w[3])?))
    }
    /// an accepted update of a random kind
    fn accepted(&self, rng: &mut Rng) -> Option<Op> {
        match rng.below(6) {
            5 => self.data(rng, [Want::Ok, Want::Ok, Want::Ok, Want::Ok]),
            4 => self.data(rng, [Want::OkEffective, Want::Ok, Want::OkEffective, Want::Ok]).or_else(|| self.data(rng, [Want::Ok; 4])),
            k => {
                let w = *rng.choose(&[Want::Ok, Want::OkEffective, Want::OkWhole, Want::OkPairs]);
                self.single(rng, k, w).or_else(|| self.single(rng, k, Want::Ok))
            }
        }
    }
}

/// `update_data` whose LATER component is rejected after an earlier MATRIX component changed
/// values; returns the call and the block (1 q, 2 A, 3 b) that was rejected
fn later_rejected(rng: &mut Rng, c: &Ctx, rej: Want) -> Option<(Op, usize)> {
    let hasP = !c.patP.nzval.is_empty();
    let hasA = !c.patA.nzval.is_empty();
    let eff = *rng.choose(&[Want::OkWhole, Want::OkEffective, Want::OkPairs]);
    let mut variants = vec![];
    if hasP {
        variants.push(0); // P changed, q rejected
        variants.push(2); // P changed, A rejected
    }
    if hasA {
        variants.push(1); // A changed, b rejected
    }
    if variants.is_empty() {
        return None;
    }
    match *rng.choose(&variants) {
        0 => c.data(rng, [eff, rej, Want::Ok, Want::Ok]).map(|o| (o, 1)),
        1 => {
            let pw = if hasP && rng.bool(0.5) { Want::OkEffective } else { Want::Ok };
            c.data(rng, [pw, Want::Ok, eff, rej]).map(|o| (o, 3))
        }
        _ => c.data(rng, [eff, Want::Ok, rej, Want::Ok]).map(|o| (o, 2)),
    }
}

const NFAM: usize = 12;

/// Family "vector: accepted update, solve, REJECTED partial update of the same vector, solve".
/// Real code: `DefaultInfo::update` calls `data.get_normq()/get_normb()` in every pass, which fills
/// the caches; the rejected partial update then changes the vector WITHOUT clearing the cache and
/// the next solve uses the stale norm.  The history model writes the caches back after every solve
/// (`Solver.solveU` = `Solver.solve` + `fillNorms`, ClarabelModel/SolverUpdate.lean; `Solver.solve`
/// itself computes the norms in `topNumerics` without storing them), so the family is compared bit for
/// bit like the others.  (`false` runs the variant `solve; rejected partial update; solve`, where the
/// cache filled by `new` is the stale one.)
const STALE_CACHE_AFTER_SOLVE_FAMILY: bool = true;

/// one history of family `fam`; `None` when the problem's shape cannot realise it
fn gen_history(rng: &mut Rng, c: &Ctx, fam: usize) -> Option<(Vec<Op>, &'static str)> {
    let mut ops = vec![];
    let pre = rng.bool(0.5);
    if pre && fam != 6 && fam != 8 {
        ops.push(Op::Solve);
    }
    let name: &'static str;
    match fam {
        0 | 10 => {
            name = "accepted-updates(all-forms)";
            for _ in 0..1 + rng.below(3) {
                ops.push(c.accepted(rng)?);
            }
            ops.push(Op::Solve);
        }
        1 => {
            name = "rejected-whole-form-update";
            if rng.bool(0.5) {
                ops.push(c.accepted(rng)?);
            }
            let blk = rng.below(4);
            ops.push(c.single(rng, blk, Want::RejWhole)?);
            ops.push(Op::Solve);
        }
        2 => {
            name = "rejected-partial-update(prefix-applied)";
            if rng.bool(0.4) {
                ops.push(c.accepted(rng)?);
            }
            let blk = rng.below(4);
            let alt = 1 + 2 * rng.below(2);
            ops.push(c.single(rng, blk, Want::RejPairsPrefix).or_else(|| c.single(rng, alt, Want::RejPairsPrefix))?);
            ops.push(Op::Solve);
        }
        3 => {
            name = "update_data:later-component-rejected(whole-form),then-solve";
            ops.push(later_rejected(rng, c, Want::RejWhole)?.0);
            ops.push(Op::Solve);
        }
        4 => {
            name = "update_data:later-component-rejected(pair-form),then-solve";
            ops.push(later_rejected(rng, c, Want::RejPairs)?.0);
            ops.push(Op::Solve);
        }
        5 | 11 => {
            // the caller repairs only the rejected part, then solves
            let w = if fam == 5 { Want::RejWhole } else { Want::RejPairs };
            name = if fam == 5 { "update_data:later-rejected(whole-form),repair-rejected-part-only,solve" } else { "update_data:later-rejected(pair-form),repair-rejected-part-only,solve" };
            let (d, blk) = later_rejected(rng, c, w)?;
            ops.push(d);
            if rng.bool(0.3) {
                ops.push(Op::Solve);
            }
            ops.push(c.single(rng, blk, Want::OkWhole)?);
            ops.push(Op::Solve);
        }
        6 => {
            name = "q-only/b-only-update-between-solves";
            ops.push(Op::Solve);
            let blk = if rng.bool(0.5) { 1 } else { 3 };
            let w = *rng.choose(&[Want::OkWhole, Want::OkPairs, Want::OkEffective]);
            ops.push(c.single(rng, blk, w)?);
            if rng.bool(0.3) {
                ops.push(c.single(rng, 4 - blk, Want::OkEffective)?);
            }
            ops.push(Op::Solve);
        }
        7 => {
            name = "no-final-solve(state-right-after-update)";
            for _ in 0..1 + rng.below(2) {
                ops.push(c.accepted(rng)?);
            }
            let blk = rng.below(4);
            let w = *rng.choose(&[Want::OkWhole, Want::OkPairs, Want::RejPairsPrefix, Want::RejWhole]);
            ops.push(c.single(rng, blk, w).or_else(|| c.single(rng, 3, w))?);
        }
        8 => {
            let blk = if rng.bool(0.5) { 1 } else { 3 };
            if STALE_CACHE_AFTER_SOLVE_FAMILY {
                name = "vector:accepted,solve,rejected-partial,solve(stale-cache-filled-by-solve)";
                ops.push(c.single(rng, blk, Want::OkEffective)?);
            } else {
                name = "vector:solve,rejected-partial,solve(stale-cache-filled-by-new)";
            }
            ops.push(Op::Solve);
            ops.push(c.single(rng, blk, Want::RejPairsPrefix)?);
            ops.push(Op::Solve);
        }
        _ => {
            name = "matrix-update-between-solves";
            if !pre {
                ops.push(Op::Solve);
            }
            let blk = if rng.bool(0.5) { 0 } else { 2 };
            let w = *rng.choose(&[Want::OkWhole, Want::OkPairs]);
            ops.push(c.single(rng, blk, w).or_else(|| c.single(rng, 2, Want::OkEffective))?);
            ops.push(Op::Solve);
        }
    }
    Some((ops, name))
}

fn request_line(p: &SProb, st: &Sets, ops: &[Op]) -> Option<String> {
    clarabel::default_infinity();
    let solver = std::panic::catch_unwind(std::panic::AssertUnwindSafe(|| new_solver(p, st))).ok()?;
    let perm = perm_of(&solver);
    let mut l = st.put(put_prob(Line::new("upd.solve"), p)).us("perm", &perm).u("nops", ops.len());
    for (i, o) in ops.iter().enumerate() {
        l = l.s(&format!("op{}", i), &enc_sop(o));
    }
    Some(l.done())
}

fn submit_solve_history(s: &mut Session, p: &SProb, st: &Sets, ops: &[Op], family: &str) {
    let Some(line) = request_line(p, st, ops) else {
        s.count("usolve:construct-panic");
        return;
    };
    s.count(&format!("family:{}", family));
    s.count(if st.eq { "usolve:equilibration-on" } else { "usolve:equilibration-off" });
    s.count(if st.sreg { "usolve:static-regularisation-on" } else { "usolve:static-regularisation-off" });
    s.count(if st.ir { "usolve:iterative-refinement-on" } else { "usolve:iterative-refinement-off" });
    s.count(if st.maxiter <= 5 { "usolve:max_iter<=5" } else { "usolve:max_iter-default" });
    if matches!(ops.first(), Some(Op::Solve)) {
        s.count("usolve:solve-before-updates");
    }
    for c in &p.cones {
        if let SupportedConeT::SecondOrderConeT(d) = c {
            s.count(if *d > 4 { "usolve:soc-sparse-expanded(dim>4)" } else { "usolve:soc-dense(dim<=4)" });
        }
    }
    s.count(if p.P.nzval.is_empty() {
        "usolve:P-zero"
    } else if (0..p.P.nzval.len()).all(|k| diag_flags(&p.P)[k]) {
        "usolve:P-diagonal"
    } else {
        "usolve:P-general-triu"
    });
    // debugging aid: `C08_DUMP_SOLVE=<file>` appends every request line of this channel
    if let Ok(path) = std::env::var("C08_DUMP_SOLVE") {
        use std::io::Write;
        if let Ok(mut f) = std::fs::OpenOptions::new().create(true).append(true).open(path) {
            let _ = writeln!(f, "{}", line);
        }
    }
    let out = s.submit(line);
    let nops = ops.len();
    for tok in out.split_whitespace() {
        if let Some((k, v)) = tok.split_once('=') {
            if k.starts_with('r') && k[1..].chars().all(|c| c.is_ascii_digit()) && !k[1..].is_empty() {
                s.count(&format!("usolve:result:{}", v));
            }
            if k == format!("s{}.status", nops.saturating_sub(1)) {
                s.count(&format!("usolve:final-status:{}", v));
            }
        }
    }
}

pub fn generate_solve(s: &mut Session) {
    let total = s.budget(150, 1500);
    let mut made = 0;
    let mut it = 0;
    while made < total && it < 20 * total + 100 {
        let k = it;
        it += 1;
        let mut rng = s.rng.fork();
        let (mut p, sh) = gen_sproblem(&mut rng);
        let mut st = gen_sets(&mut rng);
        // now and then: an infinite bound in b.  With presolve on the row is removed and every
        // update answers PresolveIsActive; with presolve off `new` caps it
        let infinite = k % 13 == 5;
        if infinite {
            let nn: Vec<usize> = (0..p.b.len()).filter(|&i| sh.kinds[i] == 1).collect();
            p.b[*rng.choose(&nn)] = *rng.choose(&[1e20, 2e20, f64::INFINITY]);
            st.presolve = rng.bool(0.75);
        }
        clarabel::default_infinity();
        let Ok(probe) = std::panic::catch_unwind(std::panic::AssertUnwindSafe(|| new_solver(&p, &st))) else {
            s.count("usolve:construct-panic");
            continue;
        };
        let (patP, patA) = (probe.data.P.clone(), probe.data.A.clone());
        let guarded_solver = !probe.is_data_update_allowed();
        // argument shapes are generated against the USER-level patterns (with presolve active the
        // internal ones are reduced, and every update is refused before its argument is looked at)
        let (patP, patA) = if guarded_solver { (p.P.clone(), p.A.clone()) } else { (patP, patA) };
        let c = Ctx { vals: Vals::new(&mut rng, &sh, &patP, &patA), n: p.q.len(), m: p.b.len(), patP, patA };
        let fam = k % NFAM;
        let Some((ops, name)) = gen_history(&mut rng, &c, fam) else {
            s.count("usolve:family-not-realisable-on-this-shape");
            continue;
        };
        let family = if infinite && guarded_solver {
            "presolve-active(infinite-bound):every-update-refused".to_string()
        } else if infinite {
            format!("infinite-bound,presolve-off:{}", name)
        } else {
            name.to_string()
        };
        submit_solve_history(s, &p, &st, &ops, &family);
        made += 1;
    }
}
