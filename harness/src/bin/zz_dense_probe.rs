use clarabel::verif_hooks::dense as d;
use d::Opnd;
fn o(m: usize, n: usize, data: Vec<f64>, shape: u8) -> Opnd { Opnd { m, n, data, view: None, shape } }
fn main() {
    let _ = vharness::Rng::new(1);
    let args: Vec<String> = std::env::args().collect();
    let m: usize = args[1].parse().unwrap();
    let n: usize = args[2].parse().unwrap();
    let kind = args[3].as_str();
    let pos: usize = args[4].parse().unwrap();
    let qr = args[5] == "qr";
    let mut a = vec![0.0; m * n];
    for j in 0..n { for i in 0..m { a[i + m * j] = 1.0 / (1.0 + i as f64 + 2.0 * j as f64) + if i == j { 2.0 } else { 0.0 }; } }
    let pos = pos.min(m * n - 1);
    match kind { "nan" => a[pos] = f64::NAN, "inf" => a[pos] = f64::INFINITY, "ninf" => a[pos] = f64::NEG_INFINITY, "max" => a[pos] = f64::MAX, "tiny" => for x in a.iter_mut() { *x *= 1e-300 }, "huge" => for x in a.iter_mut() { *x *= 1e300 }, "den" => a[pos] = 5e-324, _ => {} }
    let mut e = d::Svd::new(m, n);
    e.set_qr(qr);
    let r = e.factor(&o(m, n, a, b'N'));
    println!("{:?} {:?}", r.0, e.factors().0);
}
