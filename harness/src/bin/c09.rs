//! C09 — infinite bounds are removed and restored transparently (presolve).
#[path = "common_cones.rs"]
mod common_cones;
use clarabel::algebra::*;
use clarabel::solver::SupportedConeT::*;
use clarabel::solver::*;
use clarabel::verif_hooks::presolve as hk;
use common_cones::*;
use vharness::gen::{self, Vals};
use vharness::proto::{fbs, ff, ffs};
use vharness::*;

const EPS: f64 = f64::EPSILON;

fn thr(inf: f64) -> f64 {
    (1.0 - EPS * 10.0) * inf
}
fn next_up(x: f64) -> f64 {
    f64::from_bits(x.to_bits() + 1)
}
fn resp(out: &str) -> Req {
    Req::parse(&format!("x {}", out)).unwrap_or_else(|| Req::parse("x").unwrap())
}
/// oracles call this after their validity gates: on valid input a panic is a failure
fn no_panic(out: &str) -> Result<(), String> {
    if out.starts_with("panic") {
        Err(format!("the implementation panicked on valid input: {}", out))
    } else {
        Ok(())
    }
}

/// NN-like rows of a *user* cone list (NN, SOC(1), PSD(1)): the rows that lie in a
/// nonnegative cone of the collapsed list
fn nn_rows_user(cones: &[SupportedConeT<f64>]) -> Vec<bool> {
    let mut v = vec![];
    for c in cones {
        let nn = matches!(c, NonnegativeConeT(_) | SecondOrderConeT(1) | PSDTriangleConeT(1));
        v.extend(std::iter::repeat(nn).take(nvars(c)));
    }
    v
}
fn nn_rows_plain(cones: &[SupportedConeT<f64>]) -> Vec<bool> {
    let mut v = vec![];
    for c in cones {
        let nn = matches!(c, NonnegativeConeT(_));
        v.extend(std::iter::repeat(nn).take(nvars(c)));
    }
    v
}

fn fmt_state(st: &hk::PresolverState) -> String {
    let keep = st.0.clone().unwrap_or_default();
    Line::out().b("some", st.0.is_some()).bs("keep", &keep).u("mfull", st.1).u("mreduced", st.2).f("pinf", st.3).done()
}
fn req_state(r: &Req) -> hk::PresolverState {
    let keep = if r.b("some") { Some(r.bs("keep")) } else { None };
    (keep, r.u("mfull"), r.u("mreduced"), r.f("pinf"))
}

// ---------------------------------------------------------------- cones.new_collapsed

fn run_new_collapsed(r: &Req) -> String {
    let cones = parse_cones(r.str("cones"));
    format!("cones={}", fmt_cones(&hk::new_collapsed(&cones)))
}
fn oracle_new_collapsed(r: &Req, out: &str) -> Result<(), String> {
    let cones = parse_cones(r.str("cones"));
    no_panic(out)?;
    let o = resp(out);
    let res = parse_cones(o.str("cones"));
    if numel(&res) != numel(&cones) {
        return Err(format!("numel {} != {}", numel(&res), numel(&cones)));
    }
    for (k, c) in res.iter().enumerate() {
        if nvars(c) == 0 {
            return Err(format!("empty cone at {}", k));
        }
        if matches!(c, SecondOrderConeT(1) | PSDTriangleConeT(1)) {
            return Err(format!("singleton SOC/PSD at {}", k));
        }
        if k > 0 && matches!(c, NonnegativeConeT(_)) && matches!(res[k - 1], NonnegativeConeT(_)) {
            return Err(format!("adjacent nonnegative cones at {}", k));
        }
    }
    // row kinds are preserved: NN-like rows stay NN rows, other cones are copied in order
    if nn_rows_user(&cones) != nn_rows_plain(&res) {
        return Err("row kinds changed".into());
    }
    let others = |v: &[SupportedConeT<f64>]| -> Vec<String> {
        v.iter()
            .filter(|c| nvars(c) > 0 && !matches!(c, NonnegativeConeT(_) | SecondOrderConeT(1) | PSDTriangleConeT(1)))
            .map(fmt_cone)
            .collect()
    };
    if others(&cones) != others(&res) {
        return Err("non-collapsible cones not preserved in order".into());
    }
    // idempotent
    if hk::new_collapsed(&res) != res {
        return Err("not idempotent".into());
    }
    Ok(())
}

// ---------------------------------------------------------------- presolve.reduction_map

fn run_reduction_map(r: &Req) -> String {
    let cones = parse_cones(r.str("cones"));
    let b = r.fs("b");
    let (keep, mred) = hk::reduction_map(&cones, &b, r.f("inf"));
    Line::out().b("some", keep.is_some()).bs("keep", &keep.unwrap_or_default()).u("mreduced", mred).done()
}
fn oracle_reduction_map(r: &Req, out: &str) -> Result<(), String> {
    let cones = parse_cones(r.str("cones"));
    let b = r.fs("b");
    let inf = r.f("inf");
    if numel(&cones) != b.len() {
        return Ok(()); // dimension errors are only compared with the model
    }
    no_panic(out)?;
    let o = resp(out);
    let nn = nn_rows_plain(&cones);
    let want: Vec<bool> = (0..b.len()).map(|i| !(nn[i] && b[i] > thr(inf))).collect();
    let kept = want.iter().filter(|&&k| k).count();
    if o.u("mreduced") != kept {
        return Err(format!("mreduced {} expected {}", o.u("mreduced"), kept));
    }
    if o.b("some") != (kept < b.len()) {
        return Err("Some/None does not match 'a row was dropped'".into());
    }
    if o.b("some") && o.bs("keep") != want {
        return Err(format!("keep {:?} expected {:?}", o.bs("keep"), want));
    }
    // in particular: every b >= infbound in an NN row is dropped, nothing else ever is
    for i in 0..b.len() {
        if o.b("some") && !o.bs("keep")[i] && !nn[i] {
            return Err(format!("row {} dropped outside a nonnegative cone", i));
        }
        if nn[i] && b[i] >= inf && inf > 0.0 && (!o.b("some") || o.bs("keep")[i]) {
            return Err(format!("row {} with b >= bound kept", i));
        }
    }
    Ok(())
}

// ---------------------------------------------------------------- presolve.reduce_cones

fn run_reduce_cones(r: &Req) -> String {
    let cones = parse_cones(r.str("cones"));
    format!("cones={}", fmt_cones(&hk::reduce_cones(&req_state(r), &cones)))
}
fn oracle_reduce_cones(r: &Req, out: &str) -> Result<(), String> {
    let cones = parse_cones(r.str("cones"));
    let st = req_state(r);
    let keep = match &st.0 {
        Some(k) => k.clone(),
        None => return Ok(()),
    };
    if keep.len() != numel(&cones) {
        return Ok(());
    }
    no_panic(out)?;
    let res = parse_cones(resp(out).str("cones"));
    let nn = nn_rows_plain(&cones);
    if (0..keep.len()).any(|i| !keep[i] && !nn[i]) {
        return Ok(()); // not a keep vector the presolver can produce
    }
    let kept = keep.iter().filter(|&&k| k).count();
    if numel(&res) != kept {
        return Err(format!("numel {} expected {}", numel(&res), kept));
    }
    // expected list: NN dims replaced by kept counts, empty NN removed
    let mut want = vec![];
    for (c, rg) in cones.iter().zip(ranges(&cones)) {
        match c {
            NonnegativeConeT(_) => {
                let k = rg.filter(|&i| keep[i]).count();
                if k > 0 {
                    want.push(NonnegativeConeT(k));
                }
            }
            _ => want.push(c.clone()),
        }
    }
    if res != want {
        return Err(format!("cones {} expected {}", fmt_cones(&res), fmt_cones(&want)));
    }
    Ok(())
}

// ---------------------------------------------------------------- presolve.presolve

fn run_presolve(r: &Req) -> String {
    let cones = parse_cones(r.str("cones"));
    let (a, b, c) = hk::presolve(&req_state(r), &r.csc("A"), &r.fs("b"), &cones);
    Line::out().csc("A", &a).fs("b", &b).s("cones", &fmt_cones(&c)).done()
}
fn oracle_presolve(r: &Req, out: &str) -> Result<(), String> {
    let cones = parse_cones(r.str("cones"));
    let a = r.csc("A");
    let b = r.fs("b");
    let keep = match req_state(r).0 {
        Some(k) => k,
        None => return Ok(()),
    };
    if keep.len() != b.len() || a.m != b.len() || numel(&cones) != b.len() || a.check_format().is_err() {
        return Ok(());
    }
    no_panic(out)?;
    let o = resp(out);
    let (a2, b2) = (o.csc("A"), o.fs("b"));
    let rows: Vec<usize> = (0..b.len()).filter(|&i| keep[i]).collect();
    if a2.m != rows.len() || a2.n != a.n || b2.len() != rows.len() {
        return Err("shape of reduced data".into());
    }
    if a2.check_format().is_err() {
        return Err("reduced A not canonical".into());
    }
    let (da, d2) = (gen::to_dense(&a), gen::to_dense(&a2));
    for (k, &i) in rows.iter().enumerate() {
        if b2[k].to_bits() != b[i].to_bits() {
            return Err(format!("b'[{}] != b[{}]", k, i));
        }
        for j in 0..a.n {
            if d2[k][j].to_bits() != da[i][j].to_bits() && !(d2[k][j] == 0.0 && da[i][j] == 0.0) {
                return Err(format!("A'[{},{}] != A[{},{}]", k, j, i, j));
            }
        }
    }
    Ok(())
}

// ---------------------------------------------------------------- presolve.reverse

fn run_reverse(r: &Req) -> String {
    let st = req_state(r);
    let n = r.u("n");
    let mut sol = DefaultSolution::<f64>::new(n, st.1);
    let (x, s, z) = (r.fs("x"), r.fs("s"), r.fs("z"));
    let mut vars = DefaultVariables::<f64>::new(x.len(), s.len());
    vars.x.copy_from_slice(&x);
    vars.s.copy_from_slice(&s);
    vars.z = z; // (length may differ from s on purpose)
    hk::reverse_presolve(&st, &mut sol, &vars);
    Line::out().fs("x", &sol.x).fs("s", &sol.s).fs("z", &sol.z).done()
}
fn oracle_reverse(r: &Req, out: &str) -> Result<(), String> {
    let st = req_state(r);
    let keep = match &st.0 {
        Some(k) => k.clone(),
        None => return Ok(()),
    };
    let (x, s, z) = (r.fs("x"), r.fs("s"), r.fs("z"));
    let kept = keep.iter().filter(|&&k| k).count();
    if keep.len() != st.1 || s.len() != kept || z.len() != kept || x.len() != r.u("n") {
        return Ok(());
    }
    no_panic(out)?;
    let o = resp(out);
    let (x2, s2, z2) = (o.fs("x"), o.fs("s"), o.fs("z"));
    if s2.len() != st.1 || z2.len() != st.1 || x2.len() != x.len() {
        return Err("lengths of restored vectors".into());
    }
    if ffs(&x2) != ffs(&x) {
        return Err("x changed".into());
    }
    let mut ctr = 0;
    for i in 0..keep.len() {
        if keep[i] {
            if ff(s2[i]) != ff(s[ctr]) || ff(z2[i]) != ff(z[ctr]) {
                return Err(format!("kept row {} not restored in order", i));
            }
            ctr += 1;
        } else if ff(s2[i]) != ff(st.3) || z2[i].to_bits() != 0 {
            return Err(format!("dropped row {}: (s,z)=({},{}) expected ({},0)", i, s2[i], z2[i], st.3));
        }
    }
    // reverse ∘ reduce = id on kept rows
    let back_s: Vec<f64> = (0..keep.len()).filter(|&i| keep[i]).map(|i| s2[i]).collect();
    if ffs(&back_s) != ffs(&s) {
        return Err("select(reverse(s)) != s".into());
    }
    Ok(())
}

// ---------------------------------------------------------------- problemdata.new

fn settings(presolve: bool) -> DefaultSettings<f64> {
    let mut st = DefaultSettings::<f64>::default();
    st.presolve_enable = presolve;
    st.chordal_decomposition_enable = false;
    st.verbose = false;
    st.equilibrate_enable = false;
    st
}

fn fmt_data(d: &DefaultProblemData<f64>) -> String {
    let ps = hk::presolver_of(d);
    let l = Line::out()
        .csc("P", &d.P)
        .fs("q", &d.q)
        .csc("A", &d.A)
        .fs("b", &d.b)
        .s("cones", &fmt_cones(&d.cones))
        .u("n", d.n)
        .u("m", d.m)
        .fs("d", &d.equilibration.d)
        .fs("dinv", &d.equilibration.dinv)
        .fs("e", &d.equilibration.e)
        .fs("einv", &d.equilibration.einv)
        .f("c", d.equilibration.c)
        .b("pres", ps.is_some())
        .done();
    match ps {
        Some(st) => format!("{} {}", l, fmt_state(&st)),
        None => l,
    }
}

struct InfGuard;
impl Drop for InfGuard {
    fn drop(&mut self) {
        clarabel::default_infinity();
    }
}

fn run_pd_new(r: &Req) -> String {
    let cones = parse_cones(r.str("cones"));
    let _g = InfGuard;
    clarabel::set_infinity(r.f("inf"));
    let d = DefaultProblemData::<f64>::new(&r.csc("P"), &r.fs("q"), &r.csc("A"), &r.fs("b"), &cones, &pd_settings(r));
    fmt_data(&d)
}
/// optional request key `chordal` (0/1, absent = 0): `chordal_decomposition_enable`
fn req_chordal(r: &Req) -> bool {
    r.has("chordal") && r.b("chordal")
}
fn pd_settings(r: &Req) -> DefaultSettings<f64> {
    let mut st = settings(r.b("presolve"));
    st.chordal_decomposition_enable = req_chordal(r);
    st
}
fn has_large_psd(cones: &[SupportedConeT<f64>]) -> bool {
    cones.iter().any(|c| matches!(c, PSDTriangleConeT(d) if *d > 3))
}
/// `chordal=1` without a PSD cone of side > 3: nothing is decomposed and the constructed object
/// is the one built with the switch off (model theorem `C09.chordal_switch`)
fn oracle_pd_new_chordal(r: &Req, out: &str) -> Result<(), String> {
    let cones = parse_cones(r.str("cones"));
    if !req_chordal(r) || has_large_psd(&cones) {
        return Ok(());
    }
    let _g = InfGuard;
    clarabel::set_infinity(r.f("inf"));
    let (p, q, a, b) = (r.csc("P"), r.fs("q"), r.csc("A"), r.fs("b"));
    let on = DefaultProblemData::<f64>::new(&p, &q, &a, &b, &cones, &pd_settings(r));
    if clarabel::solver::implementations::default::verif_problemdata::is_chordal_decomposed(&on) {
        return Err("chordal decomposition happened without a PSD cone of side > 3".into());
    }
    let off = DefaultProblemData::<f64>::new(&p, &q, &a, &b, &cones, &settings(r.b("presolve")));
    if fmt_data(&off) != out {
        return Err(format!("chordal_decomposition_enable changed the constructed object; switch off: {}", fmt_data(&off)));
    }
    Ok(())
}
fn oracle_pd_new(r: &Req, out: &str) -> Result<(), String> {
    let cones = parse_cones(r.str("cones"));
    let (a, b, inf, presolve) = (r.csc("A"), r.fs("b"), r.f("inf"), r.b("presolve"));
    if numel(&cones) != b.len() || a.m != b.len() {
        return Ok(());
    }
    no_panic(out)?;
    let o = resp(out);
    let (a2, b2) = (o.csc("A"), o.fs("b"));
    let res = parse_cones(o.str("cones"));
    // hand reduction, stated on the user's cone list
    let nn = nn_rows_user(&cones);
    let keep: Vec<bool> = (0..b.len()).map(|i| !(presolve && nn[i] && b[i] > thr(inf))).collect();
    let rows: Vec<usize> = (0..b.len()).filter(|&i| keep[i]).collect();
    if o.u("m") != rows.len() || a2.m != rows.len() || b2.len() != rows.len() || numel(&res) != rows.len() {
        return Err(format!("internal m={} A.m={} |b|={} numel(cones)={} expected {}", o.u("m"), a2.m, b2.len(), numel(&res), rows.len()));
    }
    if o.u("n") != a.n || a2.n != a.n {
        return Err("n changed".into());
    }
    let (da, d2) = (gen::to_dense(&a), gen::to_dense(&a2));
    for (k, &i) in rows.iter().enumerate() {
        let want = if b[i].is_nan() { inf } else { b[i].min(inf) };
        if ff(b2[k]) != ff(want) {
            return Err(format!("b'[{}]={} expected min(b[{}],bound)={}", k, b2[k], i, want));
        }
        for j in 0..a.n {
            if d2[k][j] != da[i][j] {
                return Err(format!("A'[{},{}] != A[{},{}]", k, j, i, j));
            }
        }
    }
    // the reduced list needs no further consolidation
    if hk::new_collapsed(&res) != res {
        return Err(format!("internal cone list {} is not consolidated", fmt_cones(&res)));
    }
    let nn2 = nn_rows_plain(&res);
    for (k, &i) in rows.iter().enumerate() {
        if nn2[k] != nn[i] {
            return Err(format!("row {} changed its cone kind", i));
        }
    }
    // presolver record
    let dropped = rows.len() < b.len();
    if o.b("pres") != dropped {
        return Err(format!("presolver present={} but dropped={}", o.b("pres"), dropped));
    }
    if dropped {
        if o.bs("keep") != keep || o.u("mfull") != b.len() || o.u("mreduced") != rows.len() || ff(o.f("pinf")) != ff(inf) {
            return Err("presolver record (keep/mfull/mreduced/infbound)".into());
        }
    }
    if !presolve && rows.len() != b.len() {
        return Err("rows dropped with presolve off".into());
    }
    oracle_pd_new_chordal(r, out)
}

// ---------------------------------------------------------------- infbound.history
// ops: `s:<float>` set_infinity, `d` default_infinity, `n` construct problem data.
// After the whole history every constructed object restores a synthetic reduced (s,z).

fn run_history(r: &Req) -> String {
    let cones = parse_cones(r.str("cones"));
    let (p, q, a, b) = (r.csc("P"), r.fs("q"), r.csc("A"), r.fs("b"));
    let _g = InfGuard;
    clarabel::default_infinity();
    let mut datas = vec![];
    for op in r.str("ops").split(';') {
        if op == "d" {
            clarabel::default_infinity();
        } else if op == "n" {
            datas.push(DefaultProblemData::<f64>::new(&p, &q, &a, &b, &cones, &settings(true)));
        } else if let Some(v) = op.strip_prefix("s:") {
            clarabel::set_infinity(proto::parse_f(v).expect("float"));
        } else if !op.is_empty() {
            panic!("protocol: bad op {}", op);
        }
    }
    let mut bs = vec![];
    let mut ms = vec![];
    let mut rs = vec![];
    let mut rz = vec![];
    for d in &datas {
        bs.extend_from_slice(&d.b);
        ms.push(d.m);
        if let Some(st) = hk::presolver_of(d) {
            let mut sol = DefaultSolution::<f64>::new(d.n, st.1);
            let mut vars = DefaultVariables::<f64>::new(d.n, d.m);
            for k in 0..d.m {
                vars.s[k] = (k + 1) as f64;
                vars.z[k] = -((k + 1) as f64);
            }
            hk::reverse_presolve(&st, &mut sol, &vars);
            rs.extend_from_slice(&sol.s);
            rz.extend_from_slice(&sol.z);
        } else {
            rs.extend((0..d.m).map(|k| (k + 1) as f64));
            rz.extend((0..d.m).map(|k| -((k + 1) as f64)));
        }
    }
    Line::out().us("m", &ms).fs("b", &bs).fs("s", &rs).fs("z", &rz).f("final", clarabel::get_infinity()).done()
}
fn oracle_history(r: &Req, out: &str) -> Result<(), String> {
    // independent replay of the history: each object must use the bound in force when it was built
    let cones = parse_cones(r.str("cones"));
    let b = r.fs("b");
    if numel(&cones) != b.len() {
        return Ok(());
    }
    let nn = nn_rows_user(&cones);
    let mut cur = 1e20;
    let (mut ms, mut bs, mut rs, mut rz) = (vec![], vec![], vec![], vec![]);
    for op in r.str("ops").split(';') {
        if op == "d" {
            cur = 1e20;
        } else if let Some(v) = op.strip_prefix("s:") {
            cur = proto::parse_f(v).unwrap();
        } else if op == "n" {
            let keep: Vec<bool> = (0..b.len()).map(|i| !(nn[i] && b[i] > thr(cur))).collect();
            let mut ctr = 0;
            for i in 0..b.len() {
                if keep[i] {
                    bs.push(b[i].min(cur));
                    ctr += 1;
                    rs.push(ctr as f64);
                    rz.push(-(ctr as f64));
                } else {
                    rs.push(cur);
                    rz.push(0.0);
                }
            }
            ms.push(ctr);
        }
    }
    let want = Line::out().us("m", &ms).fs("b", &bs).fs("s", &rs).fs("z", &rz).f("final", cur).done();
    if want != out {
        return Err(format!("history replay expected {}", want));
    }
    Ok(())
}

// ---------------------------------------------------------------- presolve.solve (oracle only)
// full problem with presolve on  vs  hand-reduced problem with presolve off

fn solve_settings(presolve: bool) -> DefaultSettings<f64> {
    let mut st = DefaultSettings::<f64>::default();
    st.presolve_enable = presolve;
    st.chordal_decomposition_enable = false;
    st.verbose = false;
    st.max_iter = 60;
    st.max_threads = 1;
    st
}

fn run_solve(r: &Req) -> String {
    let cones = parse_cones(r.str("cones"));
    let (p, q, a, b, inf) = (r.csc("P"), r.fs("q"), r.csc("A"), r.fs("b"), r.f("inf"));
    let _g = InfGuard;
    clarabel::set_infinity(inf);
    let mut full = DefaultSolver::<f64>::new(&p, &q, &a, &b, &cones, solve_settings(true));
    // a later change of the module-level bound must not affect the built solver
    clarabel::set_infinity(inf * 0.5);
    full.solve();
    clarabel::set_infinity(inf);
    // hand reduction in the harness (dense selection)
    let nn = nn_rows_user(&cones);
    let keep: Vec<bool> = (0..b.len()).map(|i| !(nn[i] && b[i] > thr(inf))).collect();
    let mut rcones = vec![];
    for (c, rg) in cones.iter().zip(ranges(&cones)) {
        if matches!(c, NonnegativeConeT(_) | SecondOrderConeT(1) | PSDTriangleConeT(1)) {
            let k = rg.filter(|&i| keep[i]).count();
            rcones.push(NonnegativeConeT(k));
        } else {
            rcones.push(c.clone());
        }
    }
    let da = gen::to_dense(&a);
    let rows: Vec<usize> = (0..b.len()).filter(|&i| keep[i]).collect();
    let mut colptr = vec![0];
    let (mut rowval, mut nzval) = (vec![], vec![]);
    for j in 0..a.n {
        for (k, &i) in rows.iter().enumerate() {
            // structural entries of A are kept (explicit zeros included)
            let stored = (a.colptr[j]..a.colptr[j + 1]).any(|t| a.rowval[t] == i);
            if stored {
                rowval.push(k);
                nzval.push(da[i][j]);
            }
        }
        colptr.push(rowval.len());
    }
    let ra = CscMatrix::new(rows.len(), a.n, colptr, rowval, nzval);
    let rb: Vec<f64> = rows.iter().map(|&i| b[i]).collect();
    let mut red = DefaultSolver::<f64>::new(&p, &q, &ra, &rb, &rcones, solve_settings(false));
    red.solve();
    Line::out()
        .s("fstatus", &format!("{:?}", full.solution.status))
        .s("rstatus", &format!("{:?}", red.solution.status))
        .u("fiter", full.solution.iterations as usize)
        .u("riter", red.solution.iterations as usize)
        .fs("fx", &full.solution.x)
        .fs("fs", &full.solution.s)
        .fs("fz", &full.solution.z)
        .fs("rx", &red.solution.x)
        .fs("rs", &red.solution.s)
        .fs("rz", &red.solution.z)
        .bs("keep", &keep)
        .done()
}
fn close(a: f64, b: f64) -> bool {
    (a.is_nan() && b.is_nan()) || a == b || (a - b).abs() <= 1e-9 * a.abs().max(b.abs()) + 1e-12
}
fn oracle_solve(r: &Req, out: &str) -> Result<(), String> {
    let b = r.fs("b");
    let inf = r.f("inf");
    no_panic(out)?;
    let o = resp(out);
    let keep = o.bs("keep");
    if o.str("fstatus") != o.str("rstatus") {
        return Err(format!("status {} (presolve) vs {} (hand-reduced)", o.str("fstatus"), o.str("rstatus")));
    }
    if o.u("fiter") != o.u("riter") {
        return Err(format!("iterations {} vs {}", o.u("fiter"), o.u("riter")));
    }
    let (fx, fs, fz, rx, rs, rz) = (o.fs("fx"), o.fs("fs"), o.fs("fz"), o.fs("rx"), o.fs("rs"), o.fs("rz"));
    if fs.len() != b.len() || fz.len() != b.len() {
        return Err(format!("|s|={} |z|={} expected m={}", fs.len(), fz.len(), b.len()));
    }
    if fx.len() != rx.len() || (0..fx.len()).any(|j| !close(fx[j], rx[j])) {
        return Err("x differs from the hand-reduced problem's x".into());
    }
    let mut ctr = 0;
    for i in 0..b.len() {
        if keep[i] {
            if !close(fs[i], rs[ctr]) || !close(fz[i], rz[ctr]) {
                return Err(format!("kept row {}: (s,z)=({},{}) vs reduced ({},{})", i, fs[i], fz[i], rs[ctr], rz[ctr]));
            }
            ctr += 1;
        } else if ff(fs[i]) != ff(inf) || fz[i] != 0.0 {
            return Err(format!("dropped row {}: (s,z)=({},{}) expected ({},0)", i, fs[i], fz[i], inf));
        }
    }
    Ok(())
}

// ---------------------------------------------------------------- presolve.hand_reduced
// `DefaultProblemData::new` (presolve on) on the user's problem  vs  `DefaultProblemData::new`
// (presolve off) on the user's hand-reduced problem: the internal data must be the same object
// up to the presolver record (model theorem `problemdata_new_hand_reduced`).

/// the hand reduction a user would do on the ORIGINAL data (the same construction as in
/// `run_solve`): keep flags, `A` rows by the harness's own structural selection, `b` rows,
/// NN-like cones shrunk to their kept count (possibly 0), other cones cloned
fn hand_reduce(
    a: &CscMatrix<f64>,
    b: &[f64],
    cones: &[SupportedConeT<f64>],
    inf: f64,
) -> (Vec<bool>, CscMatrix<f64>, Vec<f64>, Vec<SupportedConeT<f64>>) {
    let nn = nn_rows_user(cones);
    let keep: Vec<bool> = (0..b.len()).map(|i| !(nn[i] && b[i] > thr(inf))).collect();
    let mut rcones = vec![];
    for (c, rg) in cones.iter().zip(ranges(cones)) {
        if matches!(c, NonnegativeConeT(_) | SecondOrderConeT(1) | PSDTriangleConeT(1)) {
            let k = rg.filter(|&i| keep[i]).count();
            rcones.push(NonnegativeConeT(k));
        } else {
            rcones.push(c.clone());
        }
    }
    let da = gen::to_dense(a);
    let rows: Vec<usize> = (0..b.len()).filter(|&i| keep[i]).collect();
    let mut colptr = vec![0];
    let (mut rowval, mut nzval) = (vec![], vec![]);
    for j in 0..a.n {
        for (k, &i) in rows.iter().enumerate() {
            // structural entries of A are kept (explicit zeros included)
            let stored = (a.colptr[j]..a.colptr[j + 1]).any(|t| a.rowval[t] == i);
            if stored {
                rowval.push(k);
                nzval.push(da[i][j]);
            }
        }
        colptr.push(rowval.len());
    }
    let ra = CscMatrix::new(rows.len(), a.n, colptr, rowval, nzval);
    let rb: Vec<f64> = rows.iter().map(|&i| b[i]).collect();
    (keep, ra, rb, rcones)
}

fn prefix_tokens(p: &str, line: &str) -> String {
    line.split_whitespace().map(|t| format!("{}{}", p, t)).collect::<Vec<_>>().join(" ")
}

/// the keys of `fmt_data` that describe the internal problem (everything but the presolver part)
const DATA_KEYS: [&str; 20] = [
    "Pm", "Pn", "Pcolptr", "Prowval", "Pnzval", "q", "Am", "An", "Acolptr", "Arowval", "Anzval", "b", "cones", "n", "m", "d",
    "dinv", "e", "einv", "c",
];

fn run_hand_reduced(r: &Req) -> String {
    let cones = parse_cones(r.str("cones"));
    let (p, q, a, b, inf) = (r.csc("P"), r.fs("q"), r.csc("A"), r.fs("b"), r.f("inf"));
    let _g = InfGuard;
    clarabel::set_infinity(inf);
    let full = DefaultProblemData::<f64>::new(&p, &q, &a, &b, &cones, &settings(true));
    let (keep, ra, rb, rcones) = hand_reduce(&a, &b, &cones, inf);
    let red = DefaultProblemData::<f64>::new(&p, &q, &ra, &rb, &rcones, &settings(false));
    format!(
        "{} {} {}",
        Line::out().bs("keep", &keep).csc("hA", &ra).fs("hb", &rb).s("hcones", &fmt_cones(&rcones)).done(),
        prefix_tokens("f.", &fmt_data(&full)),
        prefix_tokens("r.", &fmt_data(&red))
    )
}
/// every `DATA_KEYS` field of the records prefixed `f.` and `r.` is identical, bit for bit
fn same_internal_data(o: &Req) -> Result<(), String> {
    for k in DATA_KEYS {
        let (fk, rk) = (format!("f.{}", k), format!("r.{}", k));
        if !o.has(&fk) || !o.has(&rk) {
            return Err(format!("response lacks {} / {}", fk, rk));
        }
        if o.str(&fk) != o.str(&rk) {
            return Err(format!(
                "internal data field `{}` differs: presolve-on {} vs new(hand-reduced) {}",
                k,
                o.str(&fk),
                o.str(&rk)
            ));
        }
    }
    Ok(())
}
fn oracle_hand_reduced(r: &Req, out: &str) -> Result<(), String> {
    let cones = parse_cones(r.str("cones"));
    let (a, b) = (r.csc("A"), r.fs("b"));
    if numel(&cones) != b.len() || a.m != b.len() {
        return Ok(());
    }
    no_panic(out)?;
    let o = resp(out);
    same_internal_data(&o)?;
    if !o.has("r.pres") || o.b("r.pres") {
        return Err("new(hand-reduced problem) with presolve off recorded a presolver".into());
    }
    let keep = o.bs("keep");
    let kept = keep.iter().filter(|&&k| k).count();
    if o.b("f.pres") != (kept < b.len()) {
        return Err(format!("presolver present={} but hand reduction drops {} rows", o.b("f.pres"), b.len() - kept));
    }
    if o.b("f.pres") && o.bs("f.keep") != keep {
        return Err("presolver keep vector differs from the hand reduction's".into());
    }
    if o.u("r.m") != kept || o.u("f.m") != kept {
        return Err(format!("m: presolve-on {} hand-reduced {} expected {}", o.u("f.m"), o.u("r.m"), kept));
    }
    Ok(())
}

// ---------------------------------------------------------------- presolve.solve_exact (oracle only)
// as `presolve.solve`, but the two solvers must agree BIT FOR BIT: their internal (equilibrated)
// data are the same object (theorem `problemdata_new_hand_reduced`), and the solver is a
// deterministic function of its internal data.

fn run_solve_exact(r: &Req) -> String {
    let cones = parse_cones(r.str("cones"));
    let (p, q, a, b, inf) = (r.csc("P"), r.fs("q"), r.csc("A"), r.fs("b"), r.f("inf"));
    let _g = InfGuard;
    clarabel::set_infinity(inf);
    let mut full = DefaultSolver::<f64>::new(&p, &q, &a, &b, &cones, solve_settings(true));
    // a later change of the module-level bound must not affect the built solver
    clarabel::set_infinity(inf * 0.5);
    full.solve();
    clarabel::set_infinity(inf);
    let (keep, ra, rb, rcones) = hand_reduce(&a, &b, &cones, inf);
    let mut red = DefaultSolver::<f64>::new(&p, &q, &ra, &rb, &rcones, solve_settings(false));
    red.solve();
    let l = Line::out()
        .s("fstatus", &format!("{:?}", full.solution.status))
        .s("rstatus", &format!("{:?}", red.solution.status))
        .u("fiter", full.solution.iterations as usize)
        .u("riter", red.solution.iterations as usize)
        .fs("fx", &full.solution.x)
        .fs("fs", &full.solution.s)
        .fs("fz", &full.solution.z)
        .fs("rx", &red.solution.x)
        .fs("rs", &red.solution.s)
        .fs("rz", &red.solution.z)
        .fs("fobj", &[full.solution.obj_val, full.solution.obj_val_dual, full.solution.r_prim, full.solution.r_dual])
        .fs("robj", &[red.solution.obj_val, red.solution.obj_val_dual, red.solution.r_prim, red.solution.r_dual])
        .bs("keep", &keep)
        .done();
    // the solvers' internal data after the solve (equilibrated P, q, A, b; d, e, c)
    format!("{} {} {}", l, prefix_tokens("f.", &fmt_data(&full.data)), prefix_tokens("r.", &fmt_data(&red.data)))
}
fn oracle_solve_exact(r: &Req, out: &str) -> Result<(), String> {
    let b = r.fs("b");
    let inf = r.f("inf");
    no_panic(out)?;
    let o = resp(out);
    let keep = o.bs("keep");
    same_internal_data(&o)?;
    if o.str("fstatus") != o.str("rstatus") {
        return Err(format!("status {} (presolve) vs {} (hand-reduced)", o.str("fstatus"), o.str("rstatus")));
    }
    if o.u("fiter") != o.u("riter") {
        return Err(format!("iterations {} vs {}", o.u("fiter"), o.u("riter")));
    }
    if o.str("fx") != o.str("rx") {
        return Err(format!("x not bit-identical: {} vs {}", o.str("fx"), o.str("rx")));
    }
    if o.str("fobj") != o.str("robj") {
        return Err(format!("obj_val/obj_val_dual/r_prim/r_dual not bit-identical: {} vs {}", o.str("fobj"), o.str("robj")));
    }
    let (fs, fz, rs, rz) = (o.fs("fs"), o.fs("fz"), o.fs("rs"), o.fs("rz"));
    let kept = keep.iter().filter(|&&k| k).count();
    if fs.len() != b.len() || fz.len() != b.len() || rs.len() != kept || rz.len() != kept {
        return Err(format!("|s|={} |z|={} expected m={}; reduced |s|={} |z|={} expected {}", fs.len(), fz.len(), b.len(), rs.len(), rz.len(), kept));
    }
    let mut ctr = 0;
    for i in 0..b.len() {
        if keep[i] {
            if fs[i].to_bits() != rs[ctr].to_bits() || fz[i].to_bits() != rz[ctr].to_bits() {
                return Err(format!("kept row {}: (s,z)=({},{}) not bit-identical to reduced ({},{})", i, ff(fs[i]), ff(fz[i]), ff(rs[ctr]), ff(rz[ctr])));
            }
            ctr += 1;
        } else if fs[i].to_bits() != inf.to_bits() || fz[i].to_bits() != 0 {
            return Err(format!("dropped row {}: (s,z)=({},{}) expected ({},0)", i, fs[i], fz[i], inf));
        }
    }
    Ok(())
}

fn channels() -> Vec<Channel> {
    vec![
        Channel { name: "cones.new_collapsed", tol: Tol::Exact, run: run_new_collapsed, oracle: Some(oracle_new_collapsed),
            modelled: true, rust_fn: "SupportedConeT::new_collapsed", lean: "Cones.newCollapsed / C09.collapse_*" },
        Channel { name: "presolve.reduction_map", tol: Tol::Exact, run: run_reduction_map, oracle: Some(oracle_reduction_map),
            modelled: true, rust_fn: "presolver::make_reduction_map", lean: "Presolve.makeReductionMap / C09.dropped_iff" },
        Channel { name: "presolve.reduce_cones", tol: Tol::Exact, run: run_reduce_cones, oracle: Some(oracle_reduce_cones),
            modelled: true, rust_fn: "Presolver::reduce_cones", lean: "Presolve.reduceConesWith / C09.reduced_problem" },
        Channel { name: "presolve.presolve", tol: Tol::Exact, run: run_presolve, oracle: Some(oracle_presolve),
            modelled: true, rust_fn: "Presolver::presolve / reduce_A_b", lean: "Presolve.Presolver.presolve / C09.reduced_problem" },
        Channel { name: "presolve.reverse", tol: Tol::Exact, run: run_reverse, oracle: Some(oracle_reverse),
            modelled: true, rust_fn: "Presolver::reverse_presolve", lean: "Presolve.Presolver.reversePresolve / C09.reverse" },
        Channel { name: "problemdata.new", tol: Tol::Exact, run: run_pd_new, oracle: Some(oracle_pd_new),
            modelled: true, rust_fn: "DefaultProblemData::new (collapse, presolve, cap; try_presolver; try_chordal_info: its two early None returns - decomposition disabled / no PSD cone of side > 3 in the presolved cone list - with the presolved data selected by unwrap_or / unwrap_and_slice_or_else; the decomposing branch belongs to C18 and is answered err:chordal-not-modelled here)", lean: "ProblemData.new (hasLargePsd) / C09.cap" },
        Channel { name: "infbound.history", tol: Tol::Exact, run: run_history, oracle: Some(oracle_history),
            modelled: true, rust_fn: "set_infinity/default_infinity/get_infinity + DefaultProblemData::new + reverse_presolve",
            lean: "Presolve.InfWorld / C09.bound_history" },
        Channel { name: "presolve.solve", tol: Tol::Exact, run: run_solve, oracle: Some(oracle_solve),
            modelled: false, rust_fn: "DefaultSolver::new + solve (presolve on) vs hand-reduced (presolve off)", lean: "-" },
        Channel { name: "presolve.hand_reduced", tol: Tol::Exact, run: run_hand_reduced, oracle: Some(oracle_hand_reduced),
            modelled: true, rust_fn: "DefaultProblemData::new (presolve on) vs DefaultProblemData::new (presolve off) on the hand-reduced problem",
            lean: "Presolve.handReduce / handReduceCones / Presolve.problemdata_new_hand_reduced" },
        Channel { name: "presolve.solve_exact", tol: Tol::Exact, run: run_solve_exact, oracle: Some(oracle_solve_exact),
            modelled: false, rust_fn: "DefaultSolver::new + solve (presolve on) vs hand-reduced (presolve off), bit-exact incl. internal data", lean: "-" },
    ]
}

// ---------------------------------------------------------------- generators

fn bounds() -> [f64; 4] {
    [1e20, 1e6, 1.0, 5e3]
}

/// the value families of the exhaustive placement enumeration
fn placement_values(inf: f64, six: bool) -> Vec<f64> {
    let mut v = vec![1.0_f64.min(inf * 0.5), thr(inf), inf, inf * 1e10, f64::INFINITY];
    if six {
        v.push(next_up(thr(inf)));
    }
    v
}

fn layouts(m: usize) -> Vec<Vec<SupportedConeT<f64>>> {
    // cone layouts with numel = m (before collapse), all kinds represented
    let mut out: Vec<Vec<SupportedConeT<f64>>> = vec![vec![NonnegativeConeT(m)], vec![ZeroConeT(m)]];
    if m >= 1 {
        out.push(vec![SecondOrderConeT(m)]);
        out.push((0..m).map(|_| NonnegativeConeT(1)).collect());
        out.push(vec![NonnegativeConeT(m - 1), SecondOrderConeT(1)]);
        out.push(vec![PSDTriangleConeT(1), NonnegativeConeT(0), NonnegativeConeT(m - 1)]);
    }
    if m >= 2 {
        out.push(vec![ZeroConeT(1), NonnegativeConeT(m - 1)]);
        out.push(vec![NonnegativeConeT(1), ZeroConeT(m - 2), NonnegativeConeT(1)]);
        out.push(vec![NonnegativeConeT(m - 2), SecondOrderConeT(2)]);
    }
    if m >= 3 {
        out.push(vec![ExponentialConeT(), NonnegativeConeT(m - 3)]);
        out.push(vec![NonnegativeConeT(m - 3), PSDTriangleConeT(2)]);
        out.push(vec![NonnegativeConeT(m - 3), PowerConeT(0.5)]);
    }
    if m >= 4 {
        out.push(vec![NonnegativeConeT(1), SecondOrderConeT(m - 2), NonnegativeConeT(1)]);
        out.push(vec![NonnegativeConeT(m - 4), GenPowerConeT(vec![0.3, 0.7], 2)]);
    }
    if m >= 5 {
        out.push(vec![SecondOrderConeT(1), ExponentialConeT(), SecondOrderConeT(1), NonnegativeConeT(m - 5)]);
    }
    out
}

fn small_problem(s: &mut Session, m: usize, n: usize) -> (CscMatrix<f64>, Vec<f64>, CscMatrix<f64>) {
    let p = gen::csc_triu(&mut s.rng, n, 0.3, false, Vals::SmallInt(2));
    let q = gen::vec_of(&mut s.rng, n, Vals::SmallInt(3));
    let a = gen::csc(&mut s.rng, m, n, 0.6, Vals::SmallIntNZ(3));
    (p, q, a)
}

fn submit_all_for(s: &mut Session, cones: &[SupportedConeT<f64>], b: &[f64], inf: f64, with_data: bool) {
    let cs = fmt_cones(cones);
    // reduction map on the collapsed list (what the solver does) and on the raw list
    let col = hk::new_collapsed(cones);
    let ccs = fmt_cones(&col);
    let out = s.submit(Line::new("presolve.reduction_map").s("cones", &ccs).fs("b", b).f("inf", inf).done());
    if !with_data {
        return;
    }
    let o = resp(&out);
    let m = b.len();
    let n = 1 + s.rng.below(3);
    let (p, q, a) = small_problem(s, m, n);
    if o.has("some") && o.b("some") {
        let keep = o.bs("keep");
        let st: hk::PresolverState = (Some(keep.clone()), m, o.u("mreduced"), inf);
        s.submit(format!("presolve.reduce_cones cones={} {}", ccs, fmt_state(&st)));
        s.submit(format!("{} {}", Line::new("presolve.presolve").s("cones", &ccs).csc("A", &a).fs("b", b).done(), fmt_state(&st)));
        let k = o.u("mreduced");
        let (x, sv, zv) = (gen::vec_of(&mut s.rng, n, Vals::Normal), gen::vec_of(&mut s.rng, k, Vals::Normal), gen::vec_of(&mut s.rng, k, Vals::Normal));
        s.submit(format!("{} {}", Line::new("presolve.reverse").u("n", n).fs("x", &x).fs("s", &sv).fs("z", &zv).done(), fmt_state(&st)));
    }
    for presolve in [true, false] {
        s.submit(Line::new("problemdata.new").csc("P", &p).fs("q", &q).csc("A", &a).fs("b", b).s("cones", &cs).b("presolve", presolve).f("inf", inf).done());
    }
    // the chordal switch on a cone list without a PSD cone of side > 3 (never with one: the
    // model answers `err:chordal-not-modelled` there by design)
    if !has_large_psd(cones) && s.rng.bool(0.25) {
        for presolve in [true, false] {
            s.submit(Line::new("problemdata.new").csc("P", &p).fs("q", &q).csc("A", &a).fs("b", b).s("cones", &cs).b("presolve", presolve).f("inf", inf).u("chordal", 1).done());
        }
        s.count("problemdata.new:chordal=1");
        if let Some(d) = cones.iter().filter_map(|c| if let PSDTriangleConeT(d) = c { Some(*d) } else { None }).max() {
            s.count(&format!("problemdata.new:chordal=1:max-psd-side={}", d));
        }
    }
    let out = s.submit(Line::new("presolve.hand_reduced").csc("P", &p).fs("q", &q).csc("A", &a).fs("b", b).s("cones", &cs).f("inf", inf).done());
    let o = resp(&out);
    if o.has("keep") {
        let dropped = o.bs("keep").iter().filter(|&&k| !k).count();
        s.count(&format!("hand-reduced:dropped-rows={}", if dropped == m && m > 0 { "all".to_string() } else { dropped.min(4).to_string() }));
        if cones.iter().any(|c| matches!(c, SecondOrderConeT(1) | PSDTriangleConeT(1) | NonnegativeConeT(0))) {
            s.count("hand-reduced:with-SOC1/PSD1/NN0");
        }
    } else {
        s.count("hand-reduced:panic");
    }
}

fn exhaustive(s: &mut Session) {
    let maxm = if s.thorough() { 6 } else { 5 };
    for m in 0..=maxm {
        let inf = bounds()[m % 4];
        let lays = layouts(m);
        let six = m <= 4;
        let vals = placement_values(inf, six);
        let nv = vals.len();
        let total = nv.pow(m as u32);
        for (li, cones) in lays.iter().enumerate() {
            for code in 0..total {
                let mut c = code;
                let b: Vec<f64> = (0..m)
                    .map(|_| {
                        let v = vals[c % nv];
                        c /= nv;
                        v
                    })
                    .collect();
                // the data-carrying channels on a thinned subset (they cost more)
                let with_data = m <= 3 || (code * 7 + li) % (if m == 4 { 9 } else { 41 }) == 0;
                submit_all_for(s, cones, &b, inf, with_data);
            }
            s.count(&format!("exhaustive-placements:m={}", m));
        }
    }
}

fn random_cones(s: &mut Session, maxc: usize) -> Vec<SupportedConeT<f64>> {
    let k = s.rng.below(maxc + 1);
    (0..k)
        .map(|_| {
            if s.rng.bool(0.45) {
                NonnegativeConeT(s.rng.below(4))
            } else {
                random_cone(&mut s.rng, "znqqepgs", 0, 3)
            }
        })
        .collect()
}

fn random_b(s: &mut Session, m: usize, inf: f64) -> Vec<f64> {
    (0..m)
        .map(|_| match s.rng.below(12) {
            0 => inf,
            1 => f64::INFINITY,
            2 => thr(inf),
            3 => next_up(thr(inf)),
            4 => inf * 3.0,
            5 => -inf,
            6 => f64::NAN,
            7 => inf * (1.0 - EPS),
            _ => s.rng.smallint(4),
        })
        .collect()
}

fn random_cases(s: &mut Session) {
    for _ in 0..s.budget(400, 20000) {
        let cones = random_cones(s, 6);
        s.submit(format!("cones.new_collapsed cones={}", fmt_cones(&cones)));
        let m = numel(&cones);
        let inf = *s.rng.choose(&bounds());
        let b = random_b(s, m, inf);
        submit_all_for(s, &cones, &b, inf, true);
        // the raw (uncollapsed) list through make_reduction_map / reduce_cones as well
        let out = s.submit(Line::new("presolve.reduction_map").s("cones", &fmt_cones(&cones)).fs("b", &b).f("inf", inf).done());
        let o = resp(&out);
        if o.has("some") && o.b("some") {
            let st: hk::PresolverState = (Some(o.bs("keep")), m, o.u("mreduced"), inf);
            s.submit(format!("presolve.reduce_cones cones={} {}", fmt_cones(&cones), fmt_state(&st)));
        }
    }
    // dimension errors / inconsistent inputs (panic classes must agree with the model)
    for _ in 0..s.budget(150, 3000) {
        let cones = random_cones(s, 4);
        let m = numel(&cones);
        let inf = 1e20;
        let mb = (m as i64 + s.rng.range(-2, 2)).max(0) as usize;
        let b = random_b(s, mb, inf);
        s.submit(Line::new("presolve.reduction_map").s("cones", &fmt_cones(&cones)).fs("b", &b).f("inf", inf).done());
        let keep: Vec<bool> = (0..mb).map(|_| s.rng.bool(0.7)).collect();
        let kept = keep.iter().filter(|&&k| k).count();
        let st: hk::PresolverState = (if s.rng.bool(0.9) { Some(keep) } else { None }, (m as i64 + s.rng.range(-1, 1)).max(0) as usize, kept, inf);
        s.submit(format!("presolve.reduce_cones cones={} {}", fmt_cones(&cones), fmt_state(&st)));
        let n = 1 + s.rng.below(2);
        let ks = (kept as i64 + s.rng.range(-1, 1)).max(0) as usize;
        let (x, sv, zv) = (vec![1.0; n], gen::vec_of(&mut s.rng, ks, Vals::SmallInt(3)), gen::vec_of(&mut s.rng, ks, Vals::SmallInt(3)));
        s.submit(format!("{} {}", Line::new("presolve.reverse").u("n", n).fs("x", &x).fs("s", &sv).fs("z", &zv).done(), fmt_state(&st)));
        let a = gen::csc(&mut s.rng, m, n, 0.5, Vals::SmallInt(2));
        s.submit(format!("{} {}", Line::new("presolve.presolve").s("cones", &fmt_cones(&cones)).csc("A", &a).fs("b", &b).done(), fmt_state(&st)));
    }
}

fn histories(s: &mut Session) {
    for _ in 0..s.budget(150, 5000) {
        let cones = random_cones(s, 4);
        let m = numel(&cones);
        let n = 1 + s.rng.below(2);
        let (p, q, a) = small_problem(s, m, n);
        // values that straddle the bounds used in the history
        let cand = [1.0, 10.0, 1e3, 1e6, 1e20, 1e25, f64::INFINITY, 5.0];
        let b: Vec<f64> = (0..m).map(|_| *s.rng.choose(&cand)).collect();
        let nops = 1 + s.rng.below(7);
        let ops: Vec<String> = (0..nops)
            .map(|_| match s.rng.below(5) {
                0 => "d".to_string(),
                1 | 2 => format!("s:{}", ff(*s.rng.choose(&[2.0, 100.0, 1e4, 1e6, 1e22]))),
                _ => "n".to_string(),
            })
            .collect();
        s.submit(Line::new("infbound.history").s("ops", &ops.join(";")).csc("P", &p).fs("q", &q).csc("A", &a).fs("b", &b).s("cones", &fmt_cones(&cones)).done());
    }
}

/// planted strictly convex conic QP; rows with an "infinite" bound are sprinkled in afterwards
fn solves(s: &mut Session) {
    for it in 0..s.budget(120, 3000) {
        let k = 1 + s.rng.below(4);
        let cones: Vec<SupportedConeT<f64>> = (0..k)
            .map(|_| {
                if s.rng.bool(0.5) {
                    NonnegativeConeT(1 + s.rng.below(3))
                } else {
                    match s.rng.below(8) {
                        0 => ZeroConeT(1),
                        1 => SecondOrderConeT(1),
                        2 => PSDTriangleConeT(1),
                        3 => SecondOrderConeT(3),
                        4 => PSDTriangleConeT(2),
                        5 => ExponentialConeT(),
                        6 => NonnegativeConeT(0),
                        _ => SecondOrderConeT(2),
                    }
                }
            })
            .collect();
        let m = numel(&cones);
        let n = 2 + s.rng.below(3);
        // P = diag(1..) (strictly convex => unique x)
        let pd: Vec<f64> = (0..n).map(|_| s.rng.uniform(0.5, 2.0)).collect();
        let p = CscMatrix::new(n, n, (0..=n).collect(), (0..n).collect(), pd);
        let q = gen::vec_of(&mut s.rng, n, Vals::Normal);
        let a = gen::csc(&mut s.rng, m, n, 0.7, Vals::Normal);
        let x0 = gen::vec_of(&mut s.rng, n, Vals::Normal);
        // slack in the interior of each cone
        let mut s0 = vec![];
        for c in &cones {
            match c {
                ZeroConeT(d) => s0.extend(std::iter::repeat(0.0).take(*d)),
                NonnegativeConeT(d) => s0.extend((0..*d).map(|_| s.rng.uniform(0.1, 2.0))),
                SecondOrderConeT(d) => {
                    if *d >= 1 {
                        let tail: Vec<f64> = (1..*d).map(|_| s.rng.normal()).collect();
                        let nrm = tail.iter().map(|v| v * v).sum::<f64>().sqrt();
                        s0.push(nrm + s.rng.uniform(0.1, 1.0));
                        s0.extend(tail);
                    }
                }
                PSDTriangleConeT(1) => s0.push(1.0),
                PSDTriangleConeT(2) => s0.extend([1.0, 0.0, 1.0]),
                ExponentialConeT() => s0.extend([0.0, 1.0, 2.0]),
                _ => unreachable!(),
            }
        }
        let da = gen::to_dense(&a);
        let mut b: Vec<f64> = (0..m).map(|i| (0..n).map(|j| da[i][j] * x0[j]).sum::<f64>() + s0[i]).collect();
        let inf = if it % 3 == 0 { *s.rng.choose(&[1e20, 1e8, 1e6]) } else { 1e20 };
        // sprinkle infinite bounds; mostly in NN-like rows (dropped), sometimes elsewhere (capped)
        let nn = nn_rows_user(&cones);
        for i in 0..m {
            let pr = if nn[i] { 0.4 } else { 0.04 };
            if s.rng.bool(pr) {
                b[i] = *s.rng.choose(&[inf, inf * 10.0, f64::INFINITY, next_up(thr(inf))]);
            }
        }
        if s.rng.bool(0.1) {
            // a whole problem / cone of infinite bounds
            for i in 0..m {
                if nn[i] {
                    b[i] = inf;
                }
            }
        }
        let out = s.submit(Line::new("presolve.solve").csc("P", &p).fs("q", &q).csc("A", &a).fs("b", &b).s("cones", &fmt_cones(&cones)).f("inf", inf).done());
        s.submit(Line::new("presolve.solve_exact").csc("P", &p).fs("q", &q).csc("A", &a).fs("b", &b).s("cones", &fmt_cones(&cones)).f("inf", inf).done());
        let o = resp(&out);
        if o.has("fstatus") {
            s.count(&format!("solve-status:{}", o.str("fstatus")));
            let dropped = o.bs("keep").iter().filter(|&&k| !k).count();
            s.count(&format!("solve-dropped-rows:{}", dropped.min(4)));
        } else {
            s.count("solve-panic");
        }
    }
}

fn generate(s: &mut Session) {
    if !s.is_searching() {
        exhaustive(s);
    }
    random_cases(s);
    histories(s);
    solves(s);
    let _ = fbs(&[]);
}

fn main() {
    clarabel::default_infinity();
    Session::from_args("C09", channels()).run(generate)
}
