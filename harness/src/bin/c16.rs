//! C16 — sparse-matrix operations agree with their dense meaning.
use clarabel::algebra::*;
use vharness::gen::{self, Vals};
use vharness::proto::fmt_csc;
use vharness::*;

fn dense_of_resp(out: &str) -> Option<(CscMatrix<f64>, Vec<Vec<f64>>)> {
    let r = Req::parse(&format!("x {}", out))?;
    if !r.has("colptr") {
        return None;
    }
    let a = r.csc("");
    Some((a.clone(), gen::to_dense(&a)))
}

fn canonical(a: &CscMatrix<f64>) -> bool {
    a.check_format().is_ok()
}

// ---------------------------------------------------------------- channels

fn run_check_format(r: &Req) -> String {
    match r.csc("").check_format() {
        Ok(()) => "ok".into(),
        Err(e) => format!("err:{:?}", e),
    }
}
fn oracle_check_format(r: &Req, out: &str) -> Result<(), String> {
    // independent statement of "canonical encoding"
    let a = r.csc("");
    let dims = a.rowval.len() == a.nzval.len()
        && a.colptr.len() == a.n + 1
        && a.colptr[a.n] == a.rowval.len()
        && a.colptr.windows(2).all(|w| w[0] <= w[1]);
    let canon = dims
        && a.rowval.iter().all(|&r| r < a.m)
        && (0..a.n).all(|j| {
            // colptr[0] need not be 0 (the code and the property follow check_dimensions)
            let lo = a.colptr[j];
            let hi = a.colptr[j + 1];
            a.rowval[lo..hi].windows(2).all(|w| w[0] < w[1])
        });
    if canon != (out == "ok") {
        return Err(format!("check_format says {} but canonical={}", out, canon));
    }
    Ok(())
}

fn run_to_triu(r: &Req) -> String {
    fmt_csc(&r.csc("").to_triu())
}
fn oracle_to_triu(r: &Req, out: &str) -> Result<(), String> {
    let a = r.csc("");
    if !canonical(&a) || a.m != a.n {
        return Ok(());
    }
    let (t, dt) = dense_of_resp(out).ok_or("no matrix returned")?;
    let da = gen::to_dense(&a);
    if !canonical(&t) {
        return Err("result not canonical".into());
    }
    for i in 0..a.m {
        for j in 0..a.n {
            let want = if i <= j { da[i][j] } else { 0.0 };
            if dt[i][j] != want {
                return Err(format!("triu({},{}) = {} expected {}", i, j, dt[i][j], want));
            }
        }
    }
    if !t.is_triu() {
        return Err("is_triu(to_triu(A)) is false".into());
    }
    Ok(())
}

fn run_is_triu(r: &Req) -> String {
    proto::fb(r.csc("").is_triu()).to_string()
}
fn oracle_is_triu(r: &Req, out: &str) -> Result<(), String> {
    let a = r.csc("");
    if !canonical(&a) {
        return Ok(());
    }
    let mut want = true;
    for c in 0..a.n {
        for k in a.colptr[c]..a.colptr[c + 1] {
            if a.rowval[k] > c {
                want = false;
            }
        }
    }
    if (out == "1") != want {
        return Err(format!("is_triu={} expected {}", out, want));
    }
    Ok(())
}

fn run_select_rows(r: &Req) -> String {
    let keep = r.bs("keep");
    fmt_csc(&r.csc("").select_rows(&keep))
}
fn oracle_select_rows(r: &Req, out: &str) -> Result<(), String> {
    let a = r.csc("");
    let keep = r.bs("keep");
    if !canonical(&a) || keep.len() != a.m {
        return Ok(());
    }
    let (t, dt) = dense_of_resp(out).ok_or("no matrix returned")?;
    if !canonical(&t) {
        return Err("result not canonical".into());
    }
    let da = gen::to_dense(&a);
    let rows: Vec<usize> = (0..a.m).filter(|&i| keep[i]).collect();
    if t.m != rows.len() || t.n != a.n {
        return Err(format!("shape {}x{} expected {}x{}", t.m, t.n, rows.len(), a.n));
    }
    for (ri, &i) in rows.iter().enumerate() {
        for j in 0..a.n {
            if dt[ri][j] != da[i][j] {
                return Err(format!("entry ({},{})", ri, j));
            }
        }
    }
    // structural entries are preserved (no new explicit zeros dropped/added)
    let kept_nnz = a.rowval.iter().filter(|&&r| keep[r]).count();
    if t.nnz() != kept_nnz {
        return Err(format!("nnz {} expected {}", t.nnz(), kept_nnz));
    }
    Ok(())
}

fn run_transpose(r: &Req) -> String {
    let a = r.csc("");
    let t: CscMatrix<f64> = a.t().into();
    fmt_csc(&t)
}
fn oracle_transpose(r: &Req, out: &str) -> Result<(), String> {
    let a = r.csc("");
    if !canonical(&a) {
        return Ok(());
    }
    let (t, dt) = dense_of_resp(out).ok_or("no matrix returned")?;
    if !canonical(&t) {
        return Err("result not canonical".into());
    }
    let da = gen::to_dense(&a);
    if t.m != a.n || t.n != a.m || t.nnz() != a.nnz() {
        return Err("shape/nnz".into());
    }
    for i in 0..a.m {
        for j in 0..a.n {
            if dt[j][i] != da[i][j] {
                return Err(format!("entry ({},{})", i, j));
            }
        }
    }
    Ok(())
}

fn channels() -> Vec<Channel> {
    vec![
        Channel { name: "csc.check_format", tol: Tol::Exact, run: run_check_format, oracle: Some(oracle_check_format),
            modelled: true, rust_fn: "CscMatrix::check_format", lean: "Csc.checkFormat / C16.check_format_iff" },
        Channel { name: "csc.to_triu", tol: Tol::Exact, run: run_to_triu, oracle: Some(oracle_to_triu),
            modelled: true, rust_fn: "CscMatrix::to_triu", lean: "Csc.toTriu / C16.to_triu_dense" },
        Channel { name: "csc.is_triu", tol: Tol::Exact, run: run_is_triu, oracle: Some(oracle_is_triu),
            modelled: true, rust_fn: "CscMatrix::is_triu", lean: "Csc.isTriu" },
        Channel { name: "csc.select_rows", tol: Tol::Exact, run: run_select_rows, oracle: Some(oracle_select_rows),
            modelled: true, rust_fn: "CscMatrix::select_rows", lean: "Csc.selectRows / C16.select_rows_dense" },
        Channel { name: "csc.transpose", tol: Tol::Exact, run: run_transpose, oracle: Some(oracle_transpose),
            modelled: true, rust_fn: "From<Adjoint<CscMatrix>>", lean: "Csc.transpose / C16.transpose_dense" },
    ]
}

// ---------------------------------------------------------------- generators

/// all canonical patterns of an m×n matrix, values drawn from a small-integer family
fn exhaustive_patterns(s: &mut Session, m: usize, n: usize, f: &dyn Fn(&mut Session, &CscMatrix<f64>)) {
    let cells = m * n;
    for mask in 0u32..(1u32 << cells) {
        let mut colptr = vec![0];
        let mut rowval = vec![];
        let mut nzval = vec![];
        for c in 0..n {
            for r in 0..m {
                if mask >> (c * m + r) & 1 == 1 {
                    rowval.push(r);
                    // includes explicit structural zeros
                    nzval.push(s.rng.smallint(2));
                }
            }
            colptr.push(rowval.len());
        }
        let a = CscMatrix::new(m, n, colptr, rowval, nzval);
        f(s, &a);
    }
}

fn ops_on(s: &mut Session, a: &CscMatrix<f64>) {
    s.submit(Line::new("csc.check_format").csc("", a).done());
    s.submit(Line::new("csc.transpose").csc("", a).done());
    s.submit(Line::new("csc.is_triu").csc("", a).done());
    if a.m == a.n {
        s.submit(Line::new("csc.to_triu").csc("", a).done());
    }
    // every keep mask for small m, random otherwise
    if a.m <= 3 {
        for km in 0u32..(1 << a.m) {
            let keep: Vec<bool> = (0..a.m).map(|i| km >> i & 1 == 1).collect();
            s.submit(Line::new("csc.select_rows").csc("", a).bs("keep", &keep).done());
        }
    } else {
        let keep: Vec<bool> = (0..a.m).map(|_| s.rng.bool(0.6)).collect();
        s.submit(Line::new("csc.select_rows").csc("", a).bs("keep", &keep).done());
    }
}

fn malformed(s: &mut Session) {
    // mutate a valid encoding at one site
    let (m, n) = (1 + s.rng.below(4), 1 + s.rng.below(4));
    let mut a = gen::csc(&mut s.rng, m, n, 0.5, Vals::SmallInt(2));
    match s.rng.below(7) {
        0 => { if !a.rowval.is_empty() { let k = s.rng.below(a.rowval.len()); a.rowval[k] = s.rng.below(m + 2); } }
        1 => { let k = s.rng.below(a.colptr.len()); a.colptr[k] = s.rng.below(a.rowval.len() + 2); }
        2 => { a.nzval.push(1.0); }
        3 => { a.colptr.push(a.rowval.len()); }
        4 => { a.n += 1; }
        5 => { if a.rowval.len() >= 2 { let k = s.rng.below(a.rowval.len() - 1); a.rowval.swap(k, k + 1); } }
        _ => { a.colptr.clear(); }
    }
    s.count("malformed");
    s.submit(Line::new("csc.check_format").csc("", &a).done());
}

fn generate(s: &mut Session) {
    let shapes: &[(usize, usize)] = if s.thorough() {
        &[(1, 1), (2, 2), (3, 3), (2, 3), (3, 2), (4, 3), (1, 4)]
    } else {
        &[(1, 1), (2, 2), (3, 3), (2, 3), (3, 2)]
    };
    if !s.is_searching() {
        for &(m, n) in shapes {
            exhaustive_patterns(s, m, n, &ops_on);
            s.count(&format!("exhaustive:{}x{}", m, n));
        }
    }
    for _ in 0..s.budget(400, 20000) {
        let (m, n) = (s.rng.below(13), s.rng.below(13));
        let (m, n) = if s.rng.bool(0.3) { (m, m) } else { (m, n) };
        let p = *s.rng.choose(&[0.0, 0.1, 0.3, 0.6, 1.0]);
        let a = gen::csc(&mut s.rng, m, n, p, Vals::SmallInt(3));
        ops_on(s, &a);
    }
    for _ in 0..s.budget(300, 5000) {
        malformed(s);
    }
}

fn main() {
    Session::from_args("C16", channels()).run(generate)
}
