//! C16 — sparse-matrix operations agree with their dense meaning.
//!
//! One channel per public operation of `src/algebra/csc/{core,matrix_math,block_concatenate}.rs`
//! and per kernel of `src/algebra/vecmath.rs`.  `run_*` executes the real implementation,
//! `oracle_*` states the dense meaning directly (independent of the Lean model).
use clarabel::algebra::*;
use clarabel::verif_hooks::csc as hook;
use vharness::gen::{self, Vals};
use vharness::proto::{fb, ff, ffs, fmt_csc, fus};
use vharness::*;

#[path = "c16_dense.rs"]
mod dense;

type Dense = Vec<Vec<f64>>;

fn resp(out: &str) -> Option<Req> {
    if out.starts_with("panic") || out.starts_with("err") {
        return None;
    }
    Req::parse(&format!("x {}", out))
}
fn dense_of_resp(out: &str) -> Option<(CscMatrix<f64>, Dense)> {
    let r = resp(out)?;
    if !r.has("colptr") {
        return None;
    }
    let a = r.csc("");
    if !welldim(&a) || !a.rowval.iter().all(|&r| r < a.m) {
        return None;
    }
    Some((a.clone(), gen::to_dense(&a)))
}
fn canonical(a: &CscMatrix<f64>) -> bool {
    a.check_format().is_ok() && a.colptr[0] == 0
}
/// check_dimensions passes and colptr[0] = 0 (the model's domain)
fn welldim(a: &CscMatrix<f64>) -> bool {
    a.rowval.len() == a.nzval.len()
        && a.colptr.len() == a.n + 1
        && a.colptr[0] == 0
        && a.colptr[a.n] == a.rowval.len()
        && a.colptr.windows(2).all(|w| w[0] <= w[1])
}
fn rows_ok(a: &CscMatrix<f64>) -> bool {
    a.rowval.iter().all(|&r| r < a.m)
}
fn all_finite(xs: &[f64]) -> bool {
    xs.iter().all(|x| x.is_finite())
}
fn close(got: f64, want: f64, scale: f64) -> bool {
    if got == want {
        return true;
    }
    if !got.is_finite() || !want.is_finite() {
        return got.is_nan() == want.is_nan() && (got.is_nan() || got == want);
    }
    (got - want).abs() <= 1e-12 * scale + 1e-300
}
fn same_dense(d1: &Dense, d2: &Dense) -> Result<(), String> {
    if d1.len() != d2.len() {
        return Err("row count".into());
    }
    for i in 0..d1.len() {
        if d1[i].len() != d2[i].len() {
            return Err("col count".into());
        }
        for j in 0..d1[i].len() {
            if d1[i][j] != d2[i][j] && !(d1[i][j].is_nan() && d2[i][j].is_nan()) {
                return Err(format!("entry ({},{}) = {} expected {}", i, j, d1[i][j], d2[i][j]));
            }
        }
    }
    Ok(())
}
fn distinct_positions(a: &CscMatrix<f64>) -> usize {
    let mut s = std::collections::BTreeSet::new();
    for c in 0..a.n {
        for k in a.colptr[c]..a.colptr[c + 1] {
            s.insert((a.rowval[k], c));
        }
    }
    s.len()
}

// ---------------------------------------------------------------- exemplar channels

fn run_check_format(r: &Req) -> String {
    match r.csc("").check_format() {
        Ok(()) => "ok".into(),
        Err(e) => format!("err:{:?}", e),
    }
}
fn oracle_check_format(r: &Req, out: &str) -> Result<(), String> {
    // independent statement of "canonical encoding"
    let a = r.csc("");
    // the honest notion: dims consistent, colptr starts at 0 (every stored entry belongs to a
    // column), monotone, rows strictly increasing per column and < m
    let dims = a.rowval.len() == a.nzval.len()
        && a.colptr.len() == a.n + 1
        && a.colptr[a.n] == a.rowval.len()
        && a.colptr[0] == 0
        && a.colptr.windows(2).all(|w| w[0] <= w[1]);
    let canon = dims
        && a.rowval.iter().all(|&r| r < a.m)
        && (0..a.n).all(|j| {
            let lo = a.colptr[j];
            let hi = a.colptr[j + 1];
            a.rowval[lo..hi].windows(2).all(|w| w[0] < w[1])
        });
    if canon != (out == "ok") {
        return Err(format!("check_format says {} but canonical={}", out, canon));
    }
    // check_format = ok  =>  colptr[0] = 0 (no orphan entries), stated on its own
    if out == "ok" && a.colptr.first() != Some(&0) {
        return Err(format!("check_format accepted colptr[0] = {:?}: {} stored entries belong to no column", a.colptr.first(), a.colptr[0]));
    }
    // error kind for a shifted but otherwise dimension-consistent encoding
    if welldim_but_shifted(&a) && out != "err:BadColptr" {
        return Err(format!("shifted encoding (colptr[0] = {}) gave {}, expected err:BadColptr", a.colptr[0], out));
    }
    Ok(())
}

fn run_to_triu(r: &Req) -> String {
    fmt_csc(&r.csc("").to_triu())
}
fn oracle_to_triu(r: &Req, out: &str) -> Result<(), String> {
    let a = r.csc("");
    if !canonical(&a) || a.m != a.n {
        return Ok(());
    }
    let (t, dt) = dense_of_resp(out).ok_or("no matrix returned")?;
    let da = gen::to_dense(&a);
    if !canonical(&t) {
        return Err("result not canonical".into());
    }
    let mut kept = 0;
    for i in 0..a.m {
        for j in 0..a.n {
            let want = if i <= j { da[i][j] } else { 0.0 };
            if dt[i][j] != want {
                return Err(format!("triu({},{}) = {} expected {}", i, j, dt[i][j], want));
            }
        }
    }
    for c in 0..a.n {
        kept += a.rowval[a.colptr[c]..a.colptr[c + 1]].iter().filter(|&&r| r <= c).count();
    }
    if t.nnz() != kept {
        return Err(format!("nnz {} expected {}", t.nnz(), kept));
    }
    if !t.is_triu() {
        return Err("is_triu(to_triu(A)) is false".into());
    }
    Ok(())
}

fn run_is_triu(r: &Req) -> String {
    fb(r.csc("").is_triu()).to_string()
}
fn oracle_is_triu(r: &Req, out: &str) -> Result<(), String> {
    let a = r.csc("");
    if !welldim(&a) {
        return Ok(());
    }
    let mut want = true;
    for c in 0..a.n {
        for k in a.colptr[c]..a.colptr[c + 1] {
            if a.rowval[k] > c {
                want = false;
            }
        }
    }
    if (out == "1") != want {
        return Err(format!("is_triu={} expected {}", out, want));
    }
    Ok(())
}

fn run_select_rows(r: &Req) -> String {
    let keep = r.bs("keep");
    fmt_csc(&r.csc("").select_rows(&keep))
}
fn oracle_select_rows(r: &Req, out: &str) -> Result<(), String> {
    let a = r.csc("");
    let keep = r.bs("keep");
    if !welldim(&a) || !rows_ok(&a) || keep.len() != a.m {
        return Ok(());
    }
    let (t, dt) = dense_of_resp(out).ok_or("no matrix returned")?;
    if canonical(&a) && !canonical(&t) {
        return Err("result not canonical".into());
    }
    let da = gen::to_dense(&a);
    let rows: Vec<usize> = (0..a.m).filter(|&i| keep[i]).collect();
    if t.m != rows.len() || t.n != a.n {
        return Err(format!("shape {}x{} expected {}x{}", t.m, t.n, rows.len(), a.n));
    }
    for (ri, &i) in rows.iter().enumerate() {
        for j in 0..a.n {
            if dt[ri][j] != da[i][j] {
                return Err(format!("entry ({},{})", ri, j));
            }
        }
    }
    // structural entries are preserved (no new explicit zeros dropped/added)
    let kept_nnz = a.rowval.iter().filter(|&&r| keep[r]).count();
    if t.nnz() != kept_nnz {
        return Err(format!("nnz {} expected {}", t.nnz(), kept_nnz));
    }
    Ok(())
}

fn run_transpose(r: &Req) -> String {
    let a = r.csc("");
    let t: CscMatrix<f64> = a.t().into();
    fmt_csc(&t)
}
fn oracle_transpose(r: &Req, out: &str) -> Result<(), String> {
    let a = r.csc("");
    if !welldim(&a) || !rows_ok(&a) {
        return Ok(());
    }
    let (t, dt) = dense_of_resp(out).ok_or("no matrix returned")?;
    if canonical(&a) && !canonical(&t) {
        return Err("result not canonical".into());
    }
    let da = gen::to_dense(&a);
    if t.m != a.n || t.n != a.m || t.nnz() != a.nnz() {
        return Err("shape/nnz".into());
    }
    for i in 0..a.m {
        for j in 0..a.n {
            if dt[j][i] != da[i][j] {
                return Err(format!("entry ({},{})", i, j));
            }
        }
    }
    Ok(())
}

// ---------------------------------------------------------------- constructors

fn rows_of(r: &Req) -> Vec<Vec<f64>> {
    (0..r.u("nrows")).map(|i| r.fs(&format!("r{}", i))).collect()
}
fn run_from_rows(r: &Req) -> String {
    let rows = rows_of(r);
    let a: CscMatrix<f64> = CscMatrix::from(rows.iter().map(|r| r.iter()));
    fmt_csc(&a)
}
fn oracle_from_rows(r: &Req, out: &str) -> Result<(), String> {
    let rows = rows_of(r);
    let n = rows.first().map(|r| r.len()).unwrap_or(0);
    if !rows.iter().all(|r| r.len() == n) {
        return if out.starts_with("panic") { Ok(()) } else { Err("ragged rows accepted".into()) };
    }
    let (t, dt) = dense_of_resp(out).ok_or("no matrix returned")?;
    if !canonical(&t) {
        return Err("result not canonical".into());
    }
    if t.m != rows.len() || t.n != n {
        return Err("shape".into());
    }
    same_dense(&dt, &rows)?;
    let nz = rows.iter().flatten().filter(|&&v| v != 0.0).count();
    if t.nnz() != nz || t.nzval.iter().any(|&v| v == 0.0) {
        return Err("explicit zeros stored / nnz".into());
    }
    Ok(())
}

fn run_new_from_triplets(r: &Req) -> String {
    fmt_csc(&CscMatrix::new_from_triplets(r.u("m"), r.u("n"), r.us("I"), r.us("J"), r.fs("V")))
}
fn oracle_new_from_triplets(r: &Req, out: &str) -> Result<(), String> {
    let (m, n, i, j, v) = (r.u("m"), r.u("n"), r.us("I"), r.us("J"), r.fs("V"));
    if i.len() != j.len() || i.len() != v.len() {
        return if out.starts_with("panic") { Ok(()) } else { Err("length mismatch accepted".into()) };
    }
    if !i.iter().all(|&x| x < m) || !j.iter().all(|&x| x < n) {
        return Ok(()); // out-of-range triplets: nothing is promised
    }
    let (t, dt) = dense_of_resp(out).ok_or("no matrix returned")?;
    if !canonical(&t) {
        return Err("result not canonical".into());
    }
    if t.m != m || t.n != n {
        return Err("shape".into());
    }
    let mut want = vec![vec![0.0; n]; m];
    let mut pos = std::collections::BTreeSet::new();
    for k in 0..i.len() {
        want[i[k]][j[k]] += v[k];
        pos.insert((i[k], j[k]));
    }
    same_dense(&dt, &want)?;
    if t.nnz() != pos.len() {
        return Err(format!("nnz {} expected {} distinct positions", t.nnz(), pos.len()));
    }
    Ok(())
}

fn run_spalloc(r: &Req) -> String {
    fmt_csc(&CscMatrix::<f64>::spalloc((r.u("m"), r.u("n")), r.u("nnz")))
}
fn oracle_spalloc(r: &Req, out: &str) -> Result<(), String> {
    let t = resp(out).ok_or("no matrix")?.csc("");
    let nnz = r.u("nnz");
    if t.m != r.u("m") || t.n != r.u("n") || t.nnz() != nnz || t.rowval.len() != nnz || t.nzval.len() != nnz {
        return Err("shape / allocation".into());
    }
    if t.nzval.iter().any(|&v| v != 0.0) || t.colptr.len() != t.n + 1 {
        return Err("values / colptr".into());
    }
    Ok(())
}
fn run_zeros(r: &Req) -> String {
    fmt_csc(&CscMatrix::<f64>::zeros((r.u("m"), r.u("n"))))
}
fn oracle_zeros(r: &Req, out: &str) -> Result<(), String> {
    let (t, dt) = dense_of_resp(out).ok_or("no matrix")?;
    if !canonical(&t) || t.m != r.u("m") || t.n != r.u("n") || t.nnz() != 0 {
        return Err("zeros: shape/canonical/nnz".into());
    }
    same_dense(&dt, &vec![vec![0.0; t.n]; t.m])
}
fn run_identity(r: &Req) -> String {
    fmt_csc(&CscMatrix::<f64>::identity(r.u("n")))
}
fn oracle_identity(r: &Req, out: &str) -> Result<(), String> {
    let n = r.u("n");
    let (t, dt) = dense_of_resp(out).ok_or("no matrix")?;
    if !canonical(&t) || t.m != n || t.n != n || t.nnz() != n {
        return Err("identity: shape/canonical/nnz".into());
    }
    let want: Dense = (0..n).map(|i| (0..n).map(|j| if i == j { 1.0 } else { 0.0 }).collect()).collect();
    same_dense(&dt, &want)
}

// ---------------------------------------------------------------- core.rs operations

fn run_dropzeros(r: &Req) -> String {
    let mut a = r.csc("");
    a.dropzeros();
    fmt_csc(&a)
}
fn oracle_dropzeros(r: &Req, out: &str) -> Result<(), String> {
    let a = r.csc("");
    if !welldim(&a) || !rows_ok(&a) {
        return Ok(());
    }
    let (t, dt) = dense_of_resp(out).ok_or("no matrix returned")?;
    if canonical(&a) && !canonical(&t) {
        return Err("result not canonical".into());
    }
    if (t.m, t.n) != (a.m, a.n) {
        return Err("shape".into());
    }
    same_dense(&dt, &gen::to_dense(&a))?;
    if t.nzval.iter().any(|&v| v == 0.0) {
        return Err("a zero survived".into());
    }
    let want = a.nzval.iter().filter(|&&v| v != 0.0).count();
    if t.nnz() != want {
        return Err(format!("nnz {} expected {}", t.nnz(), want));
    }
    Ok(())
}

fn run_findnz(r: &Req) -> String {
    let (i, j, v) = hook::findnz(&r.csc(""));
    format!("I={} J={} V={}", fus(&i), fus(&j), ffs(&v))
}
fn oracle_findnz(r: &Req, out: &str) -> Result<(), String> {
    let a = r.csc("");
    if welldim_but_shifted(&a) && rows_ok(&a) {
        // colptr[0] = k > 0 (C16.findnz_shifted): I, V are the whole arrays, J covers only the
        // column data (nnz - k entries), column-major
        let o = resp(out).ok_or("no triplets")?;
        let (i, j, v) = (o.us("I"), o.us("J"), o.fs("V"));
        let want_j: Vec<usize> = (0..a.n).flat_map(|c| std::iter::repeat(c).take(a.colptr[c + 1] - a.colptr[c])).collect();
        if i != a.rowval || !same_bits(&v, &a.nzval) || j != want_j || j.len() + a.colptr[0] != a.rowval.len() {
            return Err("findnz on a shifted encoding".into());
        }
        return Ok(());
    }
    if !welldim(&a) || !rows_ok(&a) {
        return Ok(());
    }
    let o = resp(out).ok_or("no triplets")?;
    let (i, j, v) = (o.us("I"), o.us("J"), o.fs("V"));
    if i.len() != a.nnz() || j.len() != a.nnz() || v.len() != a.nnz() {
        return Err("lengths".into());
    }
    let mut d = vec![vec![0.0; a.n]; a.m];
    for k in 0..i.len() {
        if j[k] >= a.n {
            return Err("column out of range".into());
        }
        d[i[k]][j[k]] += v[k];
    }
    same_dense(&d, &gen::to_dense(&a))
}

fn run_canonicalize(r: &Req) -> String {
    let mut a = r.csc("");
    match a.canonicalize() {
        Ok(()) => fmt_csc(&a),
        Err(e) => format!("err:{:?}", e),
    }
}
fn oracle_canonicalize(r: &Req, out: &str) -> Result<(), String> {
    let a = r.csc("");
    if welldim_but_shifted(&a) {
        // colptr[0] = k > 0: the first k stored entries belong to no column; canonicalize must
        // refuse (it used to sweep them into column 0 and change the dense meaning)
        if out == "err:BadColptr" {
            return Ok(());
        }
        let mut detail = format!("canonicalize accepted a shifted encoding (colptr[0] = {}): {}", a.colptr[0], out);
        if rows_ok(&a) {
            if let Some((_, dt)) = dense_of_resp(out) {
                if same_dense(&dt, &gen::to_dense(&a)).is_err() {
                    detail.push_str(" — and changed the dense meaning of the matrix");
                }
            }
        }
        return Err(detail);
    }
    if !welldim(&a) {
        return Ok(());
    }
    if !rows_ok(&a) {
        return Ok(());
    }
    let (t, dt) = dense_of_resp(out).ok_or("well-dimensioned input rejected")?;
    if !canonical(&t) {
        return Err("result not canonical".into());
    }
    if (t.m, t.n) != (a.m, a.n) {
        return Err("shape".into());
    }
    same_dense(&dt, &gen::to_dense(&a))?;
    if t.nnz() != distinct_positions(&a) {
        return Err(format!("nnz {} expected {}", t.nnz(), distinct_positions(&a)));
    }
    Ok(())
}

fn run_is_equal_sparsity(r: &Req) -> String {
    fb(r.csc("a").is_equal_sparsity(&r.csc("b"))).to_string()
}
fn oracle_is_equal_sparsity(r: &Req, out: &str) -> Result<(), String> {
    let (a, b) = (r.csc("a"), r.csc("b"));
    if !canonical(&a) || !canonical(&b) {
        return Ok(());
    }
    let same = (a.m, a.n) == (b.m, b.n) && {
        let (da, db) = (pattern(&a), pattern(&b));
        da == db
    };
    if same != (out == "1") {
        return Err(format!("is_equal_sparsity={} expected {}", out, same));
    }
    Ok(())
}
fn pattern(a: &CscMatrix<f64>) -> Vec<(usize, usize)> {
    let mut p = vec![];
    for c in 0..a.n {
        for k in a.colptr[c]..a.colptr[c + 1] {
            p.push((a.rowval[k], c));
        }
    }
    p
}
fn run_check_equal_sparsity(r: &Req) -> String {
    match r.csc("a").check_equal_sparsity(&r.csc("b")) {
        Ok(()) => "ok".into(),
        Err(e) => format!("err:{:?}", e),
    }
}
fn oracle_check_equal_sparsity(r: &Req, out: &str) -> Result<(), String> {
    let (a, b) = (r.csc("a"), r.csc("b"));
    if !canonical(&a) || !canonical(&b) {
        return Ok(());
    }
    let want = if (a.m, a.n) != (b.m, b.n) {
        "err:IncompatibleDimension"
    } else if pattern(&a) != pattern(&b) {
        "err:SparsityMismatch"
    } else {
        "ok"
    };
    if out != want {
        return Err(format!("{} expected {}", out, want));
    }
    Ok(())
}

fn run_new(r: &Req) -> String {
    let a = r.csc("");
    fmt_csc(&CscMatrix::new(a.m, a.n, a.colptr, a.rowval, a.nzval))
}
/// `new` stores its arguments when its three asserts hold and panics otherwise
fn oracle_new(r: &Req, out: &str) -> Result<(), String> {
    let a = r.csc("");
    let ok = a.rowval.len() == a.nzval.len() && a.colptr.len() == a.n + 1 && a.colptr[a.n] == a.rowval.len();
    if !ok {
        return if out.starts_with("panic") { Ok(()) } else { Err(format!("inconsistent arguments accepted: {}", out)) };
    }
    let t = resp(out).ok_or(format!("consistent arguments gave {}", out))?.csc("");
    if (t.m, t.n) != (a.m, a.n) || t.colptr != a.colptr || t.rowval != a.rowval || !same_bits(&t.nzval, &a.nzval) {
        return Err("new changed its arguments".into());
    }
    Ok(())
}
fn run_eq(r: &Req) -> String {
    fb(r.csc("a") == r.csc("b")).to_string()
}
/// derived PartialEq = field-wise equality, values compared as IEEE numbers
fn oracle_eq(r: &Req, out: &str) -> Result<(), String> {
    let (a, b) = (r.csc("a"), r.csc("b"));
    let want = (a.m, a.n) == (b.m, b.n)
        && a.colptr == b.colptr
        && a.rowval == b.rowval
        && a.nzval.len() == b.nzval.len()
        && a.nzval.iter().zip(&b.nzval).all(|(x, y)| x == y);
    if want != (out == "1") {
        return Err(format!("== gives {} expected {}", out, want));
    }
    // for canonical operands without NaN: equal encodings <=> same shape, pattern and dense values
    // up to the sign of zero
    if canonical(&a) && canonical(&b) && all_finite(&a.nzval) && all_finite(&b.nzval) && (a.m, a.n) == (b.m, b.n) {
        let same = pattern(&a) == pattern(&b) && same_dense(&gen::to_dense(&a), &gen::to_dense(&b)).is_ok();
        if same != want {
            return Err(format!("== gives {} but pattern/dense comparison gives {}", want, same));
        }
    }
    Ok(())
}
fn run_shape(r: &Req) -> String {
    let a = r.csc("");
    { let (nr, nc, sq) = hook::shape(&a); format!("nrows={} ncols={} sq={} nnz={}", nr, nc, fb(sq), a.nnz()) }
}
fn oracle_shape(r: &Req, out: &str) -> Result<(), String> {
    let a = r.csc("");
    if a.colptr.len() <= a.n {
        return if out.starts_with("panic") { Ok(()) } else { Err("nnz read past colptr".into()) };
    }
    let want = format!("nrows={} ncols={} sq={} nnz={}", a.m, a.n, fb(a.m == a.n), a.colptr[a.n]);
    if out != want { Err(format!("{} expected {}", out, want)) } else { Ok(()) }
}

fn run_get_entry(r: &Req) -> String {
    match r.csc("").get_entry((r.u("row"), r.u("col"))) {
        Some(v) => format!("some={}", ff(v)),
        None => "none".into(),
    }
}
fn oracle_get_entry(r: &Req, out: &str) -> Result<(), String> {
    let a = r.csc("");
    let (row, col) = (r.u("row"), r.u("col"));
    if !canonical(&a) {
        return Ok(());
    }
    if row >= a.m || col >= a.n {
        return if out.starts_with("panic") { Ok(()) } else { Err("out-of-bounds index accepted".into()) };
    }
    let mut want = "none".to_string();
    for k in a.colptr[col]..a.colptr[col + 1] {
        if a.rowval[k] == row {
            want = format!("some={}", ff(a.nzval[k]));
        }
    }
    if out != want {
        return Err(format!("{} expected {}", out, want));
    }
    Ok(())
}

fn run_set_entry(r: &Req) -> String {
    let mut a = r.csc("");
    a.set_entry((r.u("row"), r.u("col")), r.f("v"));
    fmt_csc(&a)
}
fn oracle_set_entry(r: &Req, out: &str) -> Result<(), String> {
    let a = r.csc("");
    let (row, col, v) = (r.u("row"), r.u("col"), r.f("v"));
    if !canonical(&a) {
        return Ok(());
    }
    if row >= a.m || col >= a.n {
        return if out.starts_with("panic") { Ok(()) } else { Err("out-of-bounds index accepted".into()) };
    }
    let (t, dt) = dense_of_resp(out).ok_or("no matrix returned")?;
    if !canonical(&t) || (t.m, t.n) != (a.m, a.n) {
        return Err("result not canonical / shape".into());
    }
    let mut want = gen::to_dense(&a);
    want[row][col] = v;
    same_dense(&dt, &want)?;
    let existed = a.get_entry((row, col)).is_some();
    let want_nnz = a.nnz() + if !existed && v != 0.0 { 1 } else { 0 };
    if t.nnz() != want_nnz {
        return Err(format!("nnz {} expected {} (no new zeros / no loss)", t.nnz(), want_nnz));
    }
    // round trip
    let got = t.get_entry((row, col));
    if existed || v != 0.0 {
        if got.map(|x| x.to_bits()) != Some(v.to_bits()) && !(v.is_nan() && got.map(|x| x.is_nan()) == Some(true)) {
            return Err(format!("get_entry after set_entry = {:?}", got));
        }
    } else if got.is_some() {
        return Err("a new structural zero was inserted".into());
    }
    Ok(())
}

fn run_index_to_coord(r: &Req) -> String {
    let (row, col) = r.csc("").index_to_coord(r.u("idx"));
    format!("row={} col={}", row, col)
}
fn oracle_index_to_coord(r: &Req, out: &str) -> Result<(), String> {
    let a = r.csc("");
    let idx = r.u("idx");
    if !welldim(&a) {
        return Ok(());
    }
    if idx >= a.nnz() {
        return if out.starts_with("panic") { Ok(()) } else { Err("out-of-bounds index accepted".into()) };
    }
    let o = resp(out).ok_or("no coordinate")?;
    let (row, col) = (o.u("row"), o.u("col"));
    if col >= a.n || !(a.colptr[col] <= idx && idx < a.colptr[col + 1]) || a.rowval[idx] != row {
        return Err(format!("index {} is not stored at ({},{})", idx, row, col));
    }
    Ok(())
}

// ---------------------------------------------------------------- matrix_math.rs

fn gemv_args(r: &Req) -> (CscMatrix<f64>, Vec<f64>, Vec<f64>, f64, f64) {
    (r.csc(""), r.fs("y"), r.fs("x"), r.f("a"), r.f("b"))
}
fn run_gemv_n(r: &Req) -> String {
    let (a_, mut y, x, a, b) = gemv_args(r);
    hook::gemv_n(&a_, &mut y, &x, a, b);
    format!("y={}", ffs(&y))
}
fn run_gemv_t(r: &Req) -> String {
    let (a_, mut y, x, a, b) = gemv_args(r);
    hook::gemv_t(&a_, &mut y, &x, a, b);
    format!("y={}", ffs(&y))
}
fn run_symv(r: &Req) -> String {
    let (a_, mut y, x, a, b) = gemv_args(r);
    // the implementation indexes unchecked: never hand it an out-of-range row
    assert!(welldim(&a_) && a_.rowval.iter().all(|&r| r < a_.n), "harness: symv input outside the safe domain");
    hook::symv(&a_, &mut y, &x, a, b);
    format!("y={}", ffs(&y))
}
/// y_out = a·D·x + b·y with D dense (mr × mc); componentwise rounding allowance
/// dense matrix of Σ|stored value| per position (equals |dense| for duplicate-free input);
/// the rounding allowance must be scaled by what is actually summed: nearly cancelling
/// duplicates make |dense entry| much smaller than the terms that produced it
fn to_dense_abs(a: &CscMatrix<f64>) -> Dense {
    let mut d = vec![vec![0.0; a.n]; a.m];
    for c in 0..a.n {
        for k in a.colptr[c]..a.colptr[c + 1] {
            d[a.rowval[k]][c] += a.nzval[k].abs();
        }
    }
    d
}
fn check_axpby(d: &Dense, dabs: &Dense, mr: usize, mc: usize, y0: &[f64], x: &[f64], a: f64, b: f64, out: &str) -> Result<(), String> {
    let o = resp(out).ok_or("no vector returned")?;
    let y = o.fs("y");
    if y.len() != y0.len() {
        return Err("length changed".into());
    }
    if !all_finite(y0) && b == 0.0 {
        // b = 0 overwrites y (NaN/Inf must not leak)
    } else if !all_finite(y0) {
        return Ok(());
    }
    if !all_finite(x) || !a.is_finite() || !b.is_finite() || !d.iter().all(|r| all_finite(r)) {
        return Ok(());
    }
    for i in 0..mr.min(y.len()) {
        let by = if b == 0.0 { 0.0 } else { b * y0[i] };
        let mut acc = 0.0;
        let mut scale = by.abs();
        for j in 0..mc {
            acc += d[i][j] * x[j];
            scale += (a * dabs[i][j] * x[j]).abs();
        }
        let want = by + a * acc;
        if !close(y[i], want, scale) {
            return Err(format!("y[{}] = {:e} expected {:e}", i, y[i], want));
        }
    }
    Ok(())
}
fn oracle_gemv_n(r: &Req, out: &str) -> Result<(), String> {
    let (a_, y, x, a, b) = gemv_args(r);
    if !welldim(&a_) || !rows_ok(&a_) || x.len() != a_.n || y.len() != a_.m {
        return Ok(());
    }
    check_axpby(&gen::to_dense(&a_), &to_dense_abs(&a_), a_.m, a_.n, &y, &x, a, b, out)
}
fn oracle_gemv_t(r: &Req, out: &str) -> Result<(), String> {
    let (a_, y, x, a, b) = gemv_args(r);
    if !welldim(&a_) || !rows_ok(&a_) || x.len() != a_.m || y.len() != a_.n {
        return Ok(());
    }
    let d = gen::to_dense(&a_);
    let dt: Dense = (0..a_.n).map(|j| (0..a_.m).map(|i| d[i][j]).collect()).collect();
    let da = to_dense_abs(&a_);
    let dat: Dense = (0..a_.n).map(|j| (0..a_.m).map(|i| da[i][j]).collect()).collect();
    check_axpby(&dt, &dat, a_.n, a_.m, &y, &x, a, b, out)
}
fn sym_dense(a: &CscMatrix<f64>) -> Dense {
    let d = gen::to_dense(a);
    let n = a.n;
    (0..n)
        .map(|i| (0..n).map(|j| if i <= j { d[i][j] } else { d[j][i] }).collect())
        .collect()
}
fn oracle_symv(r: &Req, out: &str) -> Result<(), String> {
    let (a_, y, x, a, b) = gemv_args(r);
    if !welldim(&a_) || !rows_ok(&a_) || a_.m != a_.n || x.len() != a_.n || y.len() != a_.n || !a_.is_triu() {
        return Ok(());
    }
    let o = resp(out).ok_or("no vector returned")?;
    let yo = o.fs("y");
    let mut y = y;
    if b == 0.0 {
        // b = 0 (either sign): y is not read (since /repo 1706c1f, as in gemv) — the result must not
        // depend on y's contents, whatever they are (NaN/Inf left by an earlier solve included)
        if a_.rowval.iter().all(|&r| r < a_.n) {
            for fill in [0.0, 1.0, f64::NAN] {
                let mut y2 = vec![fill; y.len()];
                hook::symv(&a_, &mut y2, &x, a, b);
                if !same_bits(&yo, &y2) {
                    return Err(format!("b = 0 but the result depends on y: got {:?}, with y = [{}; n] got {:?}", yo, fill, y2));
                }
            }
        }
        let moderate = |v: &[f64]| v.iter().all(|t| t.is_finite() && t.abs() < 1e100);
        if moderate(&x) && moderate(&a_.nzval) && a.is_finite() && a.abs() < 1e100 && !all_finite(&yo) {
            return Err(format!("b = 0, finite A, x, a, but the result is not finite: {:?}", yo));
        }
        y = vec![0.0; y.len()];
    }
    if !all_finite(&y) {
        return Ok(());
    }
    let d = sym_dense(&a_);
    if !all_finite(&x) || !a.is_finite() || !b.is_finite() || !d.iter().all(|r| all_finite(r)) {
        return Ok(());
    }
    for i in 0..a_.n {
        let by = b * y[i];
        let mut acc = 0.0;
        let mut scale = by.abs();
        for j in 0..a_.n {
            acc += d[i][j] * x[j];
            scale += (a * d[i][j] * x[j]).abs();
        }
        if !close(yo[i], by + a * acc, scale) {
            return Err(format!("y[{}] = {:e} expected {:e}", i, yo[i], by + a * acc));
        }
    }
    Ok(())
}

fn run_quad_form(r: &Req) -> String {
    let a = r.csc("");
    format!("v={}", ff(a.quad_form(&r.fs("y"), &r.fs("x"))))
}
fn oracle_quad_form(r: &Req, out: &str) -> Result<(), String> {
    let a = r.csc("");
    let (y, x) = (r.fs("y"), r.fs("x"));
    if !welldim(&a) || !rows_ok(&a) || a.m != a.n || x.len() != a.n || y.len() != a.n {
        return Ok(());
    }
    if !a.is_triu() {
        return if out.starts_with("panic") { Ok(()) } else { Err("non-triu input accepted".into()) };
    }
    let o = resp(out).ok_or("no value returned")?;
    let v = o.f("v");
    let d = sym_dense(&a);
    if !all_finite(&x) || !all_finite(&y) || !d.iter().all(|r| all_finite(r)) {
        return Ok(());
    }
    let (mut want, mut scale) = (0.0, 0.0);
    for i in 0..a.n {
        for j in 0..a.n {
            want += y[i] * d[i][j] * x[j];
            scale += (y[i] * d[i][j] * x[j]).abs();
        }
    }
    if !close(v, want, scale) {
        return Err(format!("quad_form = {:e} expected {:e}", v, want));
    }
    Ok(())
}

fn vec_out(v: &[f64]) -> String {
    format!("v={}", ffs(v))
}
fn run_col_sums(r: &Req) -> String {
    let mut v = r.fs("v");
    r.csc("").col_sums(&mut v);
    vec_out(&v)
}
fn run_row_sums(r: &Req) -> String {
    let mut v = r.fs("v");
    r.csc("").row_sums(&mut v);
    vec_out(&v)
}
fn run_col_norms(r: &Req) -> String {
    let mut v = r.fs("v");
    r.csc("").col_norms(&mut v);
    vec_out(&v)
}
fn run_col_norms_no_reset(r: &Req) -> String {
    let mut v = r.fs("v");
    r.csc("").col_norms_no_reset(&mut v);
    vec_out(&v)
}
fn run_col_norms_sym(r: &Req) -> String {
    let mut v = r.fs("v");
    r.csc("").col_norms_sym(&mut v);
    vec_out(&v)
}
fn run_col_norms_sym_no_reset(r: &Req) -> String {
    let mut v = r.fs("v");
    r.csc("").col_norms_sym_no_reset(&mut v);
    vec_out(&v)
}
fn run_row_norms(r: &Req) -> String {
    let mut v = r.fs("v");
    r.csc("").row_norms(&mut v);
    vec_out(&v)
}
fn run_row_norms_no_reset(r: &Req) -> String {
    let mut v = r.fs("v");
    r.csc("").row_norms_no_reset(&mut v);
    vec_out(&v)
}

/// generic reduction oracle: `want(i)` is the dense statement for output slot i.
/// `kind`: 0 col sums, 1 row sums, 2 col norms, 3 row norms, 4 sym norms; `reset` says whether
/// the incoming vector is ignored.
fn reduction_oracle(r: &Req, out: &str, kind: u8, reset: bool) -> Result<(), String> {
    let a = r.csc("");
    let v0 = r.fs("v");
    let len_want = match kind {
        0 | 2 => a.n,
        1 | 3 => a.m,
        _ => a.n,
    };
    if !welldim(&a) || !rows_ok(&a) || v0.len() != len_want || (kind == 4 && a.m != a.n) {
        return Ok(());
    }
    if !all_finite(&a.nzval) || (!reset && !all_finite(&v0)) {
        return Ok(());
    }
    let o = resp(out).ok_or("no vector returned")?;
    let v = o.fs("v");
    if v.len() != v0.len() {
        return Err("length changed".into());
    }
    // entry list (duplicates are separate entries for norms; sums add them anyway)
    let mut ent: Vec<(usize, usize, f64)> = vec![];
    for c in 0..a.n {
        for k in a.colptr[c]..a.colptr[c + 1] {
            ent.push((a.rowval[k], c, a.nzval[k]));
        }
    }
    for i in 0..v.len() {
        let (want, scale) = match kind {
            0 => {
                let s: f64 = ent.iter().filter(|e| e.1 == i).map(|e| e.2).sum();
                (s, ent.iter().filter(|e| e.1 == i).map(|e| e.2.abs()).sum::<f64>())
            }
            1 => {
                let s: f64 = ent.iter().filter(|e| e.0 == i).map(|e| e.2).sum();
                (s, ent.iter().filter(|e| e.0 == i).map(|e| e.2.abs()).sum::<f64>())
            }
            2 => (ent.iter().filter(|e| e.1 == i).fold(0.0f64, |m, e| m.max(e.2.abs())), 0.0),
            3 => (ent.iter().filter(|e| e.0 == i).fold(0.0f64, |m, e| m.max(e.2.abs())), 0.0),
            _ => (ent.iter().filter(|e| e.0 == i || e.1 == i).fold(0.0f64, |m, e| m.max(e.2.abs())), 0.0),
        };
        let want = if kind >= 2 && !reset { want.max(v0[i]) } else { want };
        if !close(v[i], want, scale) {
            return Err(format!("slot {} = {:e} expected {:e}", i, v[i], want));
        }
    }
    Ok(())
}
fn oracle_col_sums(r: &Req, out: &str) -> Result<(), String> { reduction_oracle(r, out, 0, true) }
fn oracle_row_sums(r: &Req, out: &str) -> Result<(), String> { reduction_oracle(r, out, 1, true) }
fn oracle_col_norms(r: &Req, out: &str) -> Result<(), String> { reduction_oracle(r, out, 2, true) }
fn oracle_col_norms_nr(r: &Req, out: &str) -> Result<(), String> { reduction_oracle(r, out, 2, false) }
fn oracle_row_norms(r: &Req, out: &str) -> Result<(), String> { reduction_oracle(r, out, 3, true) }
fn oracle_row_norms_nr(r: &Req, out: &str) -> Result<(), String> { reduction_oracle(r, out, 3, false) }
fn oracle_sym_norms(r: &Req, out: &str) -> Result<(), String> { reduction_oracle(r, out, 4, true) }
fn oracle_sym_norms_nr(r: &Req, out: &str) -> Result<(), String> { reduction_oracle(r, out, 4, false) }

fn run_scale(r: &Req) -> String {
    let mut a = r.csc("");
    a.scale(r.f("c"));
    fmt_csc(&a)
}
fn run_negate(r: &Req) -> String {
    let mut a = r.csc("");
    a.negate();
    fmt_csc(&a)
}
fn run_lscale(r: &Req) -> String {
    let mut a = r.csc("");
    a.lscale(&r.fs("l"));
    fmt_csc(&a)
}
fn run_rscale(r: &Req) -> String {
    let mut a = r.csc("");
    a.rscale(&r.fs("r"));
    fmt_csc(&a)
}
fn run_lrscale(r: &Req) -> String {
    let mut a = r.csc("");
    a.lrscale(&r.fs("l"), &r.fs("r"));
    fmt_csc(&a)
}
/// result has the same pattern and entry (i,j) = l_i · A_ij · r_j
fn scaling_oracle(r: &Req, out: &str, l: Option<Vec<f64>>, rr: Option<Vec<f64>>, c: f64) -> Result<(), String> {
    let a = r.csc("");
    if !canonical(&a) {
        return Ok(());
    }
    if l.as_ref().map(|l| l.len() != a.m).unwrap_or(false) || rr.as_ref().map(|x| x.len() != a.n).unwrap_or(false) {
        return Ok(());
    }
    let t = resp(out).ok_or("no matrix returned")?.csc("");
    if (t.m, t.n) != (a.m, a.n) || t.colptr != a.colptr || t.rowval != a.rowval || t.nzval.len() != a.nzval.len() {
        return Err("sparsity pattern changed".into());
    }
    for col in 0..a.n {
        for k in a.colptr[col]..a.colptr[col + 1] {
            let li = l.as_ref().map(|l| l[a.rowval[k]]).unwrap_or(1.0);
            let rj = rr.as_ref().map(|x| x[col]).unwrap_or(1.0);
            let want = c * li * a.nzval[k] * rj;
            if !want.is_finite() {
                continue;
            }
            if (t.nzval[k] - want).abs() > 4.0 * f64::EPSILON * want.abs() + 1e-300 {
                return Err(format!("entry {} = {:e} expected {:e}", k, t.nzval[k], want));
            }
        }
    }
    Ok(())
}
fn oracle_scale(r: &Req, out: &str) -> Result<(), String> { scaling_oracle(r, out, None, None, r.f("c")) }
fn oracle_negate(r: &Req, out: &str) -> Result<(), String> { scaling_oracle(r, out, None, None, -1.0) }
fn oracle_lscale(r: &Req, out: &str) -> Result<(), String> { scaling_oracle(r, out, Some(r.fs("l")), None, 1.0) }
fn oracle_rscale(r: &Req, out: &str) -> Result<(), String> { scaling_oracle(r, out, None, Some(r.fs("r")), 1.0) }
fn oracle_lrscale(r: &Req, out: &str) -> Result<(), String> {
    scaling_oracle(r, out, Some(r.fs("l")), Some(r.fs("r")), 1.0)
}

// ---------------------------------------------------------------- block_concatenate.rs

fn fmt_cat(res: Result<CscMatrix<f64>, MatrixConcatenationError>) -> String {
    match res {
        Ok(m) => fmt_csc(&m),
        Err(e) => format!("err:{:?}", e),
    }
}
fn blocks_of(r: &Req) -> Vec<Vec<CscMatrix<f64>>> {
    r.us("lens")
        .iter()
        .enumerate()
        .map(|(i, &len)| (0..len).map(|c| r.csc(&format!("b{}_{}_", i, c))).collect())
        .collect()
}
fn run_hcat(r: &Req) -> String {
    fmt_cat(CscMatrix::hcat(&r.csc("a"), &r.csc("b")))
}
fn run_vcat(r: &Req) -> String {
    fmt_cat(CscMatrix::vcat(&r.csc("a"), &r.csc("b")))
}
fn run_blockdiag(r: &Req) -> String {
    let mats: Vec<CscMatrix<f64>> = (0..r.u("k")).map(|i| r.csc(&format!("b{}_", i))).collect();
    let refs: Vec<&CscMatrix<f64>> = mats.iter().collect();
    fmt_cat(CscMatrix::blockdiag(&refs))
}
fn run_hvcat(r: &Req) -> String {
    let blocks = blocks_of(r);
    let rows: Vec<Vec<&CscMatrix<f64>>> = blocks.iter().map(|br| br.iter().collect()).collect();
    let refs: Vec<&[&CscMatrix<f64>]> = rows.iter().map(|v| v.as_slice()).collect();
    fmt_cat(CscMatrix::hvcat(&refs))
}
/// dense block assembly; `None` = dimensions inconsistent
fn dense_hvcat(blocks: &[Vec<CscMatrix<f64>>]) -> Option<Dense> {
    if blocks.is_empty() || blocks[0].is_empty() {
        return None;
    }
    let nbc = blocks[0].len();
    if blocks.iter().any(|br| br.len() != nbc) {
        return None;
    }
    for br in blocks {
        if br.iter().any(|b| b.m != br[0].m) {
            return None;
        }
    }
    for c in 0..nbc {
        if blocks.iter().any(|br| br[c].n != blocks[0][c].n) {
            return None;
        }
    }
    let mut out: Dense = vec![];
    for br in blocks {
        let ds: Vec<Dense> = br.iter().map(gen::to_dense).collect();
        for i in 0..br[0].m {
            let mut row = vec![];
            for d in &ds {
                row.extend_from_slice(&d[i]);
            }
            out.push(row);
        }
    }
    Some(out)
}
fn cat_oracle(blocks: &[Vec<CscMatrix<f64>>], out: &str) -> Result<(), String> {
    if !blocks.iter().flatten().all(canonical) {
        return Ok(());
    }
    match dense_hvcat(blocks) {
        None => {
            if out == "err:IncompatibleDimension" { Ok(()) } else { Err(format!("inconsistent blocks gave {}", out)) }
        }
        Some(want) => {
            let (t, dt) = dense_of_resp(out).ok_or(format!("consistent blocks gave {}", out))?;
            if !canonical(&t) {
                return Err("result not canonical".into());
            }
            let ncols: usize = blocks[0].iter().map(|b| b.n).sum();
            if t.m != want.len() || t.n != ncols {
                return Err("shape".into());
            }
            same_dense(&dt, &want)?;
            let nnz: usize = blocks.iter().flatten().map(|b| b.nnz()).sum();
            if t.nnz() != nnz {
                return Err("nnz".into());
            }
            Ok(())
        }
    }
}
fn oracle_hcat(r: &Req, out: &str) -> Result<(), String> { cat_oracle(&[vec![r.csc("a"), r.csc("b")]], out) }
fn oracle_vcat(r: &Req, out: &str) -> Result<(), String> { cat_oracle(&[vec![r.csc("a")], vec![r.csc("b")]], out) }
fn oracle_hvcat(r: &Req, out: &str) -> Result<(), String> { cat_oracle(&blocks_of(r), out) }
fn oracle_blockdiag(r: &Req, out: &str) -> Result<(), String> {
    let mats: Vec<CscMatrix<f64>> = (0..r.u("k")).map(|i| r.csc(&format!("b{}_", i))).collect();
    if !mats.iter().all(canonical) {
        return Ok(());
    }
    if mats.is_empty() {
        return if out == "err:IncompatibleDimension" { Ok(()) } else { Err("empty list accepted".into()) };
    }
    let (t, dt) = dense_of_resp(out).ok_or("no matrix returned")?;
    if !canonical(&t) {
        return Err("result not canonical".into());
    }
    let (m, n): (usize, usize) = (mats.iter().map(|b| b.m).sum(), mats.iter().map(|b| b.n).sum());
    let mut want = vec![vec![0.0; n]; m];
    let (mut r0, mut c0) = (0, 0);
    for b in &mats {
        let d = gen::to_dense(b);
        for i in 0..b.m {
            for j in 0..b.n {
                want[r0 + i][c0 + j] = d[i][j];
            }
        }
        r0 += b.m;
        c0 += b.n;
    }
    if t.m != m || t.n != n {
        return Err("shape".into());
    }
    same_dense(&dt, &want)?;
    if t.nnz() != mats.iter().map(|b| b.nnz()).sum::<usize>() {
        return Err("nnz".into());
    }
    Ok(())
}

// ---------------------------------------------------------------- vecmath.rs

fn val(x: f64) -> String {
    format!("v={}", ff(x))
}
fn xs(r: &Req) -> Vec<f64> {
    r.fs("x")
}
fn run_v_dot(r: &Req) -> String { val(xs(r).dot(&r.fs("y"))) }
fn run_v_sumsq(r: &Req) -> String { val(xs(r).sumsq()) }
fn run_v_sum(r: &Req) -> String { val(xs(r).sum()) }
fn run_v_norm(r: &Req) -> String { val(xs(r).norm()) }
fn run_v_norm_inf(r: &Req) -> String { val(xs(r).norm_inf()) }
fn run_v_norm_one(r: &Req) -> String { val(xs(r).norm_one()) }
fn run_v_norm_scaled(r: &Req) -> String { val(xs(r).norm_scaled(&r.fs("y"))) }
fn run_v_norm_inf_scaled(r: &Req) -> String { val(xs(r).norm_inf_scaled(&r.fs("y"))) }
fn run_v_mean(r: &Req) -> String { val(xs(r).mean()) }
fn run_v_minimum(r: &Req) -> String { val(xs(r).minimum()) }
fn run_v_maximum(r: &Req) -> String { val(xs(r).maximum()) }
fn xout(x: &[f64]) -> String {
    format!("x={}", ffs(x))
}
fn run_v_negate(r: &Req) -> String { let mut x = xs(r); VectorMath::negate(&mut x[..]); xout(&x) }
fn run_v_recip(r: &Req) -> String { let mut x = xs(r); VectorMath::recip(&mut x[..]); xout(&x) }
fn run_v_sqrt(r: &Req) -> String { let mut x = xs(r); VectorMath::sqrt(&mut x[..]); xout(&x) }
fn run_v_rsqrt(r: &Req) -> String { let mut x = xs(r); VectorMath::rsqrt(&mut x[..]); xout(&x) }
fn run_v_hadamard(r: &Req) -> String { let mut x = xs(r); VectorMath::hadamard(&mut x[..], &r.fs("y")); xout(&x) }
fn run_v_scale(r: &Req) -> String { let mut x = xs(r); VectorMath::scale(&mut x[..], r.f("c")); xout(&x) }
fn run_v_translate(r: &Req) -> String { let mut x = xs(r); VectorMath::translate(&mut x[..], r.f("c")); xout(&x) }
fn run_v_clip(r: &Req) -> String { let mut x = xs(r); VectorMath::clip(&mut x[..], r.f("lo"), r.f("hi")); xout(&x) }
fn run_v_select(r: &Req) -> String { xout(&VectorMath::select(&xs(r)[..], &r.bs("idx"))) }
fn run_v_axpby(r: &Req) -> String {
    let mut y = r.fs("y");
    VectorMath::axpby(&mut y[..], r.f("a"), &r.fs("x"), r.f("b"));
    format!("y={}", ffs(&y))
}
fn run_v_waxpby(r: &Req) -> String {
    let x = r.fs("x");
    let mut w = vec![0.0; if r.has("wlen") { r.u("wlen") } else { x.len() }];
    VectorMath::waxpby(&mut w[..], r.f("a"), &x, r.f("b"), &r.fs("y"));
    format!("w={}", ffs(&w))
}
fn run_v_dot_shifted(r: &Req) -> String {
    val(<[f64] as VectorMath<f64>>::dot_shifted(&r.fs("z"), &r.fs("s"), &r.fs("dz"), &r.fs("ds"), r.f("a")))
}
fn run_v_norm_one_scaled(r: &Req) -> String { val(xs(r).norm_one_scaled(&r.fs("y"))) }
fn run_v_norm_inf_diff(r: &Req) -> String { val(xs(r).norm_inf_diff(&r.fs("y"))) }
fn run_v_dist(r: &Req) -> String { val(xs(r).dist(&r.fs("y"))) }
fn run_s_logsafe(r: &Req) -> String { xout(&xs(r).iter().map(|v| v.logsafe()).collect::<Vec<f64>>()) }
/// `logsafe`: −∞ for a non-positive argument, the logarithm otherwise (monotone, log 1 = 0)
fn oracle_s_logsafe(r: &Req, out: &str) -> Result<(), String> {
    let x = xs(r);
    let o = resp(out).ok_or("no values")?;
    let got = o.fs("x");
    if got.len() != x.len() { return Err("length".into()); }
    for (i, (&v, &g)) in x.iter().zip(&got).enumerate() {
        if v.is_nan() { if !g.is_nan() { return Err(format!("logsafe(NaN) = {}", g)); } continue; }
        if v <= 0.0 {
            if g != f64::NEG_INFINITY { return Err(format!("logsafe({:e}) = {:e}, expected -inf", v, g)); }
        } else {
            if g == f64::NEG_INFINITY || g.is_nan() { return Err(format!("logsafe({:e}) = {:e}", v, g)); }
            if v == 1.0 && g != 0.0 { return Err("logsafe(1) != 0".into()); }
            if v.is_finite() && (g.exp() - v).abs() > 1e-12 * v * (1.0 + g.abs()) { return Err(format!("exp(logsafe({:e})) = {:e}", v, g.exp())); }
        }
        for (j, (&w, &h)) in x.iter().zip(&got).enumerate() {
            if j != i && v < w && g > h { return Err(format!("logsafe not monotone at {:e} < {:e}", v, w)); }
        }
    }
    Ok(())
}
fn run_s_clip(r: &Req) -> String { val(r.f("v").clip(r.f("lo"), r.f("hi"))) }
fn oracle_s_clip(r: &Req, out: &str) -> Result<(), String> {
    let (v, lo, hi) = (r.f("v"), r.f("lo"), r.f("hi"));
    let g = resp(out).ok_or("no value")?.f("v");
    let want = if v < lo { lo } else if v > hi { hi } else { v };
    if g.to_bits() != want.to_bits() && !(g.is_nan() && want.is_nan()) { return Err(format!("clip = {:e} expected {:e}", g, want)); }
    if lo <= hi && !v.is_nan() && !(lo <= g && g <= hi) { return Err("clip outside [lo, hi]".into()); }
    Ok(())
}
fn run_v_is_finite(r: &Req) -> String { fb(xs(r).is_finite()).to_string() }
fn run_v_normalize(r: &Req) -> String {
    let mut x = xs(r);
    let nrm = VectorMath::normalize(&mut x[..]);
    format!("{} {}", val(nrm), xout(&x))
}
fn run_v_copy_from(r: &Req) -> String { let mut x = xs(r); VectorMath::copy_from(&mut x[..], &r.fs("y")); xout(&x) }
fn run_v_set(r: &Req) -> String { let mut x = xs(r); VectorMath::set(&mut x[..], r.f("c")); xout(&x) }
/// the closures passed to `scalarop` / `scalarop_from` (same table in Driver/C16.lean)
fn scalar_op_of(op: usize) -> fn(f64) -> f64 {
    match op {
        0 => |v| v + 1.5,
        1 => |v| v * v,
        2 => |v| 0.0 - v,
        3 => |_v| 2.0,
        _ => |v| v / 3.0,
    }
}
fn run_v_scalarop(r: &Req) -> String { let mut x = xs(r); VectorMath::scalarop(&mut x[..], scalar_op_of(r.u("op"))); xout(&x) }
fn run_v_scalarop_from(r: &Req) -> String {
    let mut x = xs(r);
    VectorMath::scalarop_from(&mut x[..], scalar_op_of(r.u("op")), &r.fs("y"));
    xout(&x)
}

/// the elementwise / data-movement kernels stated directly (independent of the model):
/// length kept, entry i = the scalar function of entry i; bitwise comparison (NaN = NaN)
fn same_bits(a: &[f64], b: &[f64]) -> bool {
    a.len() == b.len() && a.iter().zip(b).all(|(p, q)| p.to_bits() == q.to_bits() || (p.is_nan() && q.is_nan()))
}
fn oracle_v_elementwise(r: &Req, out: &str) -> Result<(), String> {
    let x = xs(r);
    let y = if r.has("y") { r.fs("y") } else { vec![] };
    let o = match resp(out) {
        Some(o) => o,
        None => {
            // a panic is legitimate exactly on the asserted length mismatches
            let must_panic = match r.chan.as_str() {
                "vec.copy_from" | "vec.axpby" => x.len() != y.len(),
                "vec.select" => x.len() != r.bs("idx").len(),
                "vec.waxpby" => { let w = if r.has("wlen") { r.u("wlen") } else { x.len() }; w != x.len() || w != y.len() }
                _ => false,
            };
            return if must_panic { Ok(()) } else { Err(format!("unexpected {}", out)) };
        }
    };
    let key = match r.chan.as_str() { "vec.axpby" => "y", "vec.waxpby" => "w", _ => "x" };
    let got = o.fs(key);
    let clipf = |v: f64, lo: f64, hi: f64| if v < lo { lo } else if v > hi { hi } else { v };
    let want: Vec<f64> = match r.chan.as_str() {
        "vec.negate" => x.iter().map(|v| -v).collect(),
        "vec.recip" => x.iter().map(|v| 1.0 / v).collect(),
        "vec.sqrt" => x.iter().map(|v| v.sqrt()).collect(),
        "vec.rsqrt" => x.iter().map(|v| 1.0 / v.sqrt()).collect(),
        "vec.scale" => x.iter().map(|v| v * r.f("c")).collect(),
        "vec.translate" => x.iter().map(|v| v + r.f("c")).collect(),
        "vec.set" => x.iter().map(|_| r.f("c")).collect(),
        "vec.clip" => x.iter().map(|&v| clipf(v, r.f("lo"), r.f("hi"))).collect(),
        "vec.hadamard" => (0..x.len()).map(|i| if i < y.len() { x[i] * y[i] } else { x[i] }).collect(),
        "vec.copy_from" => { if x.len() != y.len() { return Err("copy_from accepted a length mismatch".into()); } y.clone() }
        "vec.scalarop" => x.iter().map(|&v| scalar_op_of(r.u("op"))(v)).collect(),
        "vec.scalarop_from" => (0..x.len()).map(|i| if i < y.len() { scalar_op_of(r.u("op"))(y[i]) } else { x[i] }).collect(),
        "vec.select" => {
            let idx = r.bs("idx");
            if idx.len() != x.len() { return Err("select accepted a length mismatch".into()); }
            (0..x.len()).filter(|&i| idx[i]).map(|i| x[i]).collect()
        }
        "vec.axpby" => {
            if x.len() != y.len() { return Err("axpby accepted a length mismatch".into()); }
            (0..x.len()).map(|i| r.f("a") * x[i] + r.f("b") * y[i]).collect()
        }
        "vec.waxpby" => {
            let w = if r.has("wlen") { r.u("wlen") } else { x.len() };
            if w != x.len() || w != y.len() { return Err("waxpby accepted a length mismatch".into()); }
            (0..x.len()).map(|i| r.f("a") * x[i] + r.f("b") * y[i]).collect()
        }
        _ => return Ok(()),
    };
    if !same_bits(&got, &want) {
        return Err(format!("{}: got {:?} expected {:?}", r.chan, got, want));
    }
    if r.chan == "vec.clip" && r.f("lo") <= r.f("hi") {
        // bounds and idempotence (NaN entries pass through clip unchanged)
        for &g in &got {
            if !g.is_nan() && !(r.f("lo") <= g && g <= r.f("hi")) {
                return Err(format!("clip result {} outside [{}, {}]", g, r.f("lo"), r.f("hi")));
            }
            if !g.is_nan() && clipf(g, r.f("lo"), r.f("hi")).to_bits() != g.to_bits() {
                return Err("clip not idempotent".into());
            }
        }
    }
    Ok(())
}
/// properties of the remaining reductions on finite moderate data
fn oracle_v_reduce2(r: &Req, out: &str) -> Result<(), String> {
    let x = if r.has("x") { xs(r) } else { vec![] };
    let y = if r.has("y") { r.fs("y") } else { vec![] };
    if r.chan == "vec.is_finite" {
        let want = x.iter().all(|v| v.is_finite());
        return if (out == "1") == want { Ok(()) } else { Err(format!("is_finite={} expected {}", out, want)) };
    }
    let o = match resp(out) {
        Some(o) => o,
        None => {
            let asserted = matches!(r.chan.as_str(), "vec.norm_scaled" | "vec.norm_inf_scaled" | "vec.dot_shifted");
            let mismatch = if r.chan == "vec.dot_shifted" {
                let (z, s, dz, ds) = (r.fs("z"), r.fs("s"), r.fs("dz"), r.fs("ds"));
                z.len() != s.len() || z.len() != dz.len() || s.len() != ds.len()
            } else { x.len() != y.len() };
            return if asserted && mismatch { Ok(()) } else { Err(format!("unexpected {}", out)) };
        }
    };
    let v = o.f("v");
    if r.chan == "vec.dot_shifted" {
        let (z, s, dz, ds, a) = (r.fs("z"), r.fs("s"), r.fs("dz"), r.fs("ds"), r.f("a"));
        if z.len() != s.len() || z.len() != dz.len() || s.len() != ds.len() { return Err("dot_shifted accepted a length mismatch".into()); }
        let all: Vec<f64> = z.iter().chain(&s).chain(&dz).chain(&ds).cloned().collect();
        if !all_finite(&all) || all.iter().any(|t| t.abs() > 1e100) { return Ok(()); }
        let terms: Vec<f64> = (0..z.len()).map(|i| (s[i] + a * ds[i]) * (z[i] + a * dz[i])).collect();
        let (want, scale) = (terms.iter().sum::<f64>(), terms.iter().map(|t| t.abs()).sum::<f64>());
        return if close(v, want, scale) { Ok(()) } else { Err(format!("dot_shifted = {:e} expected {:e}", v, want)) };
    }
    if matches!(r.chan.as_str(), "vec.norm_scaled" | "vec.norm_inf_scaled") && x.len() != y.len() {
        return Err(format!("{} accepted a length mismatch", r.chan));
    }
    if !all_finite(&x) || !all_finite(&y) || x.iter().chain(y.iter()).any(|t| t.abs() > 1e100) {
        return Ok(());
    }
    let k = x.len().min(y.len());
    let (want, scale): (f64, f64) = match r.chan.as_str() {
        "vec.norm_scaled" => { let s: f64 = (0..k).map(|i| (x[i] * y[i]) * (x[i] * y[i])).sum(); (s.sqrt(), s.sqrt()) }
        "vec.norm_inf_scaled" => ((0..k).fold(0.0, |m: f64, i| m.max((x[i] * y[i]).abs())), 0.0),
        "vec.norm_one_scaled" => { let s: f64 = (0..k).map(|i| (x[i] * y[i]).abs()).sum(); (s, s) }
        "vec.norm_inf_diff" => ((0..k).fold(0.0, |m: f64, i| m.max((x[i] - y[i]).abs())), 0.0),
        "vec.dist" => { let s: f64 = (0..k).map(|i| (x[i] - y[i]) * (x[i] - y[i])).sum(); (s.sqrt(), s.sqrt()) }
        "vec.normalize" => {
            let s: f64 = x.iter().map(|a| a * a).sum();
            let nrm = s.sqrt();
            let got = o.fs("x");
            if got.len() != x.len() { return Err("normalize changed the length".into()); }
            if nrm == 0.0 {
                if v != 0.0 || !same_bits(&got, &x) { return Err("normalize touched a zero-norm vector".into()); }
            } else if nrm.is_finite() && nrm > 1e-150 {
                let n2: f64 = got.iter().map(|a| a * a).sum::<f64>().sqrt();
                if (n2 - 1.0).abs() > 1e-12 * (x.len() as f64 + 4.0) { return Err(format!("normalized vector has norm {:e}", n2)); }
                for i in 0..x.len() {
                    if !close(got[i] * nrm, x[i], x[i].abs()) { return Err(format!("normalize entry {}", i)); }
                }
            }
            (nrm, nrm)
        }
        _ => return Ok(()),
    };
    if !close(v, want, scale) {
        return Err(format!("{} = {:e} expected {:e}", r.chan, v, want));
    }
    Ok(())
}

/// meaning of the scalar reductions, on finite data, with a rounding allowance
fn oracle_v_reduce(r: &Req, out: &str) -> Result<(), String> {
    let x = xs(r);
    let y = if r.has("y") { r.fs("y") } else { vec![] };
    if !all_finite(&x) || !all_finite(&y) || x.iter().chain(y.iter()).any(|v| v.abs() > 1e100) {
        return Ok(());
    }
    let o = match resp(out) { Some(o) => o, None => return Ok(()) };
    let v = o.f("v");
    let (want, scale): (f64, f64) = match r.chan.as_str() {
        "vec.dot" => (x.iter().zip(&y).map(|(a, b)| a * b).sum(), x.iter().zip(&y).map(|(a, b)| (a * b).abs()).sum()),
        "vec.sumsq" => (x.iter().map(|a| a * a).sum(), x.iter().map(|a| a * a).sum()),
        "vec.sum" => (x.iter().sum(), x.iter().map(|a| a.abs()).sum()),
        "vec.norm" => { let s: f64 = x.iter().map(|a| a * a).sum(); (s.sqrt(), s.sqrt()) }
        "vec.norm_inf" => (x.iter().fold(0.0, |m, a| m.max(a.abs())), 0.0),
        "vec.norm_one" => (x.iter().map(|a| a.abs()).sum(), x.iter().map(|a| a.abs()).sum()),
        "vec.mean" => {
            if x.is_empty() { (0.0, 0.0) } else {
                (x.iter().sum::<f64>() / x.len() as f64, x.iter().map(|a| a.abs()).sum::<f64>())
            }
        }
        "vec.minimum" => (x.iter().cloned().fold(f64::INFINITY, f64::min), 0.0),
        "vec.maximum" => (x.iter().cloned().fold(f64::NEG_INFINITY, f64::max), 0.0),
        _ => return Ok(()),
    };
    if !close(v, want, scale) {
        return Err(format!("{} = {:e} expected {:e}", r.chan, v, want));
    }
    Ok(())
}

macro_rules! ch {
    ($name:expr, $tol:expr, $run:expr, $oracle:expr, $rust:expr, $lean:expr) => {
        Channel { name: $name, tol: $tol, run: $run, oracle: $oracle, modelled: true, rust_fn: $rust, lean: $lean }
    };
}

fn channels() -> Vec<Channel> {
    let e = Tol::Exact;
    vec![
        ch!("csc.check_format", e, run_check_format, Some(oracle_check_format), "CscMatrix::check_format", "Csc.checkFormat / C16.check_format_iff"),
        ch!("csc.to_triu", e, run_to_triu, Some(oracle_to_triu), "CscMatrix::to_triu", "Csc.toTriu / C16.toTriu_spec"),
        ch!("csc.is_triu", e, run_is_triu, Some(oracle_is_triu), "CscMatrix::is_triu", "Csc.isTriu / C16.isTriu_iff"),
        ch!("csc.select_rows", e, run_select_rows, Some(oracle_select_rows), "CscMatrix::select_rows", "Csc.selectRows / C16.selectRows_spec"),
        ch!("csc.transpose", e, run_transpose, Some(oracle_transpose), "From<Adjoint<CscMatrix>>", "Csc.transpose / C16.transpose_dense, C16.transpose_canonical"),
        ch!("csc.from_rows", e, run_from_rows, Some(oracle_from_rows), "CscMatrix::from(rows)", "Csc.fromRows / C16.fromRows_spec"),
        ch!("csc.new_from_triplets", e, run_new_from_triplets, Some(oracle_new_from_triplets), "CscMatrix::new_from_triplets", "Csc.newFromTriplets / C16.newFromTriplets_spec"),
        ch!("csc.spalloc", e, run_spalloc, Some(oracle_spalloc), "CscMatrix::spalloc", "Csc.spalloc / C16.spalloc_spec"),
        ch!("csc.zeros", e, run_zeros, Some(oracle_zeros), "CscMatrix::zeros", "Csc.zeros / C16.zeros_spec"),
        ch!("csc.identity", e, run_identity, Some(oracle_identity), "CscMatrix::identity", "Csc.identity / C16.identity_spec"),
        ch!("csc.dropzeros", e, run_dropzeros, Some(oracle_dropzeros), "CscMatrix::dropzeros", "Csc.dropzeros / C16.dropzeros_spec"),
        ch!("csc.findnz", e, run_findnz, Some(oracle_findnz), "CscMatrix::findnz", "Csc.findnz / C16.findnz_spec, findnz_roundtrip, findnz_shifted"),
        ch!("csc.canonicalize", e, run_canonicalize, Some(oracle_canonicalize), "CscMatrix::canonicalize (sort_indices, deduplicate)", "Csc.canonicalize / C16.canonicalize_spec, canonicalize_of_canonical, canonicalize_idem"),
        ch!("csc.is_equal_sparsity", e, run_is_equal_sparsity, Some(oracle_is_equal_sparsity), "CscMatrix::is_equal_sparsity", "Csc.isEqualSparsity / C16.equal_sparsity_iff"),
        ch!("csc.check_equal_sparsity", e, run_check_equal_sparsity, Some(oracle_check_equal_sparsity), "CscMatrix::check_equal_sparsity", "Csc.checkEqualSparsity / C16.equal_sparsity_iff"),
        ch!("csc.new", e, run_new, Some(oracle_new), "CscMatrix::new", "Csc.new / C16.new_spec"),
        ch!("csc.eq", e, run_eq, Some(oracle_eq), "PartialEq for CscMatrix (derived ==)", "Csc.isEqual / C16.isEqual_iff, canonical_encoding_unique"),
        ch!("csc.shape", e, run_shape, Some(oracle_shape), "ShapedMatrix::{nrows,ncols,is_square}, CscMatrix::nnz", "Csc.nnzE, Csc.isSquare / C16.nnz_isSquare_spec"),
        ch!("csc.get_entry", e, run_get_entry, Some(oracle_get_entry), "CscMatrix::get_entry", "Csc.getEntry / C16.getEntry_eq"),
        ch!("csc.set_entry", e, run_set_entry, Some(oracle_set_entry), "CscMatrix::set_entry", "Csc.setEntry / C16.setEntry_getEntry"),
        ch!("csc.index_to_coord", e, run_index_to_coord, Some(oracle_index_to_coord), "CscMatrix::index_to_coord", "Csc.indexToCoord / C16.indexToCoord_spec, indexToCoord_general_spec, indexToCoord_below_colptr0"),
        ch!("csc.gemv_n", e, run_gemv_n, Some(oracle_gemv_n), "_csc_axpby_N (MatrixVectorMultiply::gemv)", "Csc.gemvN / C16.gemvN_spec"),
        ch!("csc.gemv_t", e, run_gemv_t, Some(oracle_gemv_t), "_csc_axpby_T (Adjoint gemv)", "Csc.gemvT / C16.gemvT_spec"),
        ch!("csc.symv", e, run_symv, Some(oracle_symv), "_csc_symv_unsafe (SymMatrixVectorMultiply::symv)", "Csc.symv / C16.symv_spec, symv_beta_zero_ignores_y"),
        ch!("csc.quad_form", e, run_quad_form, Some(oracle_quad_form), "_csc_quad_form", "Csc.quadForm / C16.quadForm_spec"),
        ch!("csc.col_sums", e, run_col_sums, Some(oracle_col_sums), "MatrixMath::col_sums", "Csc.colSums / C16.colSums_spec"),
        ch!("csc.row_sums", e, run_row_sums, Some(oracle_row_sums), "MatrixMath::row_sums", "Csc.rowSums / C16.rowSums_spec, rowSums_general_spec"),
        ch!("csc.col_norms", e, run_col_norms, Some(oracle_col_norms), "MatrixMath::col_norms", "Csc.colNorms / C16.colNorms_spec"),
        ch!("csc.col_norms_no_reset", e, run_col_norms_no_reset, Some(oracle_col_norms_nr), "MatrixMath::col_norms_no_reset", "Csc.colNormsNoReset / C16.colNormsNoReset_spec"),
        ch!("csc.col_norms_sym", e, run_col_norms_sym, Some(oracle_sym_norms), "MatrixMath::col_norms_sym", "Csc.colNormsSym / C16.colNormsSym_spec"),
        ch!("csc.col_norms_sym_no_reset", e, run_col_norms_sym_no_reset, Some(oracle_sym_norms_nr), "MatrixMath::col_norms_sym_no_reset", "Csc.colNormsSymNoReset / C16.colNormsSymNoReset_spec"),
        ch!("csc.row_norms", e, run_row_norms, Some(oracle_row_norms), "MatrixMath::row_norms", "Csc.rowNorms / C16.rowNorms_spec"),
        ch!("csc.row_norms_no_reset", e, run_row_norms_no_reset, Some(oracle_row_norms_nr), "MatrixMath::row_norms_no_reset", "Csc.rowNormsNoReset / C16.rowNormsNoReset_spec, rowNormsNoReset_general_spec"),
        ch!("csc.scale", e, run_scale, Some(oracle_scale), "MatrixMathMut::scale", "Csc.scale / C16.scale_spec"),
        ch!("csc.negate", e, run_negate, Some(oracle_negate), "MatrixMathMut::negate", "Csc.negate / C16.negate_spec"),
        ch!("csc.lscale", e, run_lscale, Some(oracle_lscale), "MatrixMathMut::lscale", "Csc.lscale / C16.lscale_spec"),
        ch!("csc.rscale", e, run_rscale, Some(oracle_rscale), "MatrixMathMut::rscale", "Csc.rscale / C16.rscale_spec"),
        ch!("csc.lrscale", e, run_lrscale, Some(oracle_lrscale), "MatrixMathMut::lrscale", "Csc.lrscale / C16.lrscale_spec"),
        ch!("csc.hcat", e, run_hcat, Some(oracle_hcat), "BlockConcatenate::hcat", "Csc.hcat / C16.hcat_spec, hcat_error_iff"),
        ch!("csc.vcat", e, run_vcat, Some(oracle_vcat), "BlockConcatenate::vcat", "Csc.vcat / C16.vcat_spec, vcat_error_iff"),
        ch!("csc.blockdiag", e, run_blockdiag, Some(oracle_blockdiag), "BlockConcatenate::blockdiag", "Csc.blockdiag / C16.blockdiag_spec, blockdiag_error_iff"),
        ch!("csc.hvcat", e, run_hvcat, Some(oracle_hvcat), "BlockConcatenate::hvcat + hvcat_dim_check", "Csc.hvcat, Csc.hvcatDimCheck / C16.hvcat_spec, hvcat_error_iff"),
        ch!("vec.dot", e, run_v_dot, Some(oracle_v_reduce), "VectorMath::dot", "Vec.dot / C16.vec_sums_spec, vec_dot_linear"),
        ch!("vec.sumsq", e, run_v_sumsq, Some(oracle_v_reduce), "VectorMath::sumsq", "Vec.sumsq / C16.vec_sums_spec, vec_sumsq_definite"),
        ch!("vec.sum", e, run_v_sum, Some(oracle_v_reduce), "VectorMath::sum", "Vec.sum / C16.vec_sums_spec"),
        ch!("vec.norm", e, run_v_norm, Some(oracle_v_reduce), "VectorMath::norm", "Vec.norm / C16.vec_norm_real"),
        ch!("vec.norm_inf", e, run_v_norm_inf, Some(oracle_v_reduce), "VectorMath::norm_inf", "Vec.normInf / C16.vec_normInf_spec, vec_normInf_nan"),
        ch!("vec.norm_one", e, run_v_norm_one, Some(oracle_v_reduce), "VectorMath::norm_one", "Vec.normOne / C16.vec_normOne_spec"),
        ch!("vec.norm_scaled", e, run_v_norm_scaled, Some(oracle_v_reduce2), "VectorMath::norm_scaled", "Vec.normScaledE / C16.vec_norm_real"),
        ch!("vec.norm_inf_scaled", e, run_v_norm_inf_scaled, Some(oracle_v_reduce2), "VectorMath::norm_inf_scaled", "Vec.normInfScaledE / C16.vec_normInfScaled_diff_spec"),
        ch!("vec.mean", e, run_v_mean, Some(oracle_v_reduce), "VectorMath::mean", "Vec.mean / C16.vec_mean_spec"),
        ch!("vec.minimum", e, run_v_minimum, Some(oracle_v_reduce), "VectorMath::minimum", "Vec.minimum? / C16.vec_min_max_spec"),
        ch!("vec.maximum", e, run_v_maximum, Some(oracle_v_reduce), "VectorMath::maximum", "Vec.maximum? / C16.vec_min_max_spec"),
        ch!("vec.negate", e, run_v_negate, Some(oracle_v_elementwise), "VectorMath::negate", "Vec.negate / C16.vec_elementwise_eq_scalarop"),
        ch!("vec.recip", e, run_v_recip, Some(oracle_v_elementwise), "VectorMath::recip", "Vec.recip / C16.vec_elementwise_eq_scalarop"),
        ch!("vec.sqrt", e, run_v_sqrt, Some(oracle_v_elementwise), "VectorMath::sqrt", "Vec.vsqrt / C16.vec_elementwise_eq_scalarop"),
        ch!("vec.rsqrt", e, run_v_rsqrt, Some(oracle_v_elementwise), "VectorMath::rsqrt", "Vec.rsqrt / C16.vec_elementwise_eq_scalarop"),
        ch!("vec.hadamard", e, run_v_hadamard, Some(oracle_v_elementwise), "VectorMath::hadamard", "Vec.hadamardFull / C16.vec_hadamard_spec"),
        ch!("vec.scale", e, run_v_scale, Some(oracle_v_elementwise), "VectorMath::scale", "Vec.scale / C16.vec_elementwise_eq_scalarop"),
        ch!("vec.translate", e, run_v_translate, Some(oracle_v_elementwise), "VectorMath::translate", "Vec.translate / C16.vec_elementwise_eq_scalarop"),
        ch!("vec.clip", e, run_v_clip, Some(oracle_v_elementwise), "VectorMath::clip / ScalarMath::clip", "Vec.vclip, Vec.clip / C16.vec_clip_spec"),
        ch!("vec.select", e, run_v_select, Some(oracle_v_elementwise), "VectorMath::select", "Vec.selectE / C16.vec_select_spec"),
        ch!("vec.axpby", e, run_v_axpby, Some(oracle_v_elementwise), "VectorMath::axpby", "Vec.axpbyE / C16.vec_axpby_spec"),
        ch!("vec.waxpby", e, run_v_waxpby, Some(oracle_v_elementwise), "VectorMath::waxpby", "Vec.waxpbyE / C16.vec_waxpby_spec, vec_dot_linear"),
        ch!("vec.dot_shifted", e, run_v_dot_shifted, Some(oracle_v_reduce2), "VectorMath::dot_shifted", "Vec.dotShiftedE / C16.vec_dotShifted_spec"),
        ch!("vec.norm_one_scaled", e, run_v_norm_one_scaled, Some(oracle_v_reduce2), "VectorMath::norm_one_scaled", "Vec.normOneScaled / C16.vec_normOne_spec"),
        ch!("vec.norm_inf_diff", e, run_v_norm_inf_diff, Some(oracle_v_reduce2), "VectorMath::norm_inf_diff", "Vec.normInfDiff / C16.vec_normInfScaled_diff_spec"),
        ch!("vec.dist", e, run_v_dist, Some(oracle_v_reduce2), "VectorMath::dist", "Vec.dist / C16.vec_norm_real"),
        ch!("scalar.logsafe", e, run_s_logsafe, Some(oracle_s_logsafe), "ScalarMath::logsafe", "Nonsym.logsafe / C16.logsafe_spec"),
        ch!("scalar.clip", e, run_s_clip, Some(oracle_s_clip), "ScalarMath::clip", "Vec.clip / C16.vec_clip_spec"),
        ch!("vec.is_finite", e, run_v_is_finite, Some(oracle_v_reduce2), "VectorMath::is_finite", "Vec.isFinite / C16.vec_isFinite_iff"),
        ch!("vec.normalize", e, run_v_normalize, Some(oracle_v_reduce2), "VectorMath::normalize", "Vec.normalize / C16.vec_normalize_branches, vec_normalize_real"),
        ch!("vec.copy_from", e, run_v_copy_from, Some(oracle_v_elementwise), "VectorMath::copy_from", "Vec.copyFrom / C16.vec_copyFrom_spec"),
        ch!("vec.set", e, run_v_set, Some(oracle_v_elementwise), "VectorMath::set", "Vec.setAll / C16.vec_elementwise_eq_scalarop"),
        ch!("vec.scalarop", e, run_v_scalarop, Some(oracle_v_elementwise), "VectorMath::scalarop", "Vec.scalarop / C16.vec_scalarop_spec"),
        ch!("vec.scalarop_from", e, run_v_scalarop_from, Some(oracle_v_elementwise), "VectorMath::scalarop_from", "Vec.scalaropFrom / C16.vec_scalaropFrom_spec"),
    ]
    .into_iter()
    .chain(dense::channels())
    .collect()
}

// ---------------------------------------------------------------- generators

/// all canonical patterns of an m×n matrix, values drawn from a small-integer family
fn exhaustive_patterns(s: &mut Session, m: usize, n: usize, f: &dyn Fn(&mut Session, &CscMatrix<f64>, bool)) {
    let cells = m * n;
    for mask in 0u32..(1u32 << cells) {
        let mut colptr = vec![0];
        let mut rowval = vec![];
        let mut nzval = vec![];
        for c in 0..n {
            for r in 0..m {
                if mask >> (c * m + r) & 1 == 1 {
                    rowval.push(r);
                    // includes explicit structural zeros
                    nzval.push(s.rng.smallint(2));
                }
            }
            colptr.push(rowval.len());
        }
        let a = CscMatrix::new(m, n, colptr, rowval, nzval);
        f(s, &a, true);
    }
}

#[derive(Clone, Copy)]
enum VK {
    Int,
    Float,
}
fn vecv(s: &mut Session, n: usize, k: VK) -> Vec<f64> {
    match k {
        VK::Int => gen::vec_of(&mut s.rng, n, Vals::SmallInt(3)),
        VK::Float => {
            if s.rng.bool(0.5) {
                gen::vec_of(&mut s.rng, n, Vals::Normal)
            } else {
                gen::vec_of(&mut s.rng, n, Vals::LogMag(-8.0, 8.0))
            }
        }
    }
}
fn coef(s: &mut Session, k: VK) -> f64 {
    match s.rng.below(6) {
        0 => 0.0,
        1 => 1.0,
        2 => -1.0,
        3 => -0.0,
        _ => match k {
            VK::Int => s.rng.smallint(3),
            VK::Float => s.rng.normal(),
        },
    }
}

/// operations defined for any well-dimensioned matrix (sorted or not, duplicates or not)
fn ops_any(s: &mut Session, a: &CscMatrix<f64>, k: VK) {
    s.submit(Line::new("csc.check_format").csc("", a).done());
    s.submit(Line::new("csc.transpose").csc("", a).done());
    s.submit(Line::new("csc.is_triu").csc("", a).done());
    s.submit(Line::new("csc.dropzeros").csc("", a).done());
    s.submit(Line::new("csc.canonicalize").csc("", a).done());
    s.submit(Line::new("csc.findnz").csc("", a).done());
    if a.m == a.n {
        s.submit(Line::new("csc.to_triu").csc("", a).done());
    }
    // gemv, all fast-path combinations over the run
    let (ca, cb) = (coef(s, k), coef(s, k));
    let (x, y) = (vecv(s, a.n, k), vecv(s, a.m, k));
    s.submit(Line::new("csc.gemv_n").csc("", a).fs("y", &y).fs("x", &x).f("a", ca).f("b", cb).done());
    let (ca, cb) = (coef(s, k), coef(s, k));
    let (x, y) = (vecv(s, a.m, k), vecv(s, a.n, k));
    s.submit(Line::new("csc.gemv_t").csc("", a).fs("y", &y).fs("x", &x).f("a", ca).f("b", cb).done());
    // sums and norms
    let vn = vecv(s, a.n, k);
    let vm = vecv(s, a.m, k);
    let vn_abs: Vec<f64> = vn.iter().map(|v| v.abs()).collect();
    let vm_abs: Vec<f64> = vm.iter().map(|v| v.abs()).collect();
    s.submit(Line::new("csc.col_sums").csc("", a).fs("v", &vn).done());
    s.submit(Line::new("csc.row_sums").csc("", a).fs("v", &vm).done());
    s.submit(Line::new("csc.col_norms").csc("", a).fs("v", &vn).done());
    s.submit(Line::new("csc.col_norms_no_reset").csc("", a).fs("v", &vn_abs).done());
    s.submit(Line::new("csc.row_norms").csc("", a).fs("v", &vm).done());
    s.submit(Line::new("csc.row_norms_no_reset").csc("", a).fs("v", &vm_abs).done());
    if a.m == a.n {
        s.submit(Line::new("csc.col_norms_sym").csc("", a).fs("v", &vn).done());
        s.submit(Line::new("csc.col_norms_sym_no_reset").csc("", a).fs("v", &vn_abs).done());
    }
    // scalings
    let c = coef(s, k);
    s.submit(Line::new("csc.scale").csc("", a).f("c", c).done());
    s.submit(Line::new("csc.negate").csc("", a).done());
    let (l, r) = (vecv(s, a.m, k), vecv(s, a.n, k));
    s.submit(Line::new("csc.lscale").csc("", a).fs("l", &l).done());
    s.submit(Line::new("csc.rscale").csc("", a).fs("r", &r).done());
    s.submit(Line::new("csc.lrscale").csc("", a).fs("l", &l).fs("r", &r).done());
    // index_to_coord: every index for small matrices, plus one out of range
    let nnz = a.nnz();
    if nnz <= 9 {
        for idx in 0..=nnz {
            s.submit(Line::new("csc.index_to_coord").csc("", a).u("idx", idx).done());
        }
    } else {
        let idx = s.rng.below(nnz + 1);
        s.submit(Line::new("csc.index_to_coord").csc("", a).u("idx", idx).done());
    }
}

/// operations that need sorted, duplicate-free columns
fn ops_canonical(s: &mut Session, a: &CscMatrix<f64>, exhaustive: bool, k: VK) {
    // every keep mask for small m, random otherwise
    if a.m <= 3 && exhaustive {
        for km in 0u32..(1 << a.m) {
            let keep: Vec<bool> = (0..a.m).map(|i| km >> i & 1 == 1).collect();
            s.submit(Line::new("csc.select_rows").csc("", a).bs("keep", &keep).done());
        }
    } else {
        let keep: Vec<bool> = (0..a.m).map(|_| s.rng.bool(0.6)).collect();
        s.submit(Line::new("csc.select_rows").csc("", a).bs("keep", &keep).done());
    }
    // get/set: every position (and one out of bounds each way) for small matrices
    let positions: Vec<(usize, usize)> = if a.m * a.n <= 9 && exhaustive {
        let mut p: Vec<(usize, usize)> = (0..a.m).flat_map(|i| (0..a.n).map(move |j| (i, j))).collect();
        p.push((a.m, 0));
        p.push((0, a.n));
        p
    } else {
        (0..3).map(|_| (s.rng.below(a.m + 1), s.rng.below(a.n + 1))).collect()
    };
    for (i, j) in positions {
        s.submit(Line::new("csc.get_entry").csc("", a).u("row", i).u("col", j).done());
        let v = match s.rng.below(4) {
            0 => 0.0,
            1 => -0.0,
            _ => match k {
                VK::Int => s.rng.smallint(3),
                VK::Float => s.rng.normal(),
            },
        };
        s.submit(Line::new("csc.set_entry").csc("", a).u("row", i).u("col", j).f("v", v).done());
    }
    if a.m == a.n {
        let (ca, cb) = (coef(s, k), coef(s, k));
        let (x, y) = (vecv(s, a.n, k), vecv(s, a.n, k));
        // symv reads only what is stored; any canonical square matrix is memory safe
        s.submit(Line::new("csc.symv").csc("", a).fs("y", &y).fs("x", &x).f("a", ca).f("b", cb).done());
        s.submit(Line::new("csc.quad_form").csc("", a).fs("y", &y).fs("x", &x).done());
        let t = a.to_triu();
        let (ca, cb) = (coef(s, k), coef(s, k));
        s.submit(Line::new("csc.symv").csc("", &t).fs("y", &y).fs("x", &x).f("a", ca).f("b", cb).done());
        // b = ±0 with NaN / ±inf / huge values in y: y must not be read
        if a.n > 0 {
            let yp: Vec<f64> = (0..a.n).map(|_| [f64::NAN, f64::INFINITY, f64::NEG_INFINITY, 1e308, 1.0, 0.0][s.rng.below(6)]).collect();
            let bz = if s.rng.bool(0.5) { 0.0 } else { -0.0 };
            let ca = coef(s, k);
            s.count("symv:b=0,poisoned-y");
            s.submit(Line::new("csc.symv").csc("", &t).fs("y", &yp).fs("x", &x).f("a", ca).f("b", bz).done());
        }
        s.submit(Line::new("csc.quad_form").csc("", &t).fs("y", &y).fs("x", &x).done());
    }
}

fn ops_on(s: &mut Session, a: &CscMatrix<f64>, exhaustive: bool) {
    ops_any(s, a, VK::Int);
    ops_canonical(s, a, exhaustive, VK::Int);
}

/// well-dimensioned matrix with unsorted columns and duplicate entries
fn noncanonical(s: &mut Session, m: usize, n: usize, vals: Vals) -> CscMatrix<f64> {
    let mut colptr = vec![0usize];
    let mut rowval = vec![];
    let mut nzval = vec![];
    for _ in 0..n {
        let k = if m == 0 { 0 } else { s.rng.below(5) };
        for _ in 0..k {
            rowval.push(s.rng.below(m));
            nzval.push(gen::value(&mut s.rng, vals));
        }
        colptr.push(rowval.len());
    }
    CscMatrix { m, n, colptr, rowval, nzval }
}

/// tall matrices whose columns hold many unsorted (and repeated) entries: sorting / merging code
/// that switches algorithm at a column length (insertion sort below a threshold, shared scratch
/// buffers above it) is only exercised beyond toy sizes
fn tall_unsorted(s: &mut Session) {
    let m = 18 + s.rng.below(47);
    let n = 1 + s.rng.below(4);
    let mut colptr = vec![0usize];
    let (mut rowval, mut nzval) = (vec![], vec![]);
    for _ in 0..n {
        let k = match s.rng.below(8) {
            0 => 0,
            1 => 1,
            2 => 15 + s.rng.below(4),
            3 => 31 + s.rng.below(3),
            4 => m.min(40),
            _ => s.rng.below(m + 1),
        };
        let dup = s.rng.bool(0.3);
        let mut rows: Vec<usize> = if dup {
            (0..k).map(|_| s.rng.below(m)).collect()
        } else {
            // distinct rows in random order
            let mut all: Vec<usize> = (0..m).collect();
            for i in (1..all.len()).rev() {
                let j = s.rng.below(i + 1);
                all.swap(i, j);
            }
            all.truncate(k.min(m));
            all
        };
        if s.rng.bool(0.2) {
            rows.sort_unstable();
        }
        for r in rows {
            rowval.push(r);
            nzval.push(s.rng.smallint(4) + if s.rng.bool(0.2) { 0.5 } else { 0.0 });
        }
        colptr.push(rowval.len());
    }
    let a = CscMatrix { m, n, colptr, rowval, nzval };
    s.count("tall-unsorted");
    s.submit(Line::new("csc.canonicalize").csc("", &a).done());
    s.submit(Line::new("csc.check_format").csc("", &a).done());
}

fn malformed(s: &mut Session) {
    // mutate a valid encoding at one site
    let (m, n) = (1 + s.rng.below(4), 1 + s.rng.below(4));
    let mut a = gen::csc(&mut s.rng, m, n, 0.5, Vals::SmallInt(2));
    match s.rng.below(7) {
        0 => { if !a.rowval.is_empty() { let k = s.rng.below(a.rowval.len()); a.rowval[k] = s.rng.below(m + 2); } }
        1 => { let k = s.rng.below(a.colptr.len()); a.colptr[k] = s.rng.below(a.rowval.len() + 2); }
        2 => { a.nzval.push(1.0); }
        3 => { a.colptr.push(a.rowval.len()); }
        4 => { a.n += 1; }
        5 => { if a.rowval.len() >= 2 { let k = s.rng.below(a.rowval.len() - 1); a.rowval.swap(k, k + 1); } }
        _ => { a.colptr.clear(); }
    }
    s.count("malformed");
    s.submit(Line::new("csc.check_format").csc("", &a).done());
    // canonicalize rejects through check_dimensions (colptr[0] != 0 included)
    s.submit(Line::new("csc.canonicalize").csc("", &a).done());
}
fn welldim_but_shifted(a: &CscMatrix<f64>) -> bool {
    a.rowval.len() == a.nzval.len()
        && a.colptr.len() == a.n + 1
        && a.colptr[a.n] == a.rowval.len()
        && a.colptr.windows(2).all(|w| w[0] <= w[1])
        && a.colptr[0] != 0
}

/// every sequence of `len` cells of an m×n grid as a triplet list (covers every multiset
/// in every order), small integer values
fn triplet_sequences(s: &mut Session, m: usize, n: usize, len: usize) {
    let cells = m * n;
    let total = cells.pow(len as u32);
    for code in 0..total {
        let mut c = code;
        let (mut i, mut j, mut v) = (vec![], vec![], vec![]);
        for _ in 0..len {
            let cell = c % cells;
            c /= cells;
            i.push(cell % m);
            j.push(cell / m);
            v.push(s.rng.smallint(2));
        }
        s.submit(Line::new("csc.new_from_triplets").u("m", m).u("n", n).us("I", &i).us("J", &j).fs("V", &v).done());
    }
    s.count(&format!("triplets:{}x{}:len{}", m, n, len));
}

fn random_triplets(s: &mut Session) {
    let (m, n) = (s.rng.below(7), s.rng.below(7));
    let len = s.rng.below(12);
    let kind = s.rng.below(10);
    let (mut i, mut j, mut v) = (vec![], vec![], vec![]);
    for _ in 0..len {
        // kind 0: a column index equal to n (silently dropped by the code), kind 1: beyond n
        // (index panic), kind 2: row out of range (unchecked) — only the correspondence is compared
        let jj = match kind {
            0 if s.rng.bool(0.3) => n,
            1 if s.rng.bool(0.2) => n + 1 + s.rng.below(2),
            _ => if n == 0 { 0 } else { s.rng.below(n) },
        };
        let ii = match kind {
            2 if s.rng.bool(0.3) => m + s.rng.below(2),
            _ => if m == 0 { 0 } else { s.rng.below(m) },
        };
        if (m == 0 || n == 0) && kind > 2 {
            continue;
        }
        i.push(ii);
        j.push(jj);
        v.push(if s.rng.bool(0.7) { s.rng.smallint(3) } else { s.rng.normal() });
    }
    if kind == 3 && !v.is_empty() {
        v.pop(); // length mismatch → assert
    }
    s.submit(Line::new("csc.new_from_triplets").u("m", m).u("n", n).us("I", &i).us("J", &j).fs("V", &v).done());
}

fn from_rows_cases(s: &mut Session) {
    let (m, n) = (s.rng.below(6), s.rng.below(6));
    let ragged = s.rng.bool(0.1) && m >= 2;
    let mut l = Line::new("csc.from_rows").u("nrows", m);
    for r in 0..m {
        let len = if ragged && r == m - 1 { n + 1 } else { n };
        let row: Vec<f64> = (0..len)
            .map(|_| match s.rng.below(6) {
                0 | 1 => 0.0,
                2 => -0.0,
                3 => s.rng.normal(),
                _ => s.rng.smallint(3),
            })
            .collect();
        l = l.fs(&format!("r{}", r), &row);
    }
    s.submit(l.done());
}

fn small_canon(s: &mut Session, m: usize, n: usize) -> CscMatrix<f64> {
    let p = *s.rng.choose(&[0.0, 0.3, 0.6, 1.0]);
    gen::csc(&mut s.rng, m, n, p, Vals::SmallInt(3))
}

fn concat_cases(s: &mut Session) {
    // hcat / vcat: mostly compatible, sometimes not
    let (m, n1, n2) = (s.rng.below(5), s.rng.below(5), s.rng.below(5));
    let m2 = if s.rng.bool(0.2) { m + 1 } else { m };
    let (a, b) = (small_canon(s, m, n1), small_canon(s, m2, n2));
    s.submit(Line::new("csc.hcat").csc("a", &a).csc("b", &b).done());
    let (at, bt): (CscMatrix<f64>, CscMatrix<f64>) = (a.t().into(), b.t().into());
    s.submit(Line::new("csc.vcat").csc("a", &at).csc("b", &bt).done());
    // blockdiag of 0..3 blocks
    let k = s.rng.below(4);
    let mut l = Line::new("csc.blockdiag").u("k", k);
    for i in 0..k {
        let (bm, bn) = (s.rng.below(4), s.rng.below(4));
        let b = small_canon(s, bm, bn);
        l = l.csc(&format!("b{}_", i), &b);
    }
    s.submit(l.done());
    // hvcat grid
    let (nbr, nbc) = (s.rng.below(4), 1 + s.rng.below(3));
    let rows_h: Vec<usize> = (0..nbr).map(|_| s.rng.below(4)).collect();
    let cols_w: Vec<usize> = (0..nbc).map(|_| s.rng.below(4)).collect();
    let defect = s.rng.below(8);
    let mut lens = vec![];
    let mut l = Line::new("csc.hvcat");
    for (bi, &h) in rows_h.iter().enumerate() {
        let len = if defect == 0 && bi == nbr - 1 && nbr > 1 { nbc + 1 } else if defect == 1 && bi == 0 { 0 } else { nbc };
        lens.push(len);
        for bj in 0..len {
            let w = *cols_w.get(bj).unwrap_or(&1);
            let (hh, ww) = match defect {
                2 if bi == nbr - 1 && bj == len - 1 => (h + 1, w),
                3 if bi == nbr - 1 && bj == len - 1 => (h, w + 1),
                _ => (h, w),
            };
            let b = small_canon(s, hh, ww);
            l = l.csc(&format!("b{}_{}_", bi, bj), &b);
        }
    }
    l = l.us("lens", &lens);
    s.submit(l.done());
}

/// a canonical matrix whose `colptr` is shifted to start at k > 0: k orphan entries in front of
/// the column data.  `check_format` / `canonicalize` must answer BadColptr (since /repo
/// 190e6c4); the accessors still run on such unvalidated data.  Only operations whose Rust code reads the
/// columns through `colptr[j]..colptr[j+1]` or sweeps `rowval`/`nzval` as a whole are sent
/// (those are the ones the model follows there); builders that restart from index 0
/// (dropzeros, to_triu, transpose, select_rows, set_entry, rscale, …) are not.
fn shifted_cases(s: &mut Session) {
    let (m, n) = (1 + s.rng.below(5), s.rng.below(5));
    let a = small_canon(s, m, n);
    let k = 1 + s.rng.below(3);
    let mut b = a.clone();
    for c in b.colptr.iter_mut() {
        *c += k;
    }
    let orow: Vec<usize> = (0..k).map(|_| s.rng.below(m)).collect();
    let oval: Vec<f64> = (0..k).map(|_| s.rng.smallint(3)).collect();
    b.rowval = orow.iter().cloned().chain(a.rowval.iter().cloned()).collect();
    b.nzval = oval.iter().cloned().chain(a.nzval.iter().cloned()).collect();
    s.count("shifted-colptr");
    let vm = vecv(s, m, VK::Int);
    let vn = vecv(s, n, VK::Int);
    let vm_abs: Vec<f64> = vm.iter().map(|v| v.abs()).collect();
    let vn_abs: Vec<f64> = vn.iter().map(|v| v.abs()).collect();
    s.submit(Line::new("csc.check_format").csc("", &b).done());
    s.submit(Line::new("csc.canonicalize").csc("", &b).done());
    s.submit(Line::new("csc.shape").csc("", &b).done());
    s.submit(Line::new("csc.is_triu").csc("", &b).done());
    s.submit(Line::new("csc.findnz").csc("", &b).done());
    s.submit(Line::new("csc.row_sums").csc("", &b).fs("v", &vm).done());
    s.submit(Line::new("csc.row_norms").csc("", &b).fs("v", &vm).done());
    s.submit(Line::new("csc.row_norms_no_reset").csc("", &b).fs("v", &vm_abs).done());
    s.submit(Line::new("csc.col_sums").csc("", &b).fs("v", &vn).done());
    s.submit(Line::new("csc.col_norms").csc("", &b).fs("v", &vn).done());
    s.submit(Line::new("csc.col_norms_no_reset").csc("", &b).fs("v", &vn_abs).done());
    let (ca, cb) = (coef(s, VK::Int), coef(s, VK::Int));
    s.submit(Line::new("csc.gemv_n").csc("", &b).fs("y", &vm).fs("x", &vn).f("a", ca).f("b", cb).done());
    s.submit(Line::new("csc.gemv_t").csc("", &b).fs("y", &vn).fs("x", &vm).f("a", ca).f("b", cb).done());
    s.submit(Line::new("csc.scale").csc("", &b).f("c", ca).done());
    s.submit(Line::new("csc.negate").csc("", &b).done());
    s.submit(Line::new("csc.lscale").csc("", &b).fs("l", &vm).done());
    if n > 0 {
        let (i, j) = (s.rng.below(m), s.rng.below(n));
        s.submit(Line::new("csc.get_entry").csc("", &b).u("row", i).u("col", j).done());
    }
    // index_to_coord only from colptr[0] on: below it the Rust expression
    // `partition_point(..) - 1` underflows (panic in debug, usize::MAX in release)
    for idx in k..=b.rowval.len() {
        s.submit(Line::new("csc.index_to_coord").csc("", &b).u("idx", idx).done());
    }
    s.submit(Line::new("csc.eq").csc("a", &b).csc("b", &a).done());
    s.submit(Line::new("csc.is_equal_sparsity").csc("a", &b).csc("b", &b).done());
}

fn new_eq_cases(s: &mut Session) {
    // `new`: valid arguments, and arguments broken at one site
    let (m, n) = (s.rng.below(5), s.rng.below(5));
    let mut a = small_canon(s, m, n);
    match s.rng.below(8) {
        0 => { a.nzval.push(1.0); }
        1 => { a.rowval.push(0); }
        2 => { a.colptr.push(a.rowval.len()); }
        3 => { a.colptr.pop(); }
        4 => { let l = a.colptr.len(); a.colptr[l - 1] += 1; }
        5 => { a.n += 1; }
        // accepted by `new`: unsorted / out-of-range rows, non-monotone colptr
        6 => { if !a.rowval.is_empty() { let k = s.rng.below(a.rowval.len()); a.rowval[k] = m + 1; } }
        _ => {}
    }
    s.submit(Line::new("csc.new").csc("", &a).done());
    s.submit(Line::new("csc.shape").csc("", &a).done());
    // `==`
    let (m, n) = (s.rng.below(4), s.rng.below(4));
    let a = small_canon(s, m, n);
    let mut b = a.clone();
    match s.rng.below(8) {
        0 => {}
        1 => { if !b.nzval.is_empty() { let k = s.rng.below(b.nzval.len()); b.nzval[k] += 1.0; } }
        2 => { if !b.nzval.is_empty() { let k = s.rng.below(b.nzval.len()); b.nzval[k] = f64::NAN; } }
        3 => { for v in b.nzval.iter_mut() { if *v == 0.0 { *v = -0.0; } } }
        4 => { b = small_canon(s, m, n); }
        5 => { b.m += 1; }
        6 => { b = small_canon(s, m, n + 1); }
        _ => { if !b.nzval.is_empty() { let k = s.rng.below(b.nzval.len()); b.nzval[k] = f64::NAN; } let c = b.clone(); s.submit(Line::new("csc.eq").csc("a", &c).csc("b", &c).done()); }
    }
    s.submit(Line::new("csc.eq").csc("a", &a).csc("b", &b).done());
}

fn sparsity_cases(s: &mut Session) {
    let (m, n) = (s.rng.below(5), s.rng.below(5));
    let a = small_canon(s, m, n);
    let mut b = a.clone();
    match s.rng.below(7) {
        0 => {}
        1 => { for v in b.nzval.iter_mut() { *v += 1.0; } }
        2 => { b = small_canon(s, m, n); }
        3 => { b = small_canon(s, m + 1, n); }
        4 => { b = small_canon(s, m, n + 1); }
        5 => {
            // same shape, colptr and number of entries, one row index moved (still canonical):
            // the last entry of a column goes to a later free row
            let cands: Vec<usize> = (0..n).filter(|&c| a.colptr[c + 1] > a.colptr[c] && a.rowval[a.colptr[c + 1] - 1] + 1 < m).collect();
            if !cands.is_empty() {
                let c = *s.rng.choose(&cands);
                b.rowval[a.colptr[c + 1] - 1] += 1;
            }
        }
        _ => {
            // same rowval, an entry moved to the next column (colptr differs)
            let cands: Vec<usize> = (0..n.saturating_sub(1)).filter(|&c| a.colptr[c + 1] > a.colptr[c]).collect();
            if !cands.is_empty() {
                let c = *s.rng.choose(&cands);
                b.colptr[c + 1] -= 1;
            }
        }
    }
    s.submit(Line::new("csc.is_equal_sparsity").csc("a", &a).csc("b", &b).done());
    s.submit(Line::new("csc.check_equal_sparsity").csc("a", &a).csc("b", &b).done());
}

fn special(s: &mut Session) -> f64 {
    *s.rng.choose(&[0.0, -0.0, f64::NAN, f64::INFINITY, f64::NEG_INFINITY, 1.0, -1.0, 1e-310, 1e308, -1e308, f64::MIN_POSITIVE])
}
fn vec_special(s: &mut Session, n: usize) -> Vec<f64> {
    let kind = s.rng.below(7);
    (0..n)
        .map(|_| match kind {
            // leading / exclusive NaNs (minimum/maximum start from ±inf and skip them)
            5 => f64::NAN,
            6 => if s.rng.bool(0.6) { f64::NAN } else { special(s) },
            0 => s.rng.smallint(3),
            1 => s.rng.normal(),
            2 => s.rng.logmag(-150.0, 150.0),
            3 => if s.rng.bool(0.25) { special(s) } else { s.rng.normal() },
            _ => s.rng.normal().abs() + 1e-3,
        })
        .collect()
}
fn vec_cases(s: &mut Session) {
    let n = *s.rng.choose(&[0, 1, 2, 3, 5, 8, 17]);
    // one case in eight: the second operand has another length (the zip kernels truncate,
    // the asserted ones panic)
    let ny = if s.rng.bool(0.125) { if s.rng.bool(0.5) { n + 1 + s.rng.below(2) } else { n.saturating_sub(1 + s.rng.below(2)) } } else { n };
    let (x, y) = (vec_special(s, n), vec_special(s, ny));
    if ny != n {
        s.count("vec:length-mismatch");
    }
    for ch in ["vec.sumsq", "vec.sum", "vec.norm", "vec.norm_inf", "vec.norm_one", "vec.mean", "vec.minimum", "vec.maximum",
               "vec.negate", "vec.recip", "vec.sqrt", "vec.rsqrt", "vec.is_finite", "vec.normalize"] {
        s.submit(Line::new(ch).fs("x", &x).done());
    }
    for ch in ["vec.dot", "vec.norm_scaled", "vec.norm_inf_scaled", "vec.hadamard", "vec.norm_one_scaled", "vec.norm_inf_diff",
               "vec.dist", "vec.copy_from"] {
        s.submit(Line::new(ch).fs("x", &x).fs("y", &y).done());
    }
    // dist / norm_inf_diff of nearby vectors (cancellation), normalize of exactly-zero and of
    // vectors whose squares underflow to a zero norm
    if n > 0 {
        let near: Vec<f64> = x.iter().map(|v| if s.rng.bool(0.5) { *v } else { v * (1.0 + 1e-9) }).collect();
        s.submit(Line::new("vec.dist").fs("x", &x).fs("y", &near).done());
        s.submit(Line::new("vec.norm_inf_diff").fs("x", &x).fs("y", &near).done());
        let z: Vec<f64> = (0..n).map(|_| [0.0, -0.0, 1e-200, -1e-170][s.rng.below(4)]).collect();
        s.submit(Line::new("vec.normalize").fs("x", &z).done());
    }
    s.submit(Line::new("scalar.logsafe").fs("x", &x).done());
    let lsx: Vec<f64> = (0..6).map(|_| match s.rng.below(5) { 0 => special(s), 1 => s.rng.logmag(-300.0, 300.0).abs(), 2 => 1.0 + s.rng.normal() * 1e-8, _ => s.rng.normal().abs() }).collect();
    s.submit(Line::new("scalar.logsafe").fs("x", &lsx).done());
    let (cv, clo, chi) = (if s.rng.bool(0.3) { special(s) } else { s.rng.normal() }, s.rng.normal(), s.rng.normal());
    s.submit(Line::new("scalar.clip").f("v", cv).f("lo", clo).f("hi", chi).done());
    s.submit(Line::new("scalar.clip").f("v", clo).f("lo", clo).f("hi", clo.max(chi)).done());
    let op = s.rng.below(5);
    s.submit(Line::new("vec.scalarop").fs("x", &x).u("op", op).done());
    s.submit(Line::new("vec.scalarop_from").fs("x", &x).fs("y", &y).u("op", op).done());
    let c = if s.rng.bool(0.3) { special(s) } else { s.rng.normal() };
    s.submit(Line::new("vec.scale").fs("x", &x).f("c", c).done());
    s.submit(Line::new("vec.translate").fs("x", &x).f("c", c).done());
    s.submit(Line::new("vec.set").fs("x", &x).f("c", c).done());
    let (lo, hi) = (s.rng.normal(), s.rng.normal());
    let (lo, hi) = if s.rng.bool(0.8) { (lo.min(hi), lo.max(hi)) } else { (lo, hi) };
    s.submit(Line::new("vec.clip").fs("x", &x).f("lo", lo).f("hi", hi).done());
    // clip exactly at the thresholds
    if n >= 2 {
        let mut xb = x.clone();
        xb[0] = lo;
        xb[1] = hi;
        s.submit(Line::new("vec.clip").fs("x", &xb).f("lo", lo).f("hi", hi).done());
    }
    let nidx = if s.rng.bool(0.1) { n + 1 } else { n };
    let idx: Vec<bool> = (0..nidx).map(|_| s.rng.bool(0.5)).collect();
    s.submit(Line::new("vec.select").fs("x", &x).bs("idx", &idx).done());
    let (a, b) = (coef(s, VK::Float), coef(s, VK::Float));
    s.submit(Line::new("vec.axpby").f("a", a).fs("x", &x).f("b", b).fs("y", &y).done());
    let wlen = if s.rng.bool(0.1) { n + 1 } else { n };
    s.submit(Line::new("vec.waxpby").f("a", a).fs("x", &x).f("b", b).fs("y", &y).u("wlen", wlen).done());
    let nds = if s.rng.bool(0.1) { n + 1 } else { ny };
    let (dz, ds) = (vec_special(s, n), vec_special(s, nds));
    let al = s.rng.unit();
    s.submit(Line::new("vec.dot_shifted").fs("z", &x).fs("s", &y).fs("dz", &dz).fs("ds", &ds).f("a", al).done());
}

fn generate(s: &mut Session) {
    if !s.is_searching() {
        s.note("operations WITH a machine-checked theorem (dense meaning and/or canonical output, ClarabelProofs/Props/C16.lean): \
check_format, new, from(rows), new_from_triplets, canonicalize (+ identity on canonical input, idempotence), spalloc, identity, zeros, \
dropzeros, findnz (+ round trip through new_from_triplets), select_rows, to_triu, is_triu, transpose, get_entry, set_entry, \
index_to_coord, nnz / is_square, == (derived PartialEq), is_equal_sparsity / check_equal_sparsity, gemv N, gemv T, symv, quad_form, \
col_sums, row_sums, col_norms(_no_reset), row_norms(_no_reset), col_norms_sym(_no_reset), scale, negate, lscale, rscale, lrscale, \
hcat, vcat, blockdiag, hvcat on a general grid (each with its exact error condition); all 29 kernels of VectorMath plus \
ScalarMath::clip / logsafe (vec_* theorems: entries of the elementwise kernels and exact panic conditions for every scalar type, \
reductions as finite sums / maxima over ordered fields, 2-norm family and normalize over the reals, NaN propagation of norm_inf / \
minimum / maximum as the model encodes it)".to_string());
        s.note("encodings with colptr[0] = k > 0 (rejected with BadColptr by check_format and canonicalize since /repo 190e6c4 — both \
channels and their oracles check exactly that; CscMatrix::new and the public fields still admit them): sent only to the operations \
that read columns through colptr[j]..colptr[j+1] or sweep rowval/nzval as a whole (check_format, canonicalize, shape, is_triu, findnz, row/col sums and norms, gemv N/T, \
scale, negate, lscale, get_entry, index_to_coord for idx >= k, ==, is_equal_sparsity); theorems rowSums_general_spec, \
rowNormsNoReset_general_spec, findnz_shifted, indexToCoord_general_spec say what is computed there. NOT sent: index_to_coord below \
colptr[0] (usize underflow: usize::MAX in release, panic in debug) and the builders that restart at index 0 (dropzeros, \
to_triu, transpose, select_rows, set_entry, rscale, lrscale, hvcat): there the model is not tied to the code".to_string());
        s.note("not covered (listed): sparsevector (sdp-only, crate-private), Display for the dense Matrix, _csc_symv_safe (test-only twin of \
the unchecked symv), csc/utils.rs fill/colcount helpers (model CscBlocks.lean, channels in C11/C12), algebra/utils.rs \
invperm / sortperm / findmax / position_all (crate-private; invperm in C12, the rest chordal-only)".to_string());
    }
    let shapes: &[(usize, usize)] = if s.thorough() {
        &[(1, 1), (2, 2), (3, 3), (2, 3), (3, 2), (4, 3), (1, 4)]
    } else {
        &[(1, 1), (2, 2), (3, 3), (2, 3), (3, 2)]
    };
    if !s.is_searching() {
        for &(m, n) in shapes {
            exhaustive_patterns(s, m, n, &ops_on);
            s.count(&format!("exhaustive:{}x{}", m, n));
        }
        // triplet sequences: all lengths ≤ 4 (thorough: ≤ 5) on 2×2, ≤ 3 (thorough ≤ 4) on 3×2 / 2×3
        let maxlen = if s.thorough() { 5 } else { 4 };
        for len in 0..=maxlen {
            triplet_sequences(s, 2, 2, len);
        }
        for len in 0..=(maxlen - 1) {
            triplet_sequences(s, 3, 2, len);
            triplet_sequences(s, 2, 3, len);
        }
        for n in 0..6 {
            s.submit(Line::new("csc.identity").u("n", n).done());
            for m in 0..4 {
                s.submit(Line::new("csc.zeros").u("m", m).u("n", n).done());
                s.submit(Line::new("csc.spalloc").u("m", m).u("n", n).u("nnz", (m * n) % 5).done());
            }
        }
    }
    for it in 0..s.budget(400, 20000) {
        let (m, n) = (s.rng.below(13), s.rng.below(13));
        let (m, n) = if s.rng.bool(0.3) { (m, m) } else { (m, n) };
        let p = *s.rng.choose(&[0.0, 0.1, 0.3, 0.6, 1.0]);
        let k = if it % 2 == 0 { VK::Int } else { VK::Float };
        let vals = match k {
            VK::Int => Vals::SmallInt(3),
            VK::Float => if s.rng.bool(0.5) { Vals::Normal } else { Vals::LogMag(-6.0, 6.0) },
        };
        let a = gen::csc(&mut s.rng, m, n, p, vals);
        ops_any(s, &a, k);
        ops_canonical(s, &a, false, k);
    }
    for it in 0..s.budget(300, 10000) {
        let (m, n) = (s.rng.below(7), s.rng.below(7));
        let (m, n) = if s.rng.bool(0.3) { (m, m) } else { (m, n) };
        let k = if it % 2 == 0 { VK::Int } else { VK::Float };
        let vals = match k { VK::Int => Vals::SmallInt(3), VK::Float => Vals::Normal };
        let a = noncanonical(s, m, n, vals);
        s.count("noncanonical");
        ops_any(s, &a, k);
    }
    for _ in 0..s.budget(300, 5000) {
        malformed(s);
    }
    for _ in 0..s.budget(120, 2500) {
        tall_unsorted(s);
    }
    for _ in 0..s.budget(300, 10000) {
        random_triplets(s);
        from_rows_cases(s);
        concat_cases(s);
        sparsity_cases(s);
        new_eq_cases(s);
    }
    for _ in 0..s.budget(150, 5000) {
        shifted_cases(s);
    }
    for _ in 0..s.budget(200, 5000) {
        vec_cases(s);
    }
    dense::generate(s);
}

fn main() {
    Session::from_args("C16", channels()).run(generate)
}
