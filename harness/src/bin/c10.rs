//! C10 — equilibration is an exact, bounded, cone-preserving change of variables.
#[path = "common_cones.rs"]
mod common_cones;
use clarabel::algebra::*;
use clarabel::solver::implementations::default::verif_variables;
use clarabel::solver::traits::ProblemData;
use clarabel::solver::SupportedConeT::*;
use clarabel::solver::*;
use clarabel::verif_hooks::cones::{CompositeCone, Cone};
use common_cones::*;
use vharness::gen::{self, Vals};
use vharness::proto::{ff, ffs, ulp_dist};
use vharness::*;

fn resp(out: &str) -> Req {
    Req::parse(&format!("x {}", out)).unwrap_or_else(|| Req::parse("x").unwrap())
}
fn no_panic(out: &str) -> Result<(), String> {
    if out.starts_with("panic") || out.starts_with("err") {
        Err(format!("the implementation failed on valid input: {}", out))
    } else {
        Ok(())
    }
}

fn settings_of(r: &Req) -> DefaultSettings<f64> {
    let mut st = DefaultSettings::<f64>::default();
    st.presolve_enable = false;
    st.chordal_decomposition_enable = false;
    st.verbose = false;
    st.max_threads = 1;
    st.equilibrate_enable = r.b("enable");
    st.equilibrate_max_iter = r.u("maxiter") as u32;
    st.equilibrate_min_scaling = r.f("smin");
    st.equilibrate_max_scaling = r.f("smax");
    st
}

fn fmt_equil(d: &DefaultProblemData<f64>) -> String {
    let q = &d.equilibration;
    Line::out()
        .fs("d", &q.d)
        .fs("e", &q.e)
        .fs("dinv", &q.dinv)
        .fs("einv", &q.einv)
        .f("c", q.c)
        .csc("P", &d.P)
        .fs("q", &d.q)
        .csc("A", &d.A)
        .fs("b", &d.b)
        .s("cones", &fmt_cones(&d.cones))
        .done()
}

// ---------------------------------------------------------------- equil.equilibrate
// DefaultProblemData::new (presolve off) + CompositeCone::new + ProblemData::equilibrate:
// exactly what DefaultSolver::new does before the KKT system is built.

fn run_equilibrate(r: &Req) -> String {
    let cones = parse_cones(r.str("cones"));
    let st = settings_of(r);
    let mut data = DefaultProblemData::<f64>::new(&r.csc("P"), &r.fs("q"), &r.csc("A"), &r.fs("b"), &cones, &st);
    let cc = CompositeCone::<f64>::new(&data.cones);
    assert_eq!(cc.numel(), data.m);
    data.equilibrate(&cc, &st);
    fmt_equil(&data)
}

fn close(a: f64, b: f64, rel: f64) -> bool {
    a == b || (a - b).abs() <= rel * a.abs().max(b.abs()) || (a.abs() < 1e-290 && b.abs() < 1e-290)
}

fn oracle_equilibrate(r: &Req, out: &str) -> Result<(), String> {
    let cones = parse_cones(r.str("cones"));
    let (p, q, a, b) = (r.csc("P"), r.fs("q"), r.csc("A"), r.fs("b"));
    let (enable, iters, smin, smax) = (r.b("enable"), r.u("maxiter"), r.f("smin"), r.f("smax"));
    if numel(&cones) != b.len() || a.m != b.len() || a.n != q.len() || p.n != q.len() || !p.is_triu() {
        return Ok(());
    }
    no_panic(out)?;
    let o = resp(out);
    let (d, e, dinv, einv, c) = (o.fs("d"), o.fs("e"), o.fs("dinv"), o.fs("einv"), o.f("c"));
    let (p2, q2, a2, b2) = (o.csc("P"), o.fs("q"), o.csc("A"), o.fs("b"));
    let icones = parse_cones(o.str("cones"));
    let (n, m) = (q.len(), b.len());
    if d.len() != n || dinv.len() != n || e.len() != m || einv.len() != m {
        return Err("lengths of d/e".into());
    }
    if p2.colptr != p.colptr || p2.rowval != p.rowval || a2.colptr != a.colptr || a2.rowval != a.rowval {
        return Err("sparsity pattern of the internal data changed".into());
    }
    if !enable {
        // disabled => data bitwise untouched, identity scalings
        let same = ffs(&p2.nzval) == ffs(&p.nzval) && ffs(&a2.nzval) == ffs(&a.nzval) && ffs(&q2) == ffs(&q) && ffs(&b2) == ffs(&b);
        if !same {
            return Err("equilibration disabled but the data changed".into());
        }
        if d.iter().chain(e.iter()).chain(dinv.iter()).chain(einv.iter()).any(|&v| v != 1.0) || c != 1.0 {
            return Err("equilibration disabled but the scalings are not 1".into());
        }
        return Ok(());
    }
    // rounding allowance: a handful of roundings per pass on either side of each identity
    let rel = (10.0 * iters as f64 + 12.0) * f64::EPSILON;
    // P̂ = c D P D, Â = E A D, q̂ = c D q, b̂ = E b   (entry for entry)
    for j in 0..p.n {
        for t in p.colptr[j]..p.colptr[j + 1] {
            let i = p.rowval[t];
            let want = c * d[i] * p.nzval[t] * d[j];
            if !close(p2.nzval[t], want, rel) {
                return Err(format!("P̂[{},{}]={:e} but c·d·P·d={:e}", i, j, p2.nzval[t], want));
            }
        }
    }
    for j in 0..a.n {
        for t in a.colptr[j]..a.colptr[j + 1] {
            let i = a.rowval[t];
            let want = e[i] * a.nzval[t] * d[j];
            if !close(a2.nzval[t], want, rel) {
                return Err(format!("Â[{},{}]={:e} but e·A·d={:e}", i, j, a2.nzval[t], want));
            }
        }
    }
    for j in 0..n {
        if !close(q2[j], c * d[j] * q[j], rel) {
            return Err(format!("q̂[{}]={:e} but c·d·q={:e}", j, q2[j], c * d[j] * q[j]));
        }
    }
    for i in 0..m {
        if !close(b2[i], e[i] * b[i], rel) {
            return Err(format!("b̂[{}]={:e} but e·b={:e}", i, b2[i], e[i] * b[i]));
        }
    }
    // inverse scalings are the reciprocals (bitwise)
    for j in 0..n {
        if ff(dinv[j]) != ff(1.0 / d[j]) {
            return Err(format!("dinv[{}] != 1/d", j));
        }
    }
    for i in 0..m {
        if ff(einv[i]) != ff(1.0 / e[i]) {
            return Err(format!("einv[{}] != 1/e", i));
        }
    }
    // positivity as soon as smax > 0, whatever smin is (C10.scalings_positive[_any_min])
    if smax > 0.0 && smin.is_finite() && smax.is_finite() {
        for (k, &v) in d.iter().chain(e.iter()).chain(std::iter::once(&c)).enumerate() {
            if !(v > 0.0 && v.is_finite()) {
                return Err(format!("scaling #{} = {:e} is not positive and finite", k, v));
            }
        }
    }
    // 0 < smin <= smax and at least one pass: d, e in [smin, smax] from ANY start;
    // c in [smin, smax] or untouched (C10.bounds_any_start)
    if smin > 0.0 && smin <= smax && iters >= 1 {
        let slack = 1.0 + 16.0 * f64::EPSILON;
        for (k, &v) in d.iter().chain(e.iter()).enumerate() {
            if !(v >= smin / slack && v <= smax * slack) {
                return Err(format!("scaling #{} = {:e} outside [{:e},{:e}] (general bounds)", k, v, smin, smax));
            }
        }
        if !(c == 1.0 || (c >= smin / slack && c <= smax * slack)) {
            return Err(format!("c = {:e} neither 1 nor in [{:e},{:e}]", c, smin, smax));
        }
    }
    // q = 0 or P = 0: the cost scaling is never touched (C10.cost_unscaled_when_q_zero)
    if (q.iter().all(|&v| v == 0.0) || p.nzval.iter().all(|&v| v == 0.0)) && c != 1.0 {
        return Err(format!("q = 0 or P = 0 but c = {:e}", c));
    }
    // inverted bounds smin > smax > 0: after a pass every d_j is (a rounding of) smin or smax
    if smax > 0.0 && smin > smax && iters >= 1 {
        for (j, &v) in d.iter().enumerate() {
            if ulp_dist(v, smin) > 4 && ulp_dist(v, smax) > 4 {
                return Err(format!("inverted bounds: d[{}] = {:e} is neither min nor max", j, v));
            }
        }
    }
    // bounds (the settings are sane: 0 < smin <= 1 <= smax)
    if smin > 0.0 && smin <= 1.0 && 1.0 <= smax {
        let slack = 1.0 + 16.0 * f64::EPSILON;
        for (k, &v) in d.iter().chain(e.iter()).chain(std::iter::once(&c)).enumerate() {
            if !(v >= smin / slack && v <= smax * slack) {
                return Err(format!("scaling #{} = {:e} outside [{:e},{:e}]", k, v, smin, smax));
            }
        }
    }
    // zero rows / columns in scalar cones stay unscaled
    let rngs = ranges(&icones);
    let mut rownz = vec![false; m];
    let mut colnz = vec![false; n];
    for j in 0..a.n {
        for t in a.colptr[j]..a.colptr[j + 1] {
            if a.nzval[t] != 0.0 {
                rownz[a.rowval[t]] = true;
                colnz[j] = true;
            }
        }
    }
    for j in 0..p.n {
        for t in p.colptr[j]..p.colptr[j + 1] {
            if p.nzval[t] != 0.0 {
                colnz[j] = true;
                colnz[p.rowval[t]] = true;
            }
        }
    }
    if smin <= 1.0 && 1.0 <= smax {
        for j in 0..n {
            if !colnz[j] && d[j] != 1.0 {
                return Err(format!("zero column {} of [P;A] scaled: d={:e}", j, d[j]));
            }
        }
    }
    // arbitrary 0 < smin <= smax, at least one pass: all-zero rows (scalar cones) and all-zero
    // columns end with exactly clip(1, smin, smax) (C10.zero_rows_general / zero_cols_general)
    let rest = if 1.0 < smin { smin } else if smax < 1.0 { smax } else { 1.0 };
    let general = smin > 0.0 && smin <= smax && iters >= 1;
    if general {
        for j in 0..n {
            if !colnz[j] && d[j] != rest {
                return Err(format!("zero column {} of [P;A]: d={:e}, expected clip(1,min,max)={:e}", j, d[j], rest));
            }
        }
    }
    if iters == 0 && (d.iter().chain(e.iter()).any(|&v| v != 1.0) || c != 1.0) {
        return Err("no pass but the scalings are not 1".into());
    }
    for (cone, rg) in icones.iter().zip(rngs.iter()) {
        let scalar = matches!(cone, ZeroConeT(_) | NonnegativeConeT(_));
        if scalar && general {
            for i in rg.clone() {
                if !rownz[i] && e[i] != rest {
                    return Err(format!("zero row {} of A (scalar cone): e={:e}, expected clip(1,min,max)={:e}", i, e[i], rest));
                }
            }
        }
        if scalar {
            if smin <= 1.0 && 1.0 <= smax {
                for i in rg.clone() {
                    if !rownz[i] && e[i] != 1.0 {
                        return Err(format!("zero row {} of A (scalar cone) scaled: e={:e}", i, e[i]));
                    }
                }
            }
        } else {
            // e uniform on the range of every non-scalar cone (up to the rounding of e·(1/e)·mean)
            for i in rg.clone() {
                if ulp_dist(e[i], e[rg.start]) > 8 {
                    return Err(format!("e not uniform on cone {}: e[{}]={:e} e[{}]={:e}", fmt_cone(cone), rg.start, e[rg.start], i, e[i]));
                }
            }
        }
    }
    Ok(())
}

// ---------------------------------------------------------------- equil.solver_new (oracle only)
// the data of a freshly built solver are the ones produced by the modelled call sequence

fn run_solver_new(r: &Req) -> String {
    let cones = parse_cones(r.str("cones"));
    let st = settings_of(r);
    let solver = DefaultSolver::<f64>::new(&r.csc("P"), &r.fs("q"), &r.csc("A"), &r.fs("b"), &cones, st);
    let direct = run_equilibrate(r);
    format!("same={}", (fmt_equil(&solver.data) == direct) as usize)
}
fn oracle_solver_new(_r: &Req, out: &str) -> Result<(), String> {
    if out == "same=1" {
        Ok(())
    } else {
        Err(format!("solver.data after DefaultSolver::new differs from new+equilibrate: {}", out))
    }
}

// ---------------------------------------------------------------- equil.unscale_roundtrip
// scale a user point (x, s, z) into internal coordinates with the scalings `equilibrate` left
// (x̂ = (x∘dinv)·τ, ŝ = (s∘e)·τ, ẑ = (z∘einv)·(τc)) and run the real `DefaultVariables::unscale`.

fn run_unscale_roundtrip(r: &Req) -> String {
    let cones = parse_cones(r.str("cones"));
    let st = settings_of(r);
    let mut data = DefaultProblemData::<f64>::new(&r.csc("P"), &r.fs("q"), &r.csc("A"), &r.fs("b"), &cones, &st);
    let cc = CompositeCone::<f64>::new(&data.cones);
    assert_eq!(cc.numel(), data.m);
    data.equilibrate(&cc, &st);
    let (tau, kappa) = (r.f("tau"), r.f("kappa"));
    let mut v = DefaultVariables::<f64>::new(0, 0);
    v.x = r.fs("ux");
    v.s = r.fs("us");
    v.z = r.fs("uz");
    {
        let q = &data.equilibration;
        v.x.hadamard(&q.dinv).scale(tau);
        v.s.hadamard(&q.e).scale(tau);
        v.z.hadamard(&q.einv).scale(tau * q.c);
    }
    v.τ = tau;
    v.κ = kappa;
    verif_variables::unscale(&mut v, &data, false);
    Line::out().fs("x", &v.x).fs("s", &v.s).fs("z", &v.z).f("tau", v.τ).f("kappa", v.κ).done()
}
fn oracle_unscale_roundtrip(r: &Req, out: &str) -> Result<(), String> {
    let (smin, smax, tau, kappa) = (r.f("smin"), r.f("smax"), r.f("tau"), r.f("kappa"));
    let (x, s, z) = (r.fs("ux"), r.fs("us"), r.fs("uz"));
    let (q, b) = (r.fs("q"), r.fs("b"));
    if !(smax > 0.0) || tau == 0.0 || !tau.is_finite() || x.len() != q.len() || s.len() != b.len() || z.len() != b.len() {
        return Ok(());
    }
    no_panic(out)?;
    let o = resp(out);
    let rel = 12.0 * f64::EPSILON;
    for (name, want, got) in [("x", &x, o.fs("x")), ("s", &s, o.fs("s")), ("z", &z, o.fs("z"))] {
        if want.len() != got.len() {
            return Err(format!("length of {}", name));
        }
        for i in 0..want.len() {
            if !close(got[i], want[i], rel) {
                return Err(format!("unscale∘scale: {}[{}] = {:e}, started from {:e}", name, i, got[i], want[i]));
            }
        }
    }
    if !close(o.f("tau"), 1.0, 4.0 * f64::EPSILON) || !close(o.f("kappa"), kappa / tau, 8.0 * f64::EPSILON) {
        return Err(format!("τ = {:e}, κ = {:e} after unscale (expected 1, {:e})", o.f("tau"), o.f("kappa"), kappa / tau));
    }
    Ok(())
}

// ---------------------------------------------------------------- equil.rectify

fn run_rectify(r: &Req) -> String {
    let cones = parse_cones(r.str("cones"));
    let e = r.fs("e");
    let cc = CompositeCone::<f64>::new(&cones);
    let mut delta = vec![f64::NAN; e.len()];
    let ch = cc.rectify_equilibration(&mut delta, &e);
    Line::out().fs("delta", &delta).b("changed", ch).done()
}
fn oracle_rectify(r: &Req, out: &str) -> Result<(), String> {
    let cones = parse_cones(r.str("cones"));
    let e = r.fs("e");
    if numel(&cones) != e.len() || e.iter().any(|&v| !(v > 0.0) || !v.is_finite()) {
        return Ok(());
    }
    no_panic(out)?;
    let o = resp(out);
    let delta = o.fs("delta");
    let mut any = false;
    for (cone, rg) in cones.iter().zip(ranges(&cones)) {
        let scalar = matches!(cone, ZeroConeT(_) | NonnegativeConeT(_));
        if scalar {
            if rg.clone().any(|i| delta[i] != 1.0) {
                return Err(format!("scalar cone {} rescaled", fmt_cone(cone)));
            }
        } else {
            any = true;
            // e·δ is constant on the cone and lies between min(e) and max(e) (a mean)
            let lo = rg.clone().map(|i| e[i]).fold(f64::INFINITY, f64::min);
            let hi = rg.clone().map(|i| e[i]).fold(0.0, f64::max);
            for i in rg.clone() {
                let v = e[i] * delta[i];
                if ulp_dist(v, e[rg.start] * delta[rg.start]) > 8 {
                    return Err(format!("e·δ not uniform on {}", fmt_cone(cone)));
                }
                if !(v >= lo * (1.0 - 1e-14) && v <= hi * (1.0 + 1e-14)) {
                    return Err(format!("e·δ = {:e} outside [min e, max e] = [{:e},{:e}]", v, lo, hi));
                }
            }
        }
    }
    if o.b("changed") != any {
        return Err("changed flag".into());
    }
    Ok(())
}

// ---------------------------------------------------------------- csc.norms / csc.scalings

fn run_norms(r: &Req) -> String {
    let a = r.csc("");
    let mut col = vec![f64::NAN; a.n];
    a.col_norms(&mut col);
    let mut colnr = r.fs("init");
    a.col_norms_no_reset(&mut colnr);
    let mut row = vec![f64::NAN; a.m];
    a.row_norms(&mut row);
    let mut sym = vec![];
    if a.m == a.n {
        sym = vec![f64::NAN; a.n];
        a.col_norms_sym(&mut sym);
    }
    Line::out().fs("col", &col).fs("colnr", &colnr).fs("row", &row).fs("sym", &sym).done()
}
fn run_scalings(r: &Req) -> String {
    let a = r.csc("");
    let (l, rr, c) = (r.fs("l"), r.fs("r"), r.f("c"));
    let mut x = a.clone();
    x.lrscale(&l, &rr);
    let mut y = a.clone();
    y.lscale(&l);
    let mut z = a.clone();
    z.scale(c);
    Line::out().fs("lr", &x.nzval).fs("l", &y.nzval).fs("s", &z.nzval).done()
}

fn channels() -> Vec<Channel> {
    vec![
        Channel { name: "equil.equilibrate", tol: Tol::Exact, run: run_equilibrate, oracle: Some(oracle_equilibrate),
            modelled: true, rust_fn: "DefaultProblemData::new + ProblemData::equilibrate (kkt_col_norms, scale_data, rectify)",
            lean: "Equil.equilibrate / C10.scaled_data, bounds, zero_rows_unscaled, uniform_on_cones, disabled_is_identity" },
        Channel { name: "equil.solver_new", tol: Tol::Exact, run: run_solver_new, oracle: Some(oracle_solver_new),
            modelled: false, rust_fn: "DefaultSolver::new (solver.data right after construction)", lean: "-" },
        Channel { name: "equil.unscale_roundtrip", tol: Tol::Exact, run: run_unscale_roundtrip, oracle: Some(oracle_unscale_roundtrip),
            modelled: true, rust_fn: "ProblemData::equilibrate + [T]::hadamard/scale + DefaultVariables::unscale",
            lean: "Equil.unscaleRoundtrip (scaleVars, Unscale.unscale) / C10.unscale_scale_id" },
        Channel { name: "equil.rectify", tol: Tol::Exact, run: run_rectify, oracle: Some(oracle_rectify),
            modelled: true, rust_fn: "CompositeCone::rectify_equilibration + per-cone rectify_equilibration",
            lean: "Equil.rectifyGo / C10.uniform_on_cones" },
        Channel { name: "csc.norms", tol: Tol::Exact, run: run_norms, oracle: Some(oracle_norms_dense),
            modelled: true, rust_fn: "CscMatrix::{col_norms, col_norms_no_reset, row_norms, col_norms_sym}",
            lean: "Equil.{colNorms, colNormsNoReset, rowNorms, colNormsSym}" },
        Channel { name: "csc.scalings", tol: Tol::Exact, run: run_scalings, oracle: Some(oracle_scalings),
            modelled: true, rust_fn: "CscMatrix::{lrscale, lscale, scale}", lean: "Equil.{lrscale, lscale, scaleMat}" },
    ]
}

fn oracle_norms_dense(r: &Req, out: &str) -> Result<(), String> {
    let a = r.csc("");
    let init = r.fs("init");
    if a.check_format().is_err() || init.len() != a.n || a.nzval.iter().any(|v| v.is_nan()) || init.iter().any(|v| v.is_nan()) {
        return Ok(());
    }
    no_panic(out)?;
    let o = resp(out);
    let mut col = vec![0.0f64; a.n];
    let mut row = vec![0.0f64; a.m];
    for j in 0..a.n {
        for t in a.colptr[j]..a.colptr[j + 1] {
            col[j] = col[j].max(a.nzval[t].abs());
            row[a.rowval[t]] = row[a.rowval[t]].max(a.nzval[t].abs());
        }
    }
    if ffs(&o.fs("col")) != ffs(&col) {
        return Err("col_norms is not the column-wise max |a_ij|".into());
    }
    if ffs(&o.fs("row")) != ffs(&row) {
        return Err("row_norms is not the row-wise max |a_ij|".into());
    }
    let colnr: Vec<f64> = (0..a.n).map(|j| init[j].max(col[j])).collect();
    if ffs(&o.fs("colnr")) != ffs(&colnr) {
        return Err("col_norms_no_reset is not max(init, column max)".into());
    }
    if a.m == a.n {
        let sym: Vec<f64> = (0..a.n).map(|j| col[j].max(row[j])).collect();
        if ffs(&o.fs("sym")) != ffs(&sym) {
            return Err("col_norms_sym is not max(column max, row max)".into());
        }
    }
    Ok(())
}

fn oracle_scalings(r: &Req, out: &str) -> Result<(), String> {
    let a = r.csc("");
    let (l, rr, c) = (r.fs("l"), r.fs("r"), r.f("c"));
    if a.check_format().is_err() || l.len() != a.m || rr.len() != a.n {
        return Ok(());
    }
    no_panic(out)?;
    let o = resp(out);
    let (x, y, z) = (o.fs("lr"), o.fs("l"), o.fs("s"));
    for j in 0..a.n {
        for t in a.colptr[j]..a.colptr[j + 1] {
            let i = a.rowval[t];
            let v = a.nzval[t];
            if !close(x[t], l[i] * v * rr[j], 4.0 * f64::EPSILON) || ff(y[t]) != ff(v * l[i]) || ff(z[t]) != ff(v * c) {
                return Err(format!("scaled entry ({},{})", i, j));
            }
        }
    }
    Ok(())
}

// ---------------------------------------------------------------- generators

fn random_cone_list(s: &mut Session, kinds: &str, maxc: usize) -> Vec<SupportedConeT<f64>> {
    let k = 1 + s.rng.below(maxc);
    (0..k).map(|_| random_cone(&mut s.rng, kinds, 0, 4)).collect()
}

/// entries r_i · c_j · N(0,1) with row/column magnitudes spread over `spread` decades each
fn scaled_csc(s: &mut Session, m: usize, n: usize, p: f64, spread: f64, triu: bool) -> CscMatrix<f64> {
    let rs: Vec<f64> = (0..m).map(|_| 10f64.powf(s.rng.uniform(-spread, spread))).collect();
    let cs: Vec<f64> = (0..n).map(|_| 10f64.powf(s.rng.uniform(-spread, spread))).collect();
    let zero_row: Vec<bool> = (0..m).map(|_| s.rng.bool(0.12)).collect();
    let zero_col: Vec<bool> = (0..n).map(|_| s.rng.bool(0.12)).collect();
    let mut colptr = vec![0usize];
    let (mut rowval, mut nzval) = (vec![], vec![]);
    for j in 0..n {
        for i in 0..m {
            if triu && i > j {
                continue;
            }
            if s.rng.bool(p) {
                let z = zero_row[i] || zero_col[j] || (triu && (zero_col[i] || zero_row[j]));
                if z {
                    // a structural entry with value 0 now and then, otherwise no entry
                    if s.rng.bool(0.3) {
                        rowval.push(i);
                        nzval.push(0.0);
                    }
                } else {
                    rowval.push(i);
                    let v = if s.rng.bool(0.15) { s.rng.smallint(3) } else { s.rng.normal() };
                    let scale = if triu { (rs[i] * rs[j]).sqrt() * (cs[i] * cs[j]).sqrt() } else { rs[i] * cs[j] };
                    nzval.push(v * scale);
                }
            }
        }
        colptr.push(rowval.len());
    }
    CscMatrix::new(m, n, colptr, rowval, nzval)
}

fn settings_variants() -> Vec<(bool, usize, f64, f64)> {
    vec![
        (true, 10, 1e-4, 1e4), // defaults
        (true, 10, 1e-4, 1e4),
        (true, 1, 1e-4, 1e4),
        (true, 2, 1e-2, 1e2),
        (true, 0, 1e-4, 1e4),
        (true, 25, 1e-4, 1e4),
        (true, 10, 1.0, 1.0),
        (true, 5, 0.5, 2.0),
        (true, 10, 1.0, 1e3),
        (true, 10, 1e-3, 1.0),
        (true, 3, 1e-10, 1e10),
        (false, 10, 1e-4, 1e4),
        (false, 0, 1.0, 1.0),
        // bounds `validate()` accepts although they exclude 1 / are inverted (round 3)
        (true, 3, 2.0, 4.0),
        (true, 5, 1e-3, 0.5),
        (true, 1, 3.0, 3.0),
        (true, 0, 2.0, 4.0),
        (true, 4, 4.0, 2.0),
        (false, 3, 2.0, 4.0),
        (true, 5, 0.0, 1e4),
        (true, 3, -1.0, 10.0),
    ]
}

fn data_case(s: &mut Session) {
    let kinds = *s.rng.choose(&["zn", "znq", "znqepgs", "qepgs", "n", "znqepgs"]);
    let cones = random_cone_list(s, kinds, 4);
    let m = numel(&cones);
    let n = 1 + s.rng.below(6);
    let spread = *s.rng.choose(&[0.0, 1.0, 3.0, 7.5]);
    let dens = *s.rng.choose(&[0.3, 0.6, 1.0]);
    let a = scaled_csc(s, m, n, dens, spread, false);
    let p = match s.rng.below(4) {
        0 => CscMatrix::new(n, n, vec![0; n + 1], vec![], vec![]), // empty P
        _ => scaled_csc(s, n, n, 0.5, spread / 2.0, true),
    };
    let qs = 10f64.powf(s.rng.uniform(-spread, spread));
    let q: Vec<f64> = match s.rng.below(5) {
        0 => vec![0.0; n],
        _ => (0..n).map(|_| if s.rng.bool(0.2) { 0.0 } else { s.rng.normal() * qs }).collect(),
    };
    let bs = 10f64.powf(s.rng.uniform(-spread, spread));
    let b: Vec<f64> = (0..m).map(|_| if s.rng.bool(0.2) { 0.0 } else { s.rng.normal() * bs }).collect();
    let vs = settings_variants();
    let (en, it, lo, hi) = *s.rng.choose(&vs);
    let line = |ch: &str| {
        Line::new(ch)
            .csc("P", &p)
            .fs("q", &q)
            .csc("A", &a)
            .fs("b", &b)
            .s("cones", &fmt_cones(&cones))
            .b("enable", en)
            .u("maxiter", it)
            .f("smin", lo)
            .f("smax", hi)
            .done()
    };
    s.count(&format!("settings:enable={} iters={} min={:e} max={:e}", en, it, lo, hi));
    s.count(&format!("kinds:{}", kinds));
    s.submit(line("equil.equilibrate"));
    if m > 0 && s.rng.bool(0.25) {
        s.submit(line("equil.solver_new"));
    }
    if s.rng.bool(0.3) {
        let mag = *s.rng.choose(&[0.0, 3.0]);
        let ux: Vec<f64> = (0..n).map(|_| s.rng.normal() * 10f64.powf(s.rng.uniform(-mag, mag))).collect();
        let us: Vec<f64> = (0..m).map(|_| if s.rng.bool(0.1) { 0.0 } else { s.rng.normal() * 10f64.powf(s.rng.uniform(-mag, mag)) }).collect();
        let uz: Vec<f64> = (0..m).map(|_| s.rng.normal() * 10f64.powf(s.rng.uniform(-mag, mag))).collect();
        let tau = 10f64.powf(s.rng.uniform(-3.0, 3.0));
        let kappa = 10f64.powf(s.rng.uniform(-6.0, 1.0));
        let l = line("equil.unscale_roundtrip");
        s.submit(format!("{} {}", l, Line::out().fs("ux", &ux).fs("us", &us).fs("uz", &uz).f("tau", tau).f("kappa", kappa).done()));
    }
}

fn rectify_case(s: &mut Session) {
    // internal cone lists are collapsed (SecondOrderCone::new asserts dim >= 2)
    let cones = clarabel::verif_hooks::presolve::new_collapsed(&random_cone_list(s, "znqepgs", 5));
    let m = numel(&cones);
    let e: Vec<f64> = (0..m).map(|_| 10f64.powf(s.rng.uniform(-4.0, 4.0))).collect();
    s.submit(Line::new("equil.rectify").s("cones", &fmt_cones(&cones)).fs("e", &e).done());
}

fn kernel_case(s: &mut Session) {
    let (m, n) = (s.rng.below(6), s.rng.below(6));
    let (m, n) = if s.rng.bool(0.4) { (n, n) } else { (m, n) };
    let a = match s.rng.below(3) {
        0 => gen::csc(&mut s.rng, m, n, 0.5, Vals::SmallInt(3)),
        1 => gen::csc(&mut s.rng, m, n, 0.7, Vals::LogMag(-12.0, 12.0)),
        _ => gen::csc(&mut s.rng, m, n, 0.4, Vals::Normal),
    };
    let init = gen::vec_of(&mut s.rng, n, Vals::SmallInt(2)).iter().map(|v| v.abs()).collect::<Vec<_>>();
    s.submit(Line::new("csc.norms").csc("", &a).fs("init", &init).done());
    let l = gen::vec_of(&mut s.rng, m, Vals::LogMag(-3.0, 3.0));
    let r = gen::vec_of(&mut s.rng, n, Vals::LogMag(-3.0, 3.0));
    let c = s.rng.logmag(-3.0, 3.0);
    s.submit(Line::new("csc.scalings").csc("", &a).fs("l", &l).fs("r", &r).f("c", c).done());
}

fn generate(s: &mut Session) {
    for _ in 0..s.budget(1500, 30000) {
        data_case(s);
    }
    for _ in 0..s.budget(300, 10000) {
        rectify_case(s);
    }
    for _ in 0..s.budget(400, 10000) {
        kernel_case(s);
    }
}

fn main() {
    clarabel::default_infinity();
    Session::from_args("C10", channels()).run(generate)
}
