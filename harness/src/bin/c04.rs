//! C04 — every solve terminates cleanly within its limits.
//!
//! Channels
//!   loop.trace              the real `solve()` (observer hook) vs the Lean control skeleton fed
//!                           with the recorded answers of the numerics
//!   info.check_termination  `DefaultInfo::check_termination` on arbitrary scalars
//!   info.post_process       `DefaultInfo::post_process` (Almost* logic)
//!   info.save_reset         `save_prev_iterate` / `reset_to_prev_iterate` (scalar part)
//!   new.check_dimensions    `DefaultSolver::new` dimension guard
//!   solve.boundary          implementation-only: boundary-shape solves (oracle only)
//!   timers.script           the real `Timers` driven by scripted start/stop/suspend/resume/reset
//!                           sequences vs the Lean state machine (structure exactly; measured
//!                           durations inside the interval the model derives from the harness clock)
//!   timers.solve            the timer tree left behind by `new` + `solve()` (+ a second `solve()`)
//!                           vs the model run over the call sequence of the recorded passes
//!   new.guards              every documented construction panic (dimension asserts, cone
//!                           constructors) vs the model, exact class
#![allow(non_snake_case)]
#![allow(dead_code)]
#![allow(clippy::too_many_arguments)]
use vharness::*;

pub mod common {
    //! Problem encoding, observed solves and trace extraction shared by c04 / c07 / c20.
    use clarabel::algebra::*;
    use clarabel::solver::*;
    use clarabel::verif_hooks::cones::Cone;
    use clarabel::verif_hooks::observer::{self, Event, IterSnapshot};
    use vharness::proto::{ff, parse_f};
    use vharness::*;

    #[derive(Clone, Debug)]
    pub struct Prob {
        pub P: CscMatrix<f64>,
        pub q: Vec<f64>,
        pub A: CscMatrix<f64>,
        pub b: Vec<f64>,
        pub cones: Vec<SupportedConeT<f64>>,
    }

    // ---- cones on the wire: z3/n2/q3/e/p<bits>/g<dim2>_<a1>_<a2>/t3 ; "-" for none ----------
    pub fn fmt_cones(cs: &[SupportedConeT<f64>]) -> String {
        if cs.is_empty() {
            return "-".into();
        }
        cs.iter()
            .map(|c| match c {
                ZeroConeT(k) => format!("z{}", k),
                NonnegativeConeT(k) => format!("n{}", k),
                SecondOrderConeT(k) => format!("q{}", k),
                ExponentialConeT() => "e".to_string(),
                PowerConeT(a) => format!("p{}", ff(*a)),
                GenPowerConeT(al, d2) => {
                    let mut s = format!("g{}", d2);
                    for a in al {
                        s.push('_');
                        s.push_str(&ff(*a));
                    }
                    s
                }
                PSDTriangleConeT(k) => format!("t{}", k),
            })
            .collect::<Vec<_>>()
            .join("/")
    }
    pub fn parse_cones(s: &str) -> Vec<SupportedConeT<f64>> {
        if s == "-" || s.is_empty() {
            return vec![];
        }
        s.split('/')
            .map(|t| {
                let (h, r) = t.split_at(1);
                match h {
                    "z" => ZeroConeT(r.parse().unwrap()),
                    "n" => NonnegativeConeT(r.parse().unwrap()),
                    "q" => SecondOrderConeT(r.parse().unwrap()),
                    "e" => ExponentialConeT(),
                    "p" => PowerConeT(parse_f(r).unwrap()),
                    "g" => {
                        let mut it = r.split('_');
                        let d2: usize = it.next().unwrap().parse().unwrap();
                        GenPowerConeT(it.map(|a| parse_f(a).unwrap()).collect(), d2)
                    }
                    "t" => PSDTriangleConeT(r.parse().unwrap()),
                    _ => panic!("cone token {}", t),
                }
            })
            .collect()
    }
    pub fn cone_nvars(c: &SupportedConeT<f64>) -> usize {
        match c {
            ZeroConeT(k) | NonnegativeConeT(k) | SecondOrderConeT(k) => *k,
            ExponentialConeT() | PowerConeT(_) => 3,
            GenPowerConeT(a, d2) => a.len() + d2,
            PSDTriangleConeT(k) => k * (k + 1) / 2,
        }
    }

    pub fn line_prob(l: Line, p: &Prob) -> Line {
        l.csc("P", &p.P).fs("q", &p.q).csc("A", &p.A).fs("b", &p.b).s("cones", &fmt_cones(&p.cones))
    }
    pub fn req_prob(r: &Req) -> Prob {
        Prob { P: r.csc("P"), q: r.fs("q"), A: r.csc("A"), b: r.fs("b"), cones: parse_cones(r.str("cones")) }
    }

    // ---- settings on the wire ---------------------------------------------------------------
    pub fn tols(s: &DefaultSettings<f64>) -> [f64; 6] {
        [s.tol_gap_abs, s.tol_gap_rel, s.tol_feas, s.tol_infeas_abs, s.tol_infeas_rel, s.tol_ktratio]
    }
    pub fn rtols(s: &DefaultSettings<f64>) -> [f64; 6] {
        [s.reduced_tol_gap_abs, s.reduced_tol_gap_rel, s.reduced_tol_feas, s.reduced_tol_infeas_abs,
         s.reduced_tol_infeas_rel, s.reduced_tol_ktratio]
    }
    /// the part of the settings the Lean `Config` reads + the switches the generators vary
    pub fn line_settings(l: Line, s: &DefaultSettings<f64>) -> Line {
        l.u("maxiter", s.max_iter as usize)
            .f("tl", s.time_limit)
            .b("verbose", s.verbose)
            .fs("tols", &tols(s))
            .fs("rtols", &rtols(s))
            .f("minsw", s.min_switch_step_length)
            .f("minterm", s.min_terminate_step_length)
            .f("msf", s.max_step_fraction)
            .b("eq", s.equilibrate_enable)
            .b("presolve", s.presolve_enable)
            .b("chordal", s.chordal_decomposition_enable)
            .b("sreg", s.static_regularization_enable)
            .b("dreg", s.dynamic_regularization_enable)
            .b("refine", s.iterative_refinement_enable)
            .f("lbs", s.linesearch_backtrack_step)
    }
    pub fn req_settings(r: &Req) -> DefaultSettings<f64> {
        let mut s = DefaultSettings::<f64>::default();
        s.max_iter = r.u("maxiter") as u32;
        s.time_limit = r.f("tl");
        s.verbose = r.b("verbose");
        let t = r.fs("tols");
        s.tol_gap_abs = t[0];
        s.tol_gap_rel = t[1];
        s.tol_feas = t[2];
        s.tol_infeas_abs = t[3];
        s.tol_infeas_rel = t[4];
        s.tol_ktratio = t[5];
        let t = r.fs("rtols");
        s.reduced_tol_gap_abs = t[0];
        s.reduced_tol_gap_rel = t[1];
        s.reduced_tol_feas = t[2];
        s.reduced_tol_infeas_abs = t[3];
        s.reduced_tol_infeas_rel = t[4];
        s.reduced_tol_ktratio = t[5];
        s.min_switch_step_length = r.f("minsw");
        s.min_terminate_step_length = r.f("minterm");
        if r.has("msf") {
            s.max_step_fraction = r.f("msf");
        }
        if r.has("lbs") {
            s.linesearch_backtrack_step = r.f("lbs");
        }
        if r.has("eq") {
            s.equilibrate_enable = r.b("eq");
            s.presolve_enable = r.b("presolve");
            s.chordal_decomposition_enable = r.b("chordal");
            s.static_regularization_enable = r.b("sreg");
            s.dynamic_regularization_enable = r.b("dreg");
            s.iterative_refinement_enable = r.b("refine");
        }
        s
    }

    // ---- observed solve -----------------------------------------------------------------------
    #[derive(Clone, Debug, Default)]
    pub struct PassRec {
        pub snap: IterSnapshot,
        pub dot_bz: f64,
        pub dot_qx: f64,
        pub solve_time: f64,
        pub isdone: bool,
        pub status: String,
        pub iter_at_check: u32,
        pub ip: Option<String>,
        pub ss: Option<bool>,
        pub scaling: Option<String>,
        pub alpha_aff: Option<f64>,
        pub sigma: Option<f64>,
        pub ne: Option<(bool, String)>,
        pub alpha: Option<f64>,
        pub sm: Option<String>,
    }

    pub struct Observed {
        pub passes: Vec<PassRec>,
        pub status: SolverStatus,
        pub info_status: SolverStatus,
        pub iterations: u32,
        pub info_iterations: u32,
        pub info_step_length: f64,
        pub symmetric: bool,
        pub allows_pd: bool,
        pub log: String,
        pub x: Vec<f64>,
        pub s: Vec<f64>,
        pub z: Vec<f64>,
        pub obj_val: f64,
        pub obj_val_dual: f64,
        pub solve_time: f64,
    }

    fn split_tuple(s: &str) -> Vec<String> {
        // "(true, Update(Dual))" -> ["true", "Update(Dual)"] ; "NoUpdate" -> ["NoUpdate"]
        let t = s.trim();
        let inner = if t.starts_with('(') && t.ends_with(')') { &t[1..t.len() - 1] } else { t };
        let mut out = vec![];
        let mut depth = 0;
        let mut cur = String::new();
        for c in inner.chars() {
            match c {
                '(' => { depth += 1; cur.push(c); }
                ')' => { depth -= 1; cur.push(c); }
                ',' if depth == 0 => { out.push(cur.trim().to_string()); cur.clear(); }
                _ => cur.push(c),
            }
        }
        if !cur.trim().is_empty() {
            out.push(cur.trim().to_string());
        }
        out
    }

    pub fn passes_of(events: &[Event]) -> Vec<PassRec> {
        let mut v: Vec<PassRec> = vec![];
        for e in events {
            match e {
                Event::Pass(s) => v.push(PassRec { snap: (**s).clone(), ..Default::default() }),
                Event::Scalar(name, x) => {
                    if let Some(p) = v.last_mut() {
                        match *name {
                            "dot_bz" => p.dot_bz = *x,
                            "dot_qx" => p.dot_qx = *x,
                            "solve_time" => p.solve_time = *x,
                            "alpha_aff" => p.alpha_aff = Some(*x),
                            "sigma" => p.sigma = Some(*x),
                            "alpha" => p.alpha = Some(*x),
                            _ => {}
                        }
                    }
                }
                Event::Flag(name, val) => {
                    if let Some(p) = v.last_mut() {
                        let t = split_tuple(val);
                        match *name {
                            "isdone" => {
                                p.isdone = t[0] == "true";
                                p.status = t[1].clone();
                                p.iter_at_check = t[2].parse().unwrap_or(u32::MAX);
                            }
                            "insufficient_progress" => p.ip = Some(val.clone()),
                            "scaling_success" => {
                                p.ss = Some(t[0] == "true");
                                p.scaling = Some(t[1].clone());
                            }
                            "numerical_error" => p.ne = Some((t[0] == "true", t[1].clone())),
                            "small_step" => p.sm = Some(val.clone()),
                            _ => {}
                        }
                    }
                }
            }
        }
        v
    }

    /// Build and solve with the observer on and the log captured in the print buffer.
    pub fn solve_observed(p: &Prob, settings: DefaultSettings<f64>) -> Observed {
        use clarabel::io::ConfigurablePrintTarget;
        let mut solver = DefaultSolver::new(&p.P, &p.q, &p.A, &p.b, &p.cones, settings);
        solver.print_to_buffer();
        let symmetric = solver.cones.is_symmetric();
        let allows_pd = solver.cones.allows_primal_dual_scaling();
        observer::start();
        let r = std::panic::catch_unwind(std::panic::AssertUnwindSafe(|| solver.solve()));
        let events = observer::take();
        if let Err(e) = r {
            std::panic::resume_unwind(e);
        }
        let log = solver.get_print_buffer().unwrap_or_default();
        Observed {
            passes: passes_of(&events),
            status: solver.solution.status,
            info_status: solver.info.status,
            iterations: solver.solution.iterations,
            info_iterations: solver.info.iterations,
            info_step_length: solver.info.step_length,
            symmetric,
            allows_pd,
            log,
            x: solver.solution.x.clone(),
            s: solver.solution.s.clone(),
            z: solver.solution.z.clone(),
            obj_val: solver.solution.obj_val,
            obj_val_dual: solver.solution.obj_val_dual,
            solve_time: solver.solution.solve_time,
        }
    }

    /// iteration column of the progress table in a captured log
    pub fn table_rows(log: &str) -> Vec<String> {
        let mut rows = vec![];
        let mut in_table = false;
        for l in log.lines() {
            if l.starts_with("-----") && l.len() > 80 {
                if in_table {
                    break;
                }
                in_table = true;
                continue;
            }
            if in_table {
                rows.push(l.to_string());
            }
        }
        rows
    }
    pub fn iteration_column(log: &str) -> Vec<usize> {
        table_rows(log)
            .iter()
            .map(|l| l.split_whitespace().next().and_then(|t| t.parse().ok()).unwrap_or(usize::MAX))
            .collect()
    }

    /// oracle arrays of a `loop.trace` request from an observed solve
    pub fn line_oracles(l: Line, o: &Observed) -> Line {
        let ps = &o.passes;
        let f = |g: &dyn Fn(&PassRec) -> f64| -> Vec<f64> { ps.iter().map(|p| g(p)).collect() };
        let b = |g: &dyn Fn(&PassRec) -> bool| -> Vec<bool> { ps.iter().map(|p| g(p)).collect() };
        l.b("sym", o.symmetric)
            .b("pd", o.allows_pd)
            .fs("dbz", &f(&|p| p.dot_bz))
            .fs("dqx", &f(&|p| p.dot_qx))
            .fs("mu", &f(&|p| p.snap.mu))
            .fs("cp", &f(&|p| p.snap.cost_primal))
            .fs("cd", &f(&|p| p.snap.cost_dual))
            .fs("rp", &f(&|p| p.snap.res_primal))
            .fs("rd", &f(&|p| p.snap.res_dual))
            .fs("rpi", &f(&|p| p.snap.res_primal_inf))
            .fs("rdi", &f(&|p| p.snap.res_dual_inf))
            .fs("ga", &f(&|p| p.snap.gap_abs))
            .fs("gr", &f(&|p| p.snap.gap_rel))
            .fs("kt", &f(&|p| p.snap.ktratio))
            .fs("time", &f(&|p| p.solve_time))
            .bs("sok", &b(&|p| p.ss.unwrap_or(true)))
            .bs("kaff", &b(&|p| p.alpha_aff.is_some()))
            .fs("aaff", &f(&|p| p.alpha_aff.unwrap_or(0.0)))
            .fs("sig", &f(&|p| p.sigma.unwrap_or(0.0)))
            .bs("kcomb", &b(&|p| p.ne.as_ref().map(|x| x.0).unwrap_or(false)))
            .fs("alpha", &f(&|p| p.alpha.unwrap_or(0.0)))
    }

    /// canonical rendering of what the real solve did (same shape as Lean `Wire.fmtResult`)
    pub fn fmt_observed(o: &Observed, verbose: bool) -> String {
        let ps = &o.passes;
        let j = |v: Vec<String>| v.join(",");
        let opt = |x: &Option<String>| x.clone().unwrap_or_else(|| "-".into());
        let rows: Vec<String> = if verbose {
            iteration_column(&o.log).iter().map(|x| x.to_string()).collect()
        } else {
            vec![]
        };
        let extra = (o.info_step_length == 0.0) as usize;
        let failed_after_rollback = ps.last().map(|p| p.ip.as_deref() == Some("Fail")).unwrap_or(false);
        // status lines printed after a rollback: counted in the table when there is one
        let rb = if verbose { rows.len() as i64 - ps.len() as i64 - extra as i64 } else { failed_after_rollback as i64 };
        format!(
            "status={:?} iterations={} passes={} rows={} extra={} st={} done={} ip={} ss={} ne={} sm={} stale=0 rb={}",
            o.status,
            o.iterations,
            ps.len(),
            j(rows),
            extra,
            j(ps.iter().map(|p| p.status.clone()).collect()),
            j(ps.iter().map(|p| (p.isdone as u8).to_string()).collect()),
            j(ps.iter().map(|p| opt(&p.ip)).collect()),
            j(ps.iter().map(|p| match p.ss { None => "-".into(), Some(b) => (b as u8).to_string() }).collect()),
            j(ps.iter().map(|p| p.ne.as_ref().map(|x| x.1.clone()).unwrap_or_else(|| "-".into())).collect()),
            j(ps.iter().map(|p| opt(&p.sm)).collect()),
            rb,
        )
    }

    /// field of a rendered response
    pub fn field<'a>(out: &'a str, key: &str) -> Option<&'a str> {
        out.split_whitespace().find_map(|t| t.split_once('=').filter(|(k, _)| *k == key).map(|(_, v)| v))
    }

    // ---- problem generators -------------------------------------------------------------------
    use vharness::gen::{self, Vals};

    pub fn rand_cone(rng: &mut Rng, kinds: &str) -> SupportedConeT<f64> {
        let k = kinds.as_bytes()[rng.below(kinds.len())] as char;
        match k {
            'z' => ZeroConeT(1 + rng.below(3)),
            'n' => NonnegativeConeT(1 + rng.below(4)),
            'q' => SecondOrderConeT(2 + rng.below(3)),
            'e' => ExponentialConeT(),
            'p' => PowerConeT(*rng.choose(&[0.5, 0.3, 0.75, 0.1])),
            'g' => {
                if rng.bool(0.5) {
                    GenPowerConeT(vec![0.4, 0.6], 1 + rng.below(2))
                } else {
                    GenPowerConeT(vec![0.2, 0.3, 0.5], 1)
                }
            }
            't' => PSDTriangleConeT(2 + rng.below(2)),
            _ => unreachable!(),
        }
    }

    /// a point strictly inside the cone (primal) — used to plant feasible problems
    pub fn interior_point(c: &SupportedConeT<f64>, rng: &mut Rng) -> Vec<f64> {
        match c {
            ZeroConeT(k) => vec![0.0; *k],
            NonnegativeConeT(k) => (0..*k).map(|_| rng.uniform(0.5, 2.0)).collect(),
            SecondOrderConeT(k) => {
                let mut v: Vec<f64> = (0..*k).map(|_| rng.uniform(-1.0, 1.0)).collect();
                let nrm: f64 = v[1..].iter().map(|x| x * x).sum::<f64>().sqrt();
                if !v.is_empty() {
                    v[0] = nrm + rng.uniform(0.5, 1.5);
                }
                v
            }
            ExponentialConeT() => {
                // y*exp(x/y) <= z, y>0
                let y = rng.uniform(0.5, 1.5);
                let x = rng.uniform(-1.0, 1.0);
                vec![x, y, y * (x / y).exp() + rng.uniform(0.5, 1.5)]
            }
            PowerConeT(a) => {
                let x = rng.uniform(0.8, 2.0);
                let y = rng.uniform(0.8, 2.0);
                let bound = x.powf(*a) * y.powf(1.0 - a);
                vec![x, y, rng.uniform(-0.5, 0.5) * bound]
            }
            GenPowerConeT(al, d2) => {
                let u: Vec<f64> = al.iter().map(|_| rng.uniform(0.8, 2.0)).collect();
                let bound: f64 = u.iter().zip(al).map(|(x, a)| x.powf(*a)).product();
                let mut w: Vec<f64> = (0..*d2).map(|_| rng.uniform(-1.0, 1.0)).collect();
                let nw: f64 = w.iter().map(|x| x * x).sum::<f64>().sqrt().max(1e-9);
                for x in w.iter_mut() {
                    *x *= 0.5 * bound / nw;
                }
                let mut v = u;
                v.extend(w);
                v
            }
            PSDTriangleConeT(k) => {
                // svec of a diagonally dominant matrix: columns of the upper triangle
                let mut v = vec![];
                for c in 0..*k {
                    for r in 0..=c {
                        if r == c {
                            v.push(rng.uniform(2.0, 3.0) * (*k as f64));
                        } else {
                            v.push(rng.uniform(-0.5, 0.5) * std::f64::consts::SQRT_2);
                        }
                    }
                }
                v
            }
        }
    }

    /// planted feasible conic QP: A x0 + s0 = b with s0 interior; q chosen so that the
    /// problem is bounded (P ≻ 0 on a random subset, q = -P x0 - A' z0 with z0 in the dual
    /// cone for the self-dual cones, otherwise P diagonal positive).
    pub fn planted(rng: &mut Rng, n: usize, cones: Vec<SupportedConeT<f64>>, pdiag: f64, vals: Vals) -> Prob {
        let m: usize = cones.iter().map(cone_nvars).sum();
        let A = gen::csc(rng, m, n, 0.6, vals);
        let x0 = gen::vec_of(rng, n, Vals::Normal);
        let mut s0 = vec![];
        for c in &cones {
            s0.extend(interior_point(c, rng));
        }
        let d = gen::to_dense(&A);
        let b: Vec<f64> = (0..m).map(|i| (0..n).map(|j| d[i][j] * x0[j]).sum::<f64>() + s0[i]).collect();
        let mut colptr = vec![0];
        let mut rowval = vec![];
        let mut nzval = vec![];
        for c in 0..n {
            if pdiag > 0.0 {
                rowval.push(c);
                nzval.push(pdiag * rng.uniform(0.5, 1.5));
            }
            colptr.push(rowval.len());
        }
        let P = CscMatrix::new(n, n, colptr, rowval, nzval);
        let q = gen::vec_of(rng, n, Vals::Normal);
        Prob { P, q, A, b, cones }
    }

    pub fn cone_list(rng: &mut Rng, kinds: &str, max: usize) -> Vec<SupportedConeT<f64>> {
        let k = 1 + rng.below(max);
        (0..k).map(|_| rand_cone(rng, kinds)).collect()
    }
}

use clarabel::algebra::*;
use clarabel::solver::*;
use common::*;
use std::collections::HashMap;
use std::sync::Mutex;
use vharness::gen::Vals;

const TERMINAL: [&str; 10] = [
    "Solved", "PrimalInfeasible", "DualInfeasible", "AlmostSolved", "AlmostPrimalInfeasible",
    "AlmostDualInfeasible", "MaxIterations", "MaxTime", "NumericalError", "InsufficientProgress",
];

// cache for trace cases whose outcome depends on the wall clock (finite positive time limit)
static TIMED: Mutex<Option<HashMap<String, String>>> = Mutex::new(None);

// ---------------------------------------------------------------- loop.trace

fn run_trace(r: &Req) -> String {
    if r.has("timed") {
        if let Some(m) = TIMED.lock().unwrap().as_ref() {
            let key = format!("{}|{}|{}", r.str("Anzval"), r.str("time"), r.str("tl"));
            if let Some(v) = m.get(&key) {
                return v.clone();
            }
        }
    }
    let p = req_prob(r);
    let s = req_settings(r);
    let verbose = s.verbose;
    let o = solve_observed(&p, s);
    fmt_observed(&o, verbose)
}

/// the property, stated on the real solver's behaviour
fn oracle_solve(r: &Req, out: &str) -> Result<(), String> {
    if out.starts_with("panic") {
        return Err(format!("solve panicked: {}", out));
    }
    if out == "hang" || out.starts_with("abort") {
        return Err(format!("solve did not return: {}", out));
    }
    let maxiter = r.u("maxiter");
    let tl = r.f("tl");
    let status = field(out, "status").ok_or("no status")?;
    let iterations: usize = field(out, "iterations").ok_or("no iterations")?.parse().map_err(|_| "iterations")?;
    let passes: usize = field(out, "passes").ok_or("no passes")?.parse().map_err(|_| "passes")?;
    if !TERMINAL.contains(&status) {
        return Err(format!("exit status {} is not terminal", status));
    }
    if iterations > maxiter {
        return Err(format!("iterations {} > max_iter {}", iterations, maxiter));
    }
    if passes > maxiter + 2 {
        return Err(format!("{} passes > max_iter + 2", passes));
    }
    if passes == 0 {
        return Err("no pass observed".into());
    }
    if tl == 0.0 {
        // the first check sees solve_time > 0 = time_limit: the loop must stop in pass 1
        if passes != 1 || iterations != 0 {
            return Err(format!("time_limit=0 but {} passes / {} iterations", passes, iterations));
        }
        if status == "NumericalError" || status == "InsufficientProgress" {
            return Err(format!("time_limit=0 ended with {}", status));
        }
        let st0 = field(out, "st").unwrap_or("").split(',').next().unwrap_or("");
        if maxiter > 0 && !["MaxTime", "Solved", "PrimalInfeasible", "DualInfeasible"].contains(&st0) {
            return Err(format!("time_limit=0: first check settled on {}", st0));
        }
    }
    if maxiter == 0 && (passes != 1 || iterations != 0) {
        return Err(format!("max_iter=0 but {} passes / {} iterations", passes, iterations));
    }
    // every non-final pass either switched strategy or produced a KKT update; the status
    // sequence is Unsolved until the last check
    let done: Vec<&str> = field(out, "done").unwrap_or("").split(',').collect();
    for (k, d) in done.iter().enumerate() {
        if *d == "1" && k + 1 != done.len() {
            let ip = field(out, "ip").unwrap_or("").split(',').nth(k).unwrap_or("");
            if ip != "Update(Dual)" {
                return Err(format!("pass {} was done but the loop went on ({})", k, ip));
            }
        }
    }
    // every step length that reaches add_step lies in (0,1] (C07.step_in_unit); in particular
    // it is a number
    if r.has("alpha") {
        let alphas = r.fs("alpha");
        let sm: Vec<&str> = field(out, "sm").unwrap_or("").split(',').collect();
        for (k, a) in alphas.iter().enumerate() {
            if sm.get(k) == Some(&"NoUpdate") && !(*a > 0.0 && *a <= 1.0) {
                return Err(format!("pass {}: step length {:e} reached add_step", k, a));
            }
        }
    }
    // the clock read by info.update: never goes back, and is not frozen over the solve (the
    // running "solve" timer is folded in at every pass, verbose or not)
    if r.has("time") {
        let t = r.fs("time");
        if t.windows(2).any(|w| w[1] < w[0]) {
            return Err(format!("solve_time went backwards: {:?}", t));
        }
        if t.len() >= 3 {
            let inc = t.windows(2).filter(|w| w[1] > w[0]).count();
            if 2 * inc < t.len() - 1 {
                return Err(format!("solve_time advanced in only {} of {} passes (verbose={}): the time limit cannot be enforced",
                    inc, t.len() - 1, r.b("verbose")));
            }
        }
    }
    // printed iteration column (verbose only)
    if r.b("verbose") {
        let rows: Vec<usize> = field(out, "rows").unwrap_or("").split(',').filter(|s| !s.is_empty())
            .map(|s| s.parse().unwrap_or(usize::MAX)).collect();
        let extra = field(out, "extra") == Some("1");
        let rb: i64 = field(out, "rb").unwrap_or("0").parse().unwrap_or(-1);
        let last_ip = field(out, "ip").unwrap_or("").split(',').last().unwrap_or("").to_string();
        // one row per pass, one more after an insufficient-progress rollback that ends the
        // solve, one more when the loop is left without a final step
        if rb != (last_ip == "Fail") as i64 {
            return Err(format!("{} table rows for {} passes (extra={}, last checkpoint {})", rows.len(), passes, extra, last_ip));
        }
        if rows.first() != Some(&0) || rows.windows(2).any(|w| w[0] > w[1] || w[1] > w[0] + 1) {
            return Err(format!("iteration column {:?}", rows));
        }
        if rows.last() != Some(&iterations) {
            return Err(format!("last row {:?} but iterations {}", rows.last(), iterations));
        }
    }
    Ok(())
}

// ---------------------------------------------------------------- info.*

fn info_from(r: &Req) -> DefaultInfo<f64> {
    let mut i = DefaultInfo::<f64>::new();
    i.ktratio = r.f("kt");
    i.gap_abs = r.f("ga");
    i.gap_rel = r.f("gr");
    i.res_primal = r.f("rp");
    i.res_dual = r.f("rd");
    i.res_primal_inf = r.f("rpi");
    i.res_dual_inf = r.f("rdi");
    i.cost_primal = r.f("cp");
    i.cost_dual = r.f("cd");
    let p = r.fs("prev");
    verif_hooks_info::set_prev(&mut i, [p[0], p[1], p[2], p[3], p[4], p[5]]);
    i.solve_time = r.f("time");
    i.iterations = r.u("iters") as u32;
    i.status = status_of(r.str("status"));
    i
}
fn status_of(s: &str) -> SolverStatus {
    use SolverStatus::*;
    match s {
        "Unsolved" => Unsolved, "Solved" => Solved, "PrimalInfeasible" => PrimalInfeasible,
        "DualInfeasible" => DualInfeasible, "AlmostSolved" => AlmostSolved,
        "AlmostPrimalInfeasible" => AlmostPrimalInfeasible, "AlmostDualInfeasible" => AlmostDualInfeasible,
        "MaxIterations" => MaxIterations, "MaxTime" => MaxTime, "NumericalError" => NumericalError,
        "InsufficientProgress" => InsufficientProgress, _ => panic!("status {}", s),
    }
}
fn run_check_termination(r: &Req) -> String {
    let mut i = info_from(r);
    let s = req_settings(r);
    let isdone = verif_hooks_info::check_termination(&mut i, r.f("dbz"), r.f("dqx"), &s, r.u("iter") as u32);
    format!("status={:?} isdone={}", i.status, isdone as u8)
}
fn oracle_check_termination(r: &Req, out: &str) -> Result<(), String> {
    // limits: entered Unsolved with iterations == max_iter, or past the time limit, the
    // check must settle on a terminal status
    let st = field(out, "status").ok_or("status")?;
    let isdone = field(out, "isdone") == Some("1");
    if isdone != (st != "Unsolved") {
        return Err("isdone inconsistent with status".into());
    }
    if r.str("status") == "Unsolved" {
        if r.u("maxiter") == r.u("iters") && st == "Unsolved" {
            return Err("iterations = max_iter but still Unsolved".into());
        }
        if r.f("time") > r.f("tl") && st == "Unsolved" {
            return Err("past the time limit but still Unsolved".into());
        }
        // a Solved verdict needs the documented test
        let t = r.fs("tols");
        let solved = r.f("kt") <= 1.0 && (r.f("ga") < t[0] || r.f("gr") < t[1]) && r.f("rp") < t[2] && r.f("rd") < t[2];
        if (st == "Solved") != solved {
            return Err(format!("Solved verdict {} but documented test {}", st, solved));
        }
    }
    Ok(())
}
fn run_post_process(r: &Req) -> String {
    let mut i = info_from(r);
    let s = req_settings(r);
    verif_hooks_info::post_process(&mut i, r.f("dbz"), r.f("dqx"), &s);
    format!("status={:?}", i.status)
}
fn oracle_post_process(r: &Req, out: &str) -> Result<(), String> {
    let st0 = r.str("status");
    let st = field(out, "status").ok_or("status")?;
    let limit_or_err = ["MaxIterations", "MaxTime", "NumericalError", "InsufficientProgress"].contains(&st0);
    if !limit_or_err && st != st0 {
        return Err(format!("post_process changed {} into {}", st0, st));
    }
    if st != st0 && !st.starts_with("Almost") {
        return Err(format!("post_process changed {} into {}", st0, st));
    }
    if st == "AlmostSolved" && st != st0 {
        let t = r.fs("rtols");
        let ok = r.f("kt") <= 1.0 && (r.f("ga") < t[0] || r.f("gr") < t[1]) && r.f("rp") < t[2] && r.f("rd") < t[2];
        if !ok {
            return Err("AlmostSolved without the reduced test".into());
        }
    }
    if st == "Unsolved" && st0 != "Unsolved" {
        return Err("became Unsolved".into());
    }
    Ok(())
}
fn run_save_reset(r: &Req) -> String {
    let mut i = info_from(r);
    if r.u("op") == 0 {
        verif_hooks_info::save_prev_scalars(&mut i);
    } else {
        verif_hooks_info::reset_to_prev_scalars(&mut i);
    }
    let cur = [i.cost_primal, i.cost_dual, i.res_primal, i.res_dual, i.gap_abs, i.gap_rel];
    Line::out().fs("cur", &cur).fs("prev", &verif_hooks_info::get_prev(&i)).done()
}

// ---------------------------------------------------------------- loop.checkpoint

fn run_checkpoint(r: &Req) -> String {
    use clarabel::verif_hooks::verif_hooks_checkpoints::strategy_checkpoint;
    let I = CscMatrix::<f64>::identity(3);
    let cones = if r.b("sym") { vec![NonnegativeConeT(3)] } else { vec![ExponentialConeT()] };
    let mut st = req_settings(r);
    st.verbose = false;
    let mut solver = DefaultSolver::new(&I, &[1.0, 1.0, 1.0], &I, &[1.0, 1.0, 1.0], &cones, st);
    solver.info.status = status_of(r.str("status"));
    // make a rollback observable
    solver.info.cost_primal = 1.0;
    verif_hooks_info::set_prev(&mut solver.info, [2.0, 2.0, 2.0, 2.0, 2.0, 2.0]);
    solver.variables.τ = 5.0;
    solver.prev_vars.τ = 7.0;
    let cp = strategy_checkpoint(&mut solver, r.u("which") as u8, r.b("flag"), r.f("alpha"), r.b("dual"));
    let rolled = solver.variables.τ == 7.0;
    if rolled != (solver.info.cost_primal == 2.0) {
        return "inconsistent-rollback".into();
    }
    format!("cp={} status={:?} rolled={}", cp, solver.info.status, rolled as u8)
}
fn oracle_checkpoint(r: &Req, out: &str) -> Result<(), String> {
    let cp = field(out, "cp").ok_or("cp")?;
    let status = field(out, "status").ok_or("status")?;
    // a strategy change is only ever proposed for nonsymmetric cones under PrimalDual scaling,
    // and only towards Dual
    if cp.starts_with("Update") && (cp != "Update(Dual)" || r.b("sym") || r.b("dual")) {
        return Err(format!("{} proposed (sym={}, dual={})", cp, r.b("sym"), r.b("dual")));
    }
    if cp == "Fail" && status == "Unsolved" {
        return Err("Fail without a terminal status".into());
    }
    let which = r.u("which");
    if which == 2 && cp == "NoUpdate" {
        // the only way to `add_step`: the accepted step length is positive and above the floor
        let a = r.f("alpha");
        if !a.is_nan() && !(a > 0.0 && a > r.f("minterm")) {
            return Err(format!("step length {:e} accepted (min_terminate_step_length {:e})", a, r.f("minterm")));
        }
    }
    if which == 2 && cp == "Fail" && status != "InsufficientProgress" {
        return Err(format!("small step failed with status {}", status));
    }
    if (which == 1 || which == 3) && r.b("flag") && (cp != "NoUpdate" || status != r.str("status")) {
        return Err("a successful sub-step changed strategy or status".into());
    }
    if (which == 1 || which == 3) && !r.b("flag") && cp == "Fail" && status != "NumericalError" {
        return Err(format!("failure reported as {}", status));
    }
    if which == 0 && (field(out, "rolled") == Some("1")) != (r.str("status") == "InsufficientProgress") {
        return Err("rollback not tied to InsufficientProgress".into());
    }
    Ok(())
}

// ---------------------------------------------------------------- solve.timelimit

/// dense strictly convex QP with box-like constraints, big enough to take tens of ms
fn dense_qp(rng: &mut Rng, n: usize) -> Prob {
    let m = 2 * n;
    // P = G'G/n + I (upper triangle)
    let g: Vec<Vec<f64>> = (0..n).map(|_| (0..n).map(|_| rng.normal()).collect()).collect();
    let mut colptr = vec![0];
    let mut rowval = vec![];
    let mut nzval = vec![];
    for c in 0..n {
        for r_ in 0..=c {
            let mut v: f64 = (0..n).map(|k| g[k][r_] * g[k][c]).sum::<f64>() / n as f64;
            if r_ == c { v += 1.0; }
            rowval.push(r_);
            nzval.push(v);
        }
        colptr.push(rowval.len());
    }
    let P = CscMatrix::new(n, n, colptr, rowval, nzval);
    let A = vharness::gen::csc(rng, m, n, 1.0, Vals::Normal);
    let q = vharness::gen::vec_of(rng, n, Vals::Normal);
    let b: Vec<f64> = (0..m).map(|_| rng.uniform(0.5, 2.0)).collect();
    Prob { P, q, A, b, cones: vec![NonnegativeConeT(m)] }
}

struct Timed { iterations: u32, status: SolverStatus, times: Vec<f64>, total: f64 }
fn timed_solve(p: &Prob, verbose: bool, tl: f64) -> Timed {
    let mut st = DefaultSettings::<f64>::default();
    st.verbose = verbose;
    st.time_limit = tl;
    st.max_iter = 200;
    let o = solve_observed(p, st);
    Timed { iterations: o.iterations, status: o.status, times: o.passes.iter().map(|q| q.solve_time).collect(), total: o.solve_time }
}

/// calibrated time limit: measure an unlimited run, then re-solve with a limit well inside it.
/// Alarms only on self-certifying evidence (see below); anything else is inconclusive.
fn run_timelimit(r: &Req) -> String {
    let mut rng = Rng::new(r.u("pseed") as u64);
    let p = dense_qp(&mut rng, r.u("n"));
    let verbose = r.b("verbose");
    let mut verdict = "inconclusive".to_string();
    let mut detail = String::from("-");
    for attempt in 0..3 {
        // reference: the faster of two unlimited runs
        let a = timed_solve(&p, verbose, f64::INFINITY);
        let b = timed_solve(&p, verbose, f64::INFINITY);
        let rf = if a.total <= b.total { a } else { b };
        if rf.times.len() < 6 {
            detail = format!("short-run:{}", rf.times.len());
            continue;
        }
        let (t0, tlast) = (rf.times[0], *rf.times.last().unwrap());
        // frozen clock: decided without any timing assumption
        let inc = rf.times.windows(2).filter(|w| w[1] > w[0]).count();
        if 2 * inc < rf.times.len() - 1 {
            return format!("verdict=frozen-clock detail=advanced:{}of{} attempt={}", inc, rf.times.len() - 1, attempt);
        }
        let tl = t0 + 0.3 * (tlast - t0);
        let lim = timed_solve(&p, verbose, tl);
        let stopped = lim.iterations < rf.iterations;
        if stopped {
            let ok_status = matches!(lim.status, SolverStatus::MaxTime | SolverStatus::AlmostSolved
                | SolverStatus::AlmostPrimalInfeasible | SolverStatus::AlmostDualInfeasible);
            if ok_status {
                return format!("verdict=stopped detail=iters:{}of{}:{:?} attempt={}", lim.iterations, rf.iterations, lim.status, attempt);
            }
            detail = format!("stopped-with:{:?}", lim.status);
            continue;
        }
        // not stopped.  Self-certifying evidence of an ignored limit: the run itself reports a
        // total time far beyond the limit although it went through all its iteration boundaries.
        if lim.total > 2.0 * tl && lim.iterations >= 6 {
            verdict = "ignored".into();
            detail = format!("limit:{:e}:total:{:e}:iters:{}:{:?}", tl, lim.total, lim.iterations, lim.status);
        } else {
            verdict = "inconclusive".into();
            detail = format!("fast-rerun:limit:{:e}:total:{:e}", tl, lim.total);
            break;
        }
    }
    format!("verdict={} detail={} attempt=3", verdict, detail)
}
fn oracle_timelimit(_r: &Req, out: &str) -> Result<(), String> {
    match field(out, "verdict") {
        Some("stopped") | Some("inconclusive") => Ok(()),
        Some("frozen-clock") => Err(format!("info.solve_time does not advance during the solve: {}", out)),
        Some("ignored") => Err(format!("a finite time_limit inside the run was ignored on three calibrated attempts: {}", out)),
        _ => Err(format!("time-limit probe failed: {}", out)),
    }
}

// ---------------------------------------------------------------- new.check_dimensions

fn run_check_dimensions(r: &Req) -> String {
    // shapes only: all-zero matrices of the requested sizes
    let (pm, pn, q, am, an, b) = (r.u("Pm"), r.u("Pn"), r.u("q"), r.u("Am"), r.u("An"), r.u("b"));
    let cones: Vec<SupportedConeT<f64>> = r.us("cones").iter().map(|&k| NonnegativeConeT(k)).collect();
    let P = CscMatrix::<f64>::zeros((pm, pn));
    let A = CscMatrix::<f64>::zeros((am, an));
    let mut s = DefaultSettings::<f64>::default();
    s.verbose = false;
    let _solver = DefaultSolver::new(&P, &vec![0.0; q], &A, &vec![0.0; b], &cones, s);
    "ok".into()
}
fn oracle_check_dimensions(r: &Req, out: &str) -> Result<(), String> {
    let (pm, pn, q, am, an, b) = (r.u("Pm"), r.u("Pn"), r.u("q"), r.u("Am"), r.u("An"), r.u("b"));
    let p: usize = r.us("cones").iter().sum();
    let consistent = b == am && p == b && q == an && q == pn && pm == pn;
    if consistent != (out == "ok") {
        return Err(format!("dimensions consistent={} but constructor gave {}", consistent, out));
    }
    if !consistent && !out.starts_with("panic:") {
        return Err(format!("inconsistent dimensions not rejected: {}", out));
    }
    Ok(())
}


// ---------------------------------------------------------------- timers.*

use clarabel::timers::verif_hooks as thook;
use clarabel::timers::Timers;
use std::time::{Duration, Instant};

/// the keys the solver uses, and two more for nesting the same name at several levels
const TIMER_KEYS: [&str; 13] = ["setup", "presolve", "equilibration", "kktinit", "solve", "default start",
    "IP iteration", "scale cones", "kkt update", "kkt solve", "post-process", "a", "b"];

fn wire_key(k: &str) -> String { k.replace(' ', "_") }
fn static_key(w: &str) -> &'static str {
    TIMER_KEYS.iter().copied().find(|k| wire_key(k) == w)
        .unwrap_or_else(|| Box::leak(w.to_string().into_boxed_str()))
}
fn dash(s: String) -> String { if s.is_empty() { "-".into() } else { s } }

/// rows of the timer tree sorted by rendered path: (path, running, elapsed ns)
fn timer_rows(t: &Timers) -> Vec<(String, bool, u128)> {
    let mut rows: Vec<(String, bool, u128)> = thook::rows(t).into_iter()
        .map(|(p, r, e)| (p.iter().map(|k| wire_key(k)).collect::<Vec<_>>().join("/"), r, e)).collect();
    rows.sort_by(|a, b| a.0.cmp(&b.0));
    rows
}
/// `stack=… keys=… running=…` (same rendering as Lean `Timers.Wire.fmtShape`)
fn fmt_timer_shape(t: &Timers) -> String {
    let rows = timer_rows(t);
    let stack = thook::stack(t).iter().map(|k| wire_key(k)).collect::<Vec<_>>().join("/");
    format!("stack={} keys={} running={}", dash(stack),
        dash(rows.iter().map(|r| r.0.clone()).collect::<Vec<_>>().join(";")),
        dash(rows.iter().map(|r| (r.1 as u8).to_string()).collect::<Vec<_>>().join(",")))
}

#[derive(Clone, Debug, PartialEq)]
enum TOp { Start(&'static str), Stop, Suspend, Resume, Reset(&'static str), Read }

fn fmt_top(o: &TOp) -> String {
    match o {
        TOp::Start(k) => format!("S:{}", wire_key(k)),
        TOp::Stop => "T".into(),
        TOp::Suspend => "U".into(),
        TOp::Resume => "R".into(),
        TOp::Reset(k) => format!("X:{}", wire_key(k)),
        TOp::Read => "D".into(),
    }
}
fn parse_tops(s: &str) -> Vec<TOp> {
    if s == "-" || s.is_empty() { return vec![]; }
    s.split(',').map(|t| match t.split_once(':') {
        Some(("S", k)) => TOp::Start(static_key(k)),
        Some(("X", k)) => TOp::Reset(static_key(k)),
        None if t == "T" => TOp::Stop,
        None if t == "U" => TOp::Suspend,
        None if t == "R" => TOp::Resume,
        None if t == "D" => TOp::Read,
        _ => panic!("timer op {}", t),
    }).collect()
}

struct ScriptRun {
    /// index of the first call that panicked
    at: Option<usize>,
    timers: Timers,
    /// harness clock before / after every call (ns since the start of the run)
    tb: Vec<u128>,
    ta: Vec<u128>,
    /// `total_time()` at the reads
    reads: Vec<u128>,
}

fn busy_wait(ns: u64) {
    let t = Instant::now();
    while (t.elapsed().as_nanos() as u64) < ns {
        std::hint::spin_loop();
    }
}

/// drive the real `Timers`; `gaps[i]` ns are spent before call `i` (so that intervals are not empty)
fn run_script(ops: &[TOp], gaps: &[u64]) -> ScriptRun {
    let mut timers = Timers::default();
    let base = Instant::now();
    let (mut tb, mut ta, mut reads, mut at) = (vec![], vec![], vec![], None);
    for (i, op) in ops.iter().enumerate() {
        if let Some(g) = gaps.get(i) { if *g > 0 { busy_wait(*g); } }
        let before = base.elapsed().as_nanos();
        let r = std::panic::catch_unwind(std::panic::AssertUnwindSafe(|| match op {
            TOp::Start(k) => timers.start_as_current(k),
            TOp::Stop => timers.stop_current(),
            TOp::Suspend => timers.suspend(),
            TOp::Resume => timers.resume(),
            TOp::Reset(k) => timers.reset_timer(k),
            TOp::Read => reads.push(timers.total_time().as_nanos()),
        }));
        let after = base.elapsed().as_nanos();
        tb.push(before);
        ta.push(after);
        if r.is_err() {
            at = Some(i);
            break;
        }
    }
    while tb.len() < ops.len() {
        let l = *ta.last().unwrap_or(&0);
        tb.push(l);
        ta.push(l);
    }
    ScriptRun { at, timers, tb, ta, reads }
}

fn run_timers_script(r: &Req) -> String {
    let ops = parse_tops(r.str("ops"));
    let sr = run_script(&ops, &[]);
    let rows = timer_rows(&sr.timers);
    format!("at={} {} inb={} rdb={}", sr.at.map(|k| k.to_string()).unwrap_or_else(|| "-".into()),
        fmt_timer_shape(&sr.timers),
        dash(vec!["1"; rows.len()].join(",")), dash(vec!["1"; sr.reads.len()].join(",")))
}

/// The accounting the timers promise, re-derived from the script alone (no model involved): in a
/// script that keeps the stack discipline (no stop on an empty stack, resets only while nothing
/// runs) nothing panics, the stack ends as deep as the script says, the running timers are exactly
/// the ones on the stack, `total_time()` never decreases between resets, and what it reports lies
/// between the sums of the closed root intervals measured from inside and from outside by the
/// harness clock (suspended windows excluded, nothing counted twice).
fn oracle_timers_script(r: &Req, out: &str) -> Result<(), String> {
    let ops = parse_tops(r.str("ops"));
    let (tb, ta) = (r.us("tb"), r.us("ta"));
    let rr = r.us("rr");
    let mut depth = 0usize;
    let mut disciplined = true;
    // root-interval accounting with the harness clock: [lo, hi] brackets Σ root elapsed
    let (mut lo, mut hi) = (0i128, 0i128);
    let (mut open_lo, mut open_hi): (Option<i128>, Option<i128>) = (None, None);
    let mut had_reset = false;
    let mut k_read = 0usize;
    let mut last_read: Option<usize> = None;
    for (i, op) in ops.iter().enumerate() {
        let (b, a) = (tb[i] as i128, ta[i] as i128);
        match op {
            TOp::Start(_) => {
                if depth == 0 { open_lo = Some(a); open_hi = Some(b); }
                depth += 1;
            }
            TOp::Stop => {
                if depth == 0 { disciplined = false; break; }
                if depth == 1 {
                    lo += (b - open_lo.unwrap()).max(0);
                    hi += a - open_hi.unwrap();
                    open_lo = None;
                    open_hi = None;
                }
                depth -= 1;
            }
            TOp::Suspend => if depth > 0 {
                lo += (b - open_lo.unwrap()).max(0);
                hi += a - open_hi.unwrap();
            },
            TOp::Resume => if depth > 0 { open_lo = Some(a); open_hi = Some(b); },
            TOp::Reset(_) => { if depth > 0 { disciplined = false; break; } had_reset = true; }
            TOp::Read => {
                if k_read < rr.len() {
                    let v = rr[k_read];
                    if !had_reset {
                        if (v as i128) < lo || (v as i128) > hi {
                            return Err(format!("total_time() read {} = {} ns outside the closed root intervals [{}, {}] ns", k_read, v, lo, hi));
                        }
                        if let Some(p) = last_read { if v < p { return Err(format!("total_time() went back: {} after {}", v, p)); } }
                    }
                    last_read = Some(v);
                }
                k_read += 1;
            }
        }
        if matches!(op, TOp::Reset(_)) { last_read = None; }
    }
    if disciplined {
        if field(out, "at") != Some("-") {
            return Err(format!("a script that keeps the stack discipline panicked: {}", out));
        }
        let stack = field(out, "stack").unwrap_or("-");
        let d = if stack == "-" { 0 } else { stack.split('/').count() };
        if d != depth {
            return Err(format!("stack depth {} after a script that leaves {} timers open", d, depth));
        }
        let running = field(out, "running").unwrap_or("-").split(',').filter(|x| *x == "1").count();
        if running != depth {
            return Err(format!("{} timers running with a stack of depth {}", running, depth));
        }
    }
    Ok(())
}

fn gen_timer_script(rng: &mut Rng) -> Vec<TOp> {
    let n = 1 + rng.below(24);
    let disciplined = rng.bool(0.7);
    let solver_like = rng.bool(0.4);
    let keys: &[&'static str] = if solver_like { &TIMER_KEYS[4..11] } else { &["a", "b", "solve", "kkt solve"] };
    let mut ops = vec![];
    let mut depth = 0usize;
    for _ in 0..n {
        let c = rng.below(100);
        let op = if c < 30 { TOp::Start(*rng.choose(keys)) }
            else if c < 55 { TOp::Stop }
            else if c < 67 { TOp::Suspend }
            else if c < 79 { TOp::Resume }
            else if c < 87 { TOp::Reset(*rng.choose(keys)) }
            else { TOp::Read };
        let op = if disciplined {
            match op {
                TOp::Stop if depth == 0 => TOp::Start(*rng.choose(keys)),
                TOp::Reset(_) if depth > 0 => TOp::Read,
                o => o,
            }
        } else { op };
        match op { TOp::Start(_) => depth += 1, TOp::Stop => depth = depth.saturating_sub(1), _ => {} }
        // notimeit! always comes as a pair
        if op == TOp::Suspend && rng.bool(0.8) {
            ops.push(TOp::Suspend);
            ops.push(TOp::Resume);
            continue;
        }
        ops.push(op);
    }
    if disciplined && rng.bool(0.7) {
        for _ in 0..depth { ops.push(TOp::Stop); }
        ops.push(TOp::Read);
    }
    ops
}

fn submit_timer_script(s: &mut Session, ops: &[TOp], gaps: &[u64]) {
    let sr = run_script(ops, gaps);
    let rows = timer_rows(&sr.timers);
    let l = Line::new("timers.script")
        .s("ops", &dash(ops.iter().map(fmt_top).collect::<Vec<_>>().join(",")))
        .is("tb", &sr.tb).is("ta", &sr.ta)
        .is("re", &rows.iter().map(|r| r.2).collect::<Vec<_>>())
        .is("rr", &sr.reads);
    s.count(if sr.at.is_some() { "timers:script-panics" } else { "timers:script-ok" });
    s.submit(l.done());
}

/// the timer calls of `new` / `solve()` as a script (what the macros expand to), for the real
/// `Timers` under the harness clock
fn solve_like_script(rng: &mut Rng) -> Vec<TOp> {
    use TOp::*;
    let mut ops = vec![Start("setup"), Start("presolve"), Stop, Start("equilibration"), Stop, Start("kktinit"), Stop, Stop];
    for _ in 0..1 + rng.below(2) {
        ops.extend([Suspend, Resume, Reset("solve"), Start("solve"), Start("default start"), Stop, Start("IP iteration")]);
        let passes = 1 + rng.below(5);
        for k in 0..passes {
            ops.extend([Read, Suspend, Resume]);
            if k + 1 == passes {
                if rng.bool(0.3) { ops.extend([Suspend, Resume]); }
                break;
            }
            ops.extend([Start("scale cones"), Stop, Start("kkt update"), Stop, Start("kkt solve"), Stop]);
            if rng.bool(0.8) { ops.extend([Start("kkt solve"), Stop]); }
        }
        ops.extend([Stop, Stop]);
        if rng.bool(0.5) { ops.extend([Suspend, Resume]); }
        ops.extend([Start("post-process"), Stop, Read]);
    }
    ops
}

// ---- timers.solve

struct SolveShape { done: Vec<bool>, fail: Vec<bool>, sok: Vec<bool>, kaff: Vec<bool>, extra: bool, times: Vec<f64>, final_time: f64 }

/// `new` + `nsolve` observed solves on the same solver; the timer tree afterwards
fn solve_n(p: &Prob, settings: DefaultSettings<f64>, nsolve: usize) -> (Vec<SolveShape>, String, bool, bool) {
    use clarabel::io::ConfigurablePrintTarget;
    use clarabel::verif_hooks::observer;
    let mut solver = DefaultSolver::new(&p.P, &p.q, &p.A, &p.b, &p.cones, settings);
    solver.print_to_buffer();
    let mut shapes = vec![];
    let mut mono = true;
    let mut first_read: Option<f64> = None;
    for _ in 0..nsolve {
        observer::start();
        let r = std::panic::catch_unwind(std::panic::AssertUnwindSafe(|| solver.solve()));
        let events = observer::take();
        if let Err(e) = r { std::panic::resume_unwind(e); }
        let ps = passes_of(&events);
        let times: Vec<f64> = ps.iter().map(|q| q.solve_time).collect();
        let final_time = solver.solution.solve_time;
        if times.windows(2).any(|w| w[1] < w[0]) || times.last().map(|t| *t > final_time).unwrap_or(false)
            || solver.info.solve_time != final_time {
            mono = false;
        }
        if first_read.is_none() { first_read = times.first().copied(); }
        shapes.push(SolveShape {
            done: ps.iter().map(|q| q.isdone).collect(),
            fail: ps.iter().map(|q| q.isdone && q.ip.as_deref() == Some("Fail")).collect(),
            sok: ps.iter().map(|q| q.ss.unwrap_or(false)).collect(),
            kaff: ps.iter().map(|q| q.alpha_aff.is_some()).collect(),
            extra: solver.info.step_length == 0.0,
            times, final_time,
        });
    }
    let t = solver.timers.as_ref().expect("timers stowed back");
    let rows = timer_rows(t);
    // `solve_time` is `total_time()`: the sum of the root timers, nothing else
    let ns: u128 = rows.iter().filter(|r| !r.0.contains('/')).map(|r| r.2).sum();
    let total = Duration::new((ns / 1_000_000_000) as u64, (ns % 1_000_000_000) as u32).as_secs_f64();
    let mut sum = total == solver.info.solve_time;
    // the first check of the first solve sees exactly the setup time
    if let (Some(f), Some(setup)) = (first_read, rows.iter().find(|r| r.0 == "setup")) {
        let st = Duration::new((setup.2 / 1_000_000_000) as u64, (setup.2 % 1_000_000_000) as u32).as_secs_f64();
        if f != st { sum = false; }
    }
    (shapes, fmt_timer_shape(t), sum, mono)
}

fn run_timers_solve(r: &Req) -> String {
    let p = req_prob(r);
    let s = req_settings(r);
    let (_, shape, sum, mono) = solve_n(&p, s, r.u("nsolve"));
    format!("at=- {} sum={} mono={}", shape, sum as u8, mono as u8)
}
fn oracle_timers_solve(_r: &Req, out: &str) -> Result<(), String> {
    // whatever the passes were: nothing is left running, the stack is empty, and the three root
    // timers are the ones `solve_time` is documented to add up
    if field(out, "stack") != Some("-") {
        return Err(format!("timer stack not empty after solve(): {}", out));
    }
    if field(out, "running").unwrap_or("").split(',').any(|x| x == "1") {
        return Err(format!("a timer is still running after solve(): {}", out));
    }
    let keys: Vec<&str> = field(out, "keys").unwrap_or("").split(';').collect();
    let roots: Vec<&str> = keys.iter().copied().filter(|k| !k.contains('/')).collect();
    if roots != ["post-process", "setup", "solve"] {
        return Err(format!("root timers {:?}", roots));
    }
    if field(out, "sum") != Some("1") {
        return Err("solve_time is not the sum of the root timers / first check did not see the setup time".into());
    }
    if field(out, "mono") != Some("1") {
        return Err("solve_time seen by the passes is not non-decreasing up to the final value".into());
    }
    Ok(())
}
fn submit_timers_solve(s: &mut Session, p: &Prob, st: DefaultSettings<f64>, nsolve: usize) {
    let (pc, sc) = (p.clone(), st.clone());
    let Ok((shapes, _, _, _)) = std::panic::catch_unwind(std::panic::AssertUnwindSafe(|| solve_n(&pc, sc, nsolve))) else {
        s.count("timers:solve-panic");
        return;
    };
    let mut l = line_prob(Line::new("timers.solve"), p);
    l = line_settings(l, &st).u("nsolve", nsolve);
    for (i, sh) in shapes.iter().enumerate() {
        let k = i + 1;
        l = l.bs(&format!("d{}", k), &sh.done).bs(&format!("f{}", k), &sh.fail)
            .bs(&format!("s{}", k), &sh.sok).bs(&format!("k{}", k), &sh.kaff).b(&format!("x{}", k), sh.extra);
    }
    s.count("timers:solve");
    s.submit(l.done());
}

// ---------------------------------------------------------------- new.guards

/// class of a construction panic (same names as `guardClass` of the model driver)
fn guard_class(msg: &str) -> String {
    let m = msg;
    if m.contains("A and b incompatible dimensions") { "A-b".into() }
    else if m.contains("Constraint dimensions inconsistent with size of cones") { "cones".into() }
    else if m.contains("A and q incompatible dimensions") { "A-q".into() }
    else if m.contains("P and q incompatible dimensions") { "P-q".into() }
    else if m.contains("P not square") { "P-square".into() }
    else if m.contains("assertion failed: dim >= 2") { "soc-dim".into() }
    else if m.contains("assertion failed: α.iter().all(") { "genpow-positive".into() }
    else if m.contains("assertion failed: (T::one() - α.sum()).abs()") { "genpow-sum".into() }
    else { format!("other:{}", m.chars().map(|c| if c.is_whitespace() || c == '=' || c == ',' { '_' } else { c }).take(60).collect::<String>()) }
}

fn run_guards(r: &Req) -> String {
    let (pm, pn, q, am, an, b) = (r.u("Pm"), r.u("Pn"), r.u("q"), r.u("Am"), r.u("An"), r.u("b"));
    let cones = parse_cones(r.str("cones"));
    let P = CscMatrix::<f64>::zeros((pm, pn));
    let A = CscMatrix::<f64>::zeros((am, an));
    let mut s = DefaultSettings::<f64>::default();
    s.verbose = false;
    if r.has("presolve") { s.presolve_enable = r.b("presolve"); }
    let res = std::panic::catch_unwind(std::panic::AssertUnwindSafe(|| {
        let solver = DefaultSolver::new(&P, &vec![0.0; q], &A, &vec![0.0; b], &cones, s);
        solver.variables.s.len()
    }));
    match res {
        Ok(_) => "guard=ok".into(),
        Err(e) => {
            let m = if let Some(x) = e.downcast_ref::<&str>() { x.to_string() }
                else if let Some(x) = e.downcast_ref::<String>() { x.clone() } else { "?".into() };
            format!("guard={}", guard_class(&m))
        }
    }
}
/// the documented contract, stated without the model: a solver object exists exactly when the five
/// dimension equalities hold and every generalized power cone that owns rows has positive
/// exponents summing to one (to within ε·len/2); the first violated condition, in the documented
/// order, names the panic
fn oracle_guards(r: &Req, out: &str) -> Result<(), String> {
    let (pm, pn, q, am, an, b) = (r.u("Pm"), r.u("Pn"), r.u("q"), r.u("Am"), r.u("An"), r.u("b"));
    let cones = parse_cones(r.str("cones"));
    let p: usize = cones.iter().map(cone_nvars).sum();
    let mut want = if b != am { "A-b" } else if p != b { "cones" } else if q != an { "A-q" }
        else if q != pn { "P-q" } else if pm != pn { "P-square" } else { "ok" }.to_string();
    if want == "ok" {
        for c in &cones {
            if let GenPowerConeT(al, d2) = c {
                if al.len() + d2 == 0 { continue; }
                if !al.iter().all(|a| *a > 0.0) { want = "genpow-positive".into(); break; }
                let sum: f64 = al.iter().fold(0.0, |acc, a| acc + a);
                if !((1.0 - sum).abs() < f64::EPSILON * al.len() as f64 * 0.5) { want = "genpow-sum".into(); break; }
            }
        }
    }
    let got = field(out, "guard").unwrap_or("?");
    if got != want {
        return Err(format!("construction gave `{}`, the documented guards say `{}`", got, want));
    }
    Ok(())
}

fn rand_guard_cone(rng: &mut Rng) -> SupportedConeT<f64> {
    match rng.below(16) {
        0 => ZeroConeT(rng.below(3)),
        1 | 2 => NonnegativeConeT(rng.below(4)),
        3 => SecondOrderConeT(rng.below(4)),
        4 => SecondOrderConeT(*rng.choose(&[0usize, 1, 2])),
        5 => ExponentialConeT(),
        6 => PowerConeT(*rng.choose(&[0.5, 0.0, 1.0, -0.5, 2.0, f64::NAN, 1e-300])),
        7 => PSDTriangleConeT(rng.below(4)),
        8 => GenPowerConeT(vec![0.5, 0.5], rng.below(3)),
        9 => GenPowerConeT(vec![], rng.below(3)),
        10 => GenPowerConeT(vec![1.0], rng.below(2)),
        11 => GenPowerConeT(vec![0.5, 0.0, 0.5], 1),
        12 => GenPowerConeT(vec![1.5, -0.5], 1),
        13 => GenPowerConeT(vec![0.3, 0.3, 0.3], rng.below(2)),
        14 => GenPowerConeT(vec![0.1; 10], 1),
        _ => GenPowerConeT(vec![f64::NAN, 0.5], 1),
    }
}

fn guard_cases(s: &mut Session) {
    let sub = |s: &mut Session, pm: usize, pn: usize, q: usize, am: usize, an: usize, b: usize, cones: &[SupportedConeT<f64>], presolve: bool| {
        let l = Line::new("new.guards").u("Pm", pm).u("Pn", pn).u("q", q).u("Am", am).u("An", an).u("b", b)
            .s("cones", &fmt_cones(cones)).b("presolve", presolve);
        let out = s.submit(l.done());
        s.count(&format!("guards:{}", field(&out, "guard").unwrap_or("?").split(':').next().unwrap_or("?")));
    };
    // hand-picked corners: no constraints, empty cone list, cones of dimension zero, SOC 0 / 1 / 2,
    // PSD 0 / 1, genpow without rows, genpow without exponents
    let corners: Vec<Vec<SupportedConeT<f64>>> = vec![
        vec![], vec![ZeroConeT(0)], vec![NonnegativeConeT(0), SecondOrderConeT(0), PSDTriangleConeT(0)],
        vec![SecondOrderConeT(1)], vec![SecondOrderConeT(2)], vec![SecondOrderConeT(0), SecondOrderConeT(1), SecondOrderConeT(1)],
        vec![PSDTriangleConeT(1)], vec![GenPowerConeT(vec![], 0)], vec![GenPowerConeT(vec![], 2)],
        vec![GenPowerConeT(vec![1.0], 0)], vec![GenPowerConeT(vec![0.5, 0.5], 0)],
        vec![GenPowerConeT(vec![0.5, 0.5 + 1e-16], 1)], vec![GenPowerConeT(vec![0.5, 0.5 + 3e-16], 1)],
        vec![NonnegativeConeT(2), GenPowerConeT(vec![0.0, 1.0], 1), GenPowerConeT(vec![0.7, 0.7], 1)],
        vec![GenPowerConeT(vec![0.7, 0.7], 1), GenPowerConeT(vec![0.0, 1.0], 1)],
        vec![PowerConeT(0.0)], vec![PowerConeT(1.5)], vec![PowerConeT(f64::NAN)],
    ];
    for cones in &corners {
        let m: usize = cones.iter().map(cone_nvars).sum();
        for n in [0usize, 1, 3] {
            sub(s, n, n, n, m, n, m, cones, true);
            sub(s, n, n, n, m, n, m, cones, false);
            sub(s, n, n, n, m + 1, n, m + 1, cones, true);
            sub(s, n, n, n, m, n, m + 1, cones, true);
            sub(s, n, n + 1, n, m, n, m, cones, true);
            sub(s, n + 1, n, n, m, n, m, cones, true);
            sub(s, n, n, n, m, n + 1, m, cones, true);
        }
    }
    for _ in 0..s.budget(300, 6000) {
        let mut rng = s.rng.fork();
        let k = rng.below(5);
        let cones: Vec<SupportedConeT<f64>> = (0..k).map(|_| rand_guard_cone(&mut rng)).collect();
        let m: usize = cones.iter().map(cone_nvars).sum();
        let n = rng.below(4);
        let (mut pm, mut pn, mut q, mut am, mut an, mut b) = (n, n, n, m, n, m);
        // any subset of the five violations (so that the ORDER of the asserts is observable)
        if rng.bool(0.25) { am += 1 + rng.below(2); }                                  // A / b
        if rng.bool(0.25) { let d = 1 + rng.below(2); am += d; b += d; }               // cones
        if rng.bool(0.25) { an += 1 + rng.below(2); }                                  // A / q
        if rng.bool(0.25) { pn += 1 + rng.below(2); if rng.bool(0.5) { pm = pn; } }    // P / q
        if rng.bool(0.25) { pm += 1 + rng.below(2); }                                  // P square
        if rng.bool(0.1) { q += 1; }
        if rng.bool(0.1) { b = b.saturating_sub(1); }
        sub(s, pm, pn, q, am, an, b, &cones, rng.bool(0.8));
    }
}

// ---------------------------------------------------------------- solve.boundary

fn run_boundary(r: &Req) -> String {
    let p = req_prob(r);
    let s = req_settings(r);
    let verbose = s.verbose;
    let o = solve_observed(&p, s);
    fmt_observed(&o, verbose)
}

fn channels() -> Vec<Channel> {
    vec![
        Channel { name: "loop.trace", tol: Tol::Exact, run: run_trace, oracle: Some(oracle_solve), modelled: true,
            rust_fn: "Solver::solve + strategy_checkpoint_* (core/solver.rs), DefaultInfo::{check_termination,post_process}",
            lean: "Loop.solve / C04.terminates, iter_le_max, terminal_status, maxtime; C20.iteration_column" },
        Channel { name: "info.check_termination", tol: Tol::Exact, run: run_check_termination,
            oracle: Some(oracle_check_termination), modelled: true,
            rust_fn: "DefaultInfo::check_termination / check_convergence_full / is_solved / is_*_infeasible (called through the hook; residuals_with is hook scaffolding, not solver code: it builds the DefaultResiduals carrying dot_bz, dot_qx)",
            lean: "Loop.checkTermination / C04.check_termination_limits" },
        Channel { name: "info.post_process", tol: Tol::Exact, run: run_post_process, oracle: Some(oracle_post_process),
            modelled: true, rust_fn: "DefaultInfo::post_process / check_convergence_almost",
            lean: "Loop.postProcess / C04.post_process_terminal" },
        Channel { name: "info.save_reset", tol: Tol::Exact, run: run_save_reset, oracle: None, modelled: true,
            rust_fn: "DefaultInfo::save_prev_iterate / reset_to_prev_iterate", lean: "Loop.Info.savePrev / resetToPrev" },
        Channel { name: "loop.checkpoint", tol: Tol::Exact, run: run_checkpoint, oracle: Some(oracle_checkpoint),
            modelled: true, rust_fn: "strategy_checkpoint_insufficient_progress, strategy_checkpoint_numerical_error, strategy_checkpoint_small_step, strategy_checkpoint_is_scaling_success (core/solver.rs, each called through the hook); they read and write the status through InfoTrait::get_status / set_status of DefaultInfo (the status afterwards is part of the response)",
            lean: "Loop.cpInsufficientProgress / cpNumericalError / cpSmallStep / cpIsScalingSuccess (+ …Status) / C07.step_in_unit" },
        Channel { name: "new.check_dimensions", tol: Tol::Exact, run: run_check_dimensions,
            oracle: Some(oracle_check_dimensions), modelled: true, rust_fn: "DefaultSolver::new / _check_dimensions",
            lean: "Loop.checkDimensions / C04.dimension_guard" },
        Channel { name: "solve.timelimit", tol: Tol::Exact, run: run_timelimit, oracle: Some(oracle_timelimit), modelled: false,
            rust_fn: "Solver::solve timers (notimeit!/total_time) + check_termination time limit", lean: "C04.maxtime" },
        Channel { name: "solve.boundary", tol: Tol::Exact, run: run_boundary, oracle: Some(oracle_solve), modelled: false,
            rust_fn: "DefaultSolver::new + solve on boundary shapes", lean: "-" },
        Channel { name: "timers.script", tol: Tol::Exact, run: run_timers_script, oracle: Some(oracle_timers_script), modelled: true,
            rust_fn: "Timers::{start_as_current,stop_current,suspend,resume,reset_timer,total_time,mut_active_timer (walk down the stack; unwrap on a missing level)}, InnerTimer::{reset,start,stop,suspend,resume,elapsed}, SubTimersMap::{reset_subtimer,start_subtimer,suspend,resume,total_time} and its Deref/DerefMut to the HashMap (deref, deref_mut); stop_subtimer is #[allow(dead_code)] with no caller (nothing to tie) (timers/timers.rs)",
            lean: "Timers.step / run / totalTime; C04.timers_*" },
        Channel { name: "timers.solve", tol: Tol::Exact, run: run_timers_solve, oracle: Some(oracle_timers_solve), modelled: true,
            rust_fn: "timeit!/notimeit! expansions in DefaultSolver::new and Solver::solve; DefaultInfo::{reset,update,finalize} (timer part)",
            lean: "Timers.newOps / solveOps; C04.timers_solve_*" },
        Channel { name: "new.guards", tol: Tol::Exact, run: run_guards, oracle: Some(oracle_guards), modelled: true,
            rust_fn: "DefaultSolver::new / _check_dimensions / make_cone (SecondOrderCone::new, GenPowerConeData::new asserts)",
            lean: "NewGuards.newGuards; C04.new_guards_*" },
    ]
}

// ---------------------------------------------------------------- generators

fn base_settings(rng: &mut Rng) -> DefaultSettings<f64> {
    let mut s = DefaultSettings::<f64>::default();
    s.verbose = rng.bool(0.8);
    s.max_iter = *rng.choose(&[0u32, 1, 2, 3, 5, 8, 50, 200]);
    // finite limits far beyond any run count as "extreme but finite magnitudes" too (every
    // place that formats or converts the limit must cope with them)
    s.time_limit = *rng.choose(&[f64::INFINITY, f64::INFINITY, f64::INFINITY, 0.0, 1e-12, 1e3,
        1e19, 1e20, 1e300, f64::MAX]);
    s.equilibrate_enable = rng.bool(0.8);
    s.presolve_enable = rng.bool(0.8);
    if rng.bool(0.15) {
        s.min_terminate_step_length = *rng.choose(&[0.0, 1e-2, 0.5, -1.0]);
        s.min_switch_step_length = *rng.choose(&[1e-1, 0.9, 0.0]);
    }
    if rng.bool(0.1) {
        s.tol_feas = 1e-14;
        s.tol_gap_abs = 1e-15;
        s.tol_gap_rel = 1e-15;
    }
    if rng.bool(0.1) {
        s.static_regularization_enable = false;
        s.dynamic_regularization_enable = rng.bool(0.5);
    }
    s
}

fn random_problem(rng: &mut Rng) -> Prob {
    let kinds = *rng.choose(&["zn", "znq", "znqe", "nep", "epg", "g", "znqt", "e", "p", "nqepgt", "n"]);
    let cones = cone_list(rng, kinds, 3);
    let n = 1 + rng.below(5);
    let pdiag = *rng.choose(&[0.0, 1.0, 1.0, 1e-3]);
    let vals = *rng.choose(&[Vals::SmallInt(3), Vals::Normal, Vals::Normal, Vals::LogMag(-3.0, 3.0)]);
    let mut p = planted(rng, n, cones, pdiag, vals);
    match rng.below(8) {
        0 => {
            // likely primal infeasible: flip b far away on the cone rows
            for v in p.b.iter_mut() {
                *v = -(v.abs() + 5.0);
            }
        }
        1 => {
            // likely unbounded: no curvature, random linear cost
            p.P = CscMatrix::zeros((p.q.len(), p.q.len()));
        }
        2 => {
            for v in p.q.iter_mut() {
                *v *= 1e6;
            }
        }
        _ => {}
    }
    p
}

/// badly scaled mixed-cone problems with a PSD block and the safeguards switched off: the
/// family on which numerical breakdown (NaN directions) reaches the LAPACK wrappers
fn degenerate_problem(rng: &mut Rng) -> (Prob, DefaultSettings<f64>) {
    let mut cones = cone_list(rng, "nqzeptt", 5);
    cones.insert(rng.below(cones.len() + 1), PSDTriangleConeT(3));
    let n = 2 + rng.below(10);
    let pdiag = *rng.choose(&[0.0, 1.0]);
    let mut p = planted(rng, n, cones, pdiag, Vals::LogMag(-8.0, 8.0));
    if rng.bool(0.5) {
        for v in p.b.iter_mut() {
            *v *= 10f64.powf(rng.uniform(-6.0, 6.0));
        }
    }
    let mut st = DefaultSettings::<f64>::default();
    st.verbose = true;
    st.max_iter = 100;
    st.equilibrate_enable = rng.bool(0.3);
    st.static_regularization_enable = rng.bool(0.5);
    st.dynamic_regularization_enable = rng.bool(0.5);
    if rng.bool(0.7) {
        st.tol_feas = 1e-15;
        st.tol_gap_abs = 1e-15;
        st.tol_gap_rel = 1e-15;
    }
    st.direct_solve_method = "qdldl".into();
    (p, st)
}

/// the textbook exponential-cone problem of tests/basic_expcone.rs
fn basic_expcone() -> Prob {
    let mut A1 = CscMatrix::<f64>::identity(3);
    A1.negate();
    let A2 = CscMatrix::new(2, 3, vec![0, 0, 1, 2], vec![0, 1], vec![1., 1.]);
    let A = CscMatrix::vcat(&A1, &A2).unwrap();
    Prob { P: CscMatrix::zeros((3, 3)), q: vec![-1., 0., 0.], A, b: vec![0., 0., 0., 1., f64::exp(5.)],
        cones: vec![ExponentialConeT(), ZeroConeT(2)] }
}

/// nonsymmetric problems pushed to tolerances they cannot reach under primal-dual scaling:
/// the family on which the solver rolls back and falls back to the dual strategy
fn switch_problem(rng: &mut Rng, k: usize) -> (Prob, DefaultSettings<f64>) {
    let mut st = DefaultSettings::<f64>::default();
    st.verbose = true;
    st.max_iter = 80;
    st.tol_feas = *rng.choose(&[1e-12, 1e-12, 1e-13, 1e-11]);
    if rng.bool(0.5) {
        st.tol_gap_abs = 1e-12;
        st.tol_gap_rel = 1e-12;
    }
    let p = if k == 0 { st.tol_feas = 1e-12; st.tol_gap_abs = 1e-8; st.tol_gap_rel = 1e-8; basic_expcone() } else {
        let kinds = *rng.choose(&["e", "p", "ep", "en", "pn", "ez", "e", "p"]);
        let cones = cone_list(rng, kinds, 3);
        let n = 1 + rng.below(4);
        let pdiag = *rng.choose(&[0.0, 0.0, 1.0]);
        planted(rng, n, cones, pdiag, Vals::Normal)
    };
    (p, st)
}

/// for a run that switches strategy, every iteration budget up to its length must be honoured
fn sweep_switch(s: &mut Session, p: &Prob, st: &DefaultSettings<f64>) {
    let (pc, sc) = (p.clone(), st.clone());
    let Ok(o) = std::panic::catch_unwind(std::panic::AssertUnwindSafe(|| solve_observed(&pc, sc))) else { return };
    let switch_iters: Vec<u32> = o.passes.iter().filter(|q| q.ip.as_deref() == Some("Update(Dual)")
        || q.sm.as_deref() == Some("Update(Dual)") || q.ne.as_ref().map(|x| x.1 == "Update(Dual)").unwrap_or(false))
        .map(|q| q.snap.iterations).collect();
    if switch_iters.is_empty() {
        return;
    }
    if o.passes.iter().any(|q| q.ip.as_deref() == Some("Update(Dual)")) {
        s.count("switch-after-rollback");
    } else {
        s.count("switch-other");
    }
    submit_trace(s, p, st.clone());
    let last = (o.iterations as usize).min(60);
    for k in 0..=last {
        // all budgets for short runs, otherwise the neighbourhood of each switch
        if last > 24 && !switch_iters.iter().any(|&w| (k as i64 - w as i64).abs() <= 2) && k % 7 != 0 {
            continue;
        }
        let mut sk = st.clone();
        sk.max_iter = k as u32;
        s.count("switch-sweep");
        submit_trace(s, p, sk);
    }
}

fn submit_trace(s: &mut Session, p: &Prob, st: DefaultSettings<f64>) {
    // first run: record what the numerics answered; the request carries those answers for
    // the model and the problem itself for the implementation side (which solves again)
    let st2 = st.clone();
    let pc = p.clone();
    let rec = std::panic::catch_unwind(std::panic::AssertUnwindSafe(|| solve_observed(&pc, st2)));
    let timed = st.time_limit.is_finite() && st.time_limit > 1e-9;
    match rec {
        Ok(o) => {
            let mut l = line_prob(Line::new("loop.trace"), p);
            l = line_settings(l, &st);
            l = line_oracles(l, &o);
            if timed {
                l = l.u("timed", 1);
                let line = l.clone().done();
                let r = Req::parse(&line).unwrap();
                let key = format!("{}|{}|{}", r.str("Anzval"), r.str("time"), r.str("tl"));
                TIMED.lock().unwrap().get_or_insert_with(HashMap::new).insert(key, fmt_observed(&o, st.verbose));
            }
            s.count(&format!("trace-status:{:?}", o.status));
            s.count(&format!("trace-sym:{}", o.symmetric));
            if o.passes.iter().any(|p| p.ip.as_deref() == Some("Update(Dual)")
                || p.sm.as_deref() == Some("Update(Dual)")
                || p.ne.as_ref().map(|x| x.1 == "Update(Dual)").unwrap_or(false)) {
                s.count("trace-strategy-switch");
            }
            if o.info_step_length == 0.0 {
                s.count("trace-extra-line");
            }
            s.submit(l.done());
        }
        Err(_) => {
            // construction or solve panicked: route through the boundary channel so that the
            // oracle reports it with the input
            let mut l = line_prob(Line::new("solve.boundary"), p);
            l = line_settings(l, &st);
            s.count("trace-panic");
            s.submit(l.done());
        }
    }
}

fn rand_scalar(rng: &mut Rng) -> f64 {
    match rng.below(10) {
        0 => 0.0,
        1 => f64::NAN,
        2 => f64::INFINITY,
        3 => 1e-9 * rng.uniform(0.1, 10.0),
        4 => 1e-8,
        5 => rng.logmag(-12.0, 12.0),
        6 => rng.logmag(-12.0, 12.0).abs(),
        7 => 1.0,
        _ => 10f64.powf(rng.uniform(-11.0, -6.0)),
    }
}

fn info_line(s: &mut Session, chan: &str) -> Line {
    let rng = &mut s.rng;
    let mut st = DefaultSettings::<f64>::default();
    st.max_iter = rng.below(6) as u32;
    st.time_limit = *rng.choose(&[f64::INFINITY, 0.0, 1.0, 1e-3]);
    if rng.bool(0.2) {
        st.tol_ktratio = rng.logmag(-8.0, 2.0).abs();
        st.tol_infeas_abs = rng.logmag(-10.0, 0.0).abs();
        st.reduced_tol_ktratio = rng.logmag(-8.0, 2.0).abs();
    }
    let statuses = ["Unsolved", "Unsolved", "Unsolved", "MaxIterations", "MaxTime", "NumericalError",
        "InsufficientProgress", "Solved", "PrimalInfeasible", "AlmostSolved", "DualInfeasible"];
    let status = if chan == "info.post_process" { statuses[rng.below(statuses.len())] }
        else if rng.bool(0.85) { "Unsolved" } else { statuses[rng.below(statuses.len())] };
    let kt = match rng.below(6) { 0 => rng.uniform(0.0, 1.0), 1 => 1e-15, 2 => 1e10, 3 => 1.0, 4 => 1.1e9, _ => rand_scalar(rng) };
    let prev: Vec<f64> = (0..6).map(|_| rand_scalar(rng)).collect();
    let mut l = Line::new(chan);
    l = line_settings(l, &st).b("sym", true).b("pd", true);
    l = l.f("kt", kt).f("ga", rand_scalar(rng)).f("gr", rand_scalar(rng))
        .f("rp", rand_scalar(rng)).f("rd", rand_scalar(rng))
        .f("rpi", rand_scalar(rng)).f("rdi", rand_scalar(rng))
        .f("cp", rand_scalar(rng)).f("cd", rand_scalar(rng))
        .fs("prev", &prev)
        .f("dbz", if rng.bool(0.5) { -rand_scalar(rng).abs() } else { rand_scalar(rng) })
        .f("dqx", if rng.bool(0.5) { -rand_scalar(rng).abs() } else { rand_scalar(rng) })
        .f("time", *rng.choose(&[0.0, 1e-6, 0.5, 2.0]))
        .u("iters", rng.below(6))
        .s("status", status)
        .u("iter", rng.below(6));
    l
}

fn boundary_cases(s: &mut Session) {
    let I = |n: usize| CscMatrix::<f64>::identity(n);
    let Z = |m: usize, n: usize| CscMatrix::<f64>::zeros((m, n));
    let mut cases: Vec<(&str, Prob)> = vec![];
    // no constraints at all
    cases.push(("m0-qp", Prob { P: I(2), q: vec![1.0, -1.0], A: Z(0, 2), b: vec![], cones: vec![] }));
    cases.push(("m0-lp-unbounded", Prob { P: Z(2, 2), q: vec![1.0, -1.0], A: Z(0, 2), b: vec![], cones: vec![] }));
    cases.push(("m0-zero-cost", Prob { P: Z(1, 1), q: vec![0.0], A: Z(0, 1), b: vec![], cones: vec![] }));
    // empty cones in the list
    cases.push(("empty-cones", Prob { P: I(2), q: vec![1.0, 1.0], A: I(2), b: vec![1.0, 1.0],
        cones: vec![ZeroConeT(0), NonnegativeConeT(2), SecondOrderConeT(0), NonnegativeConeT(0), PSDTriangleConeT(0)] }));
    cases.push(("only-empty-cones", Prob { P: I(1), q: vec![1.0], A: Z(0, 1), b: vec![],
        cones: vec![ZeroConeT(0), NonnegativeConeT(0)] }));
    // singleton SOC / PSD
    cases.push(("soc1-psd1", Prob { P: I(2), q: vec![1.0, 1.0], A: I(2), b: vec![1.0, 2.0],
        cones: vec![SecondOrderConeT(1), PSDTriangleConeT(1)] }));
    cases.push(("soc1-only-lp", Prob { P: Z(1, 1), q: vec![-1.0], A: I(1), b: vec![3.0], cones: vec![SecondOrderConeT(1)] }));
    cases.push(("soc2", Prob { P: I(2), q: vec![0.0, 1.0], A: I(2), b: vec![1.0, 0.5], cones: vec![SecondOrderConeT(2)] }));
    // zero rows / zero columns / all-zero A or P
    cases.push(("zero-A-nn", Prob { P: I(2), q: vec![1.0, 1.0], A: Z(3, 2), b: vec![1.0, 1.0, 1.0], cones: vec![NonnegativeConeT(3)] }));
    cases.push(("zero-A-infeasible", Prob { P: I(2), q: vec![1.0, 1.0], A: Z(2, 2), b: vec![1.0, -1.0], cones: vec![NonnegativeConeT(2)] }));
    cases.push(("zero-A-zero-cone-infeasible", Prob { P: I(1), q: vec![0.0], A: Z(1, 1), b: vec![1.0], cones: vec![ZeroConeT(1)] }));
    cases.push(("zero-A-zero-cone-feasible", Prob { P: I(1), q: vec![1.0], A: Z(1, 1), b: vec![0.0], cones: vec![ZeroConeT(1)] }));
    cases.push(("zero-P-zero-q", Prob { P: Z(2, 2), q: vec![0.0, 0.0], A: I(2), b: vec![1.0, 1.0], cones: vec![NonnegativeConeT(2)] }));
    cases.push(("all-zero", Prob { P: Z(2, 2), q: vec![0.0, 0.0], A: Z(2, 2), b: vec![0.0, 0.0], cones: vec![NonnegativeConeT(2)] }));
    {
        // a zero column in A (free variable with curvature) and a zero row
        let A = CscMatrix::new(3, 2, vec![0, 2, 2], vec![0, 2], vec![1.0, -1.0]);
        cases.push(("zero-row-col", Prob { P: I(2), q: vec![1.0, 1.0], A, b: vec![1.0, 1.0, 1.0], cones: vec![NonnegativeConeT(3)] }));
    }
    {
        // duplicate / redundant constraints
        let A = CscMatrix::new(4, 2, vec![0, 4, 8], vec![0, 1, 2, 3, 0, 1, 2, 3], vec![1.0, 1.0, 1.0, 2.0, 1.0, 1.0, 1.0, 2.0]);
        cases.push(("duplicate-rows-nn", Prob { P: I(2), q: vec![-1.0, -1.0], A: A.clone(), b: vec![1.0, 1.0, 1.0, 2.0], cones: vec![NonnegativeConeT(4)] }));
        cases.push(("duplicate-rows-eq", Prob { P: I(2), q: vec![-1.0, -1.0], A, b: vec![1.0, 1.0, 1.0, 2.0], cones: vec![ZeroConeT(4)] }));
    }
    {
        // inconsistent equalities
        let A = CscMatrix::new(2, 1, vec![0, 2], vec![0, 1], vec![1.0, 1.0]);
        cases.push(("inconsistent-eq", Prob { P: I(1), q: vec![0.0], A, b: vec![1.0, 2.0], cones: vec![ZeroConeT(2)] }));
    }
    // huge / tiny magnitudes
    for &(name, sc) in &[("huge", 1e15), ("tiny", 1e-15), ("huge2", 1e150), ("tiny2", 1e-150), ("near-max", 1e300)] {
        let mut A = I(2);
        for v in A.nzval.iter_mut() { *v *= sc; }
        cases.push((name, Prob { P: I(2), q: vec![1.0, 1.0], A: A.clone(), b: vec![sc, 2.0 * sc], cones: vec![NonnegativeConeT(2)] }));
        let mut P = I(2);
        for v in P.nzval.iter_mut() { *v *= sc; }
        cases.push((name, Prob { P, q: vec![sc, -sc], A: I(2), b: vec![1.0, 1.0], cones: vec![NonnegativeConeT(2)] }));
        cases.push((name, Prob { P: Z(2, 2), q: vec![sc, sc], A, b: vec![1.0, 1.0], cones: vec![SecondOrderConeT(2)] }));
    }
    // infinite-like bounds (presolve) on every row
    cases.push(("all-rows-presolved", Prob { P: I(2), q: vec![1.0, 1.0], A: I(2), b: vec![1e20, 1e21], cones: vec![NonnegativeConeT(2)] }));
    cases.push(("some-rows-presolved", Prob { P: I(2), q: vec![-1.0, -1.0], A: I(2), b: vec![1e20, 1.0], cones: vec![NonnegativeConeT(2)] }));
    // nonsymmetric singletons
    cases.push(("exp-only", Prob { P: Z(3, 3), q: vec![1.0, 1.0, 1.0], A: { let mut a = I(3); for v in a.nzval.iter_mut() { *v = -1.0; } a }, b: vec![0.0; 3], cones: vec![ExponentialConeT()] }));
    cases.push(("pow-edge-alpha", Prob { P: I(3), q: vec![1.0, 1.0, 1.0], A: I(3), b: vec![1.0, 1.0, 0.1], cones: vec![PowerConeT(1e-6)] }));
    cases.push(("genpow-dim2-0", Prob { P: I(2), q: vec![1.0, 1.0], A: I(2), b: vec![1.0, 1.0], cones: vec![GenPowerConeT(vec![0.5, 0.5], 0)] }));
    cases.push(("psd2", Prob { P: I(3), q: vec![1.0, 0.0, 1.0], A: I(3), b: vec![1.0, 0.0, 1.0], cones: vec![PSDTriangleConeT(2)] }));
    cases.push(("psd-zero-b", Prob { P: Z(3, 3), q: vec![1.0, 0.0, 1.0], A: { let mut a = I(3); for v in a.nzval.iter_mut() { *v = -1.0; } a }, b: vec![0.0; 3], cones: vec![PSDTriangleConeT(2)] }));
    // no variables at all (n = 0), with and without constraints
    cases.push(("n0-nn", Prob { P: Z(0, 0), q: vec![], A: Z(1, 0), b: vec![1.0], cones: vec![NonnegativeConeT(1)] }));
    cases.push(("n0-m0", Prob { P: Z(0, 0), q: vec![], A: Z(0, 0), b: vec![], cones: vec![] }));
    cases.push(("n0-infeasible", Prob { P: Z(0, 0), q: vec![], A: Z(2, 0), b: vec![1.0, -1.0], cones: vec![NonnegativeConeT(2)] }));
    cases.push(("n0-soc", Prob { P: Z(0, 0), q: vec![], A: Z(2, 0), b: vec![1.0, 0.5], cones: vec![SecondOrderConeT(2)] }));
    // a cone of dimension zero of every kind that has one
    cases.push(("dim0-all-kinds", Prob { P: I(1), q: vec![1.0], A: I(1), b: vec![1.0],
        cones: vec![ZeroConeT(0), NonnegativeConeT(0), SecondOrderConeT(0), PSDTriangleConeT(0), GenPowerConeT(vec![], 0), NonnegativeConeT(1),
            GenPowerConeT(vec![], 0), ZeroConeT(0)] }));
    {
        // duplicate columns (the minimiser is not unique) and duplicate rows inside a second-order cone
        let A = CscMatrix::new(2, 2, vec![0, 2, 4], vec![0, 1, 0, 1], vec![1.0, -1.0, 1.0, -1.0]);
        cases.push(("duplicate-cols", Prob { P: Z(2, 2), q: vec![1.0, 1.0], A, b: vec![1.0, 1.0], cones: vec![NonnegativeConeT(2)] }));
        let A = CscMatrix::new(3, 1, vec![0, 3], vec![0, 1, 2], vec![0.0, 1.0, 1.0]);
        cases.push(("duplicate-rows-soc", Prob { P: I(1), q: vec![0.0], A, b: vec![2.0, 0.0, 0.0], cones: vec![SecondOrderConeT(3)] }));
    }
    // unbounded / infeasible
    cases.push(("lp-unbounded", Prob { P: Z(1, 1), q: vec![-1.0], A: { let mut a = I(1); a.nzval[0] = -1.0; a }, b: vec![0.0], cones: vec![NonnegativeConeT(1)] }));
    cases.push(("lp-infeasible", Prob { P: Z(1, 1), q: vec![1.0],
        A: CscMatrix::new(2, 1, vec![0, 2], vec![0, 1], vec![1.0, -1.0]), b: vec![-1.0, -1.0], cones: vec![NonnegativeConeT(2)] }));

    let n_iso = if s.thorough() { usize::MAX } else { 6 };
    let mut k = 0usize;
    for (name, p) in cases {
        for &(mi, tl) in &[(200u32, f64::INFINITY), (0, f64::INFINITY), (1, f64::INFINITY), (2, f64::INFINITY), (200, 0.0), (3, 1e-12)] {
            for &verbose in &[true, false] {
                if !verbose && mi != 200 {
                    continue;
                }
                let mut st = DefaultSettings::<f64>::default();
                st.max_iter = mi;
                st.time_limit = tl;
                st.verbose = verbose;
                st.presolve_enable = !(name.starts_with("huge") && k % 2 == 1);
                let mut l = line_prob(Line::new("solve.boundary"), &p);
                l = line_settings(l, &st);
                let line = l.done();
                s.count(&format!("boundary:{}", name));
                let out = s.submit(line.clone());
                // a sample also runs in a child process (hang / abort safety)
                if mi == 200 && verbose && tl.is_infinite() && k % 5 == 0 && k / 5 < n_iso {
                    let iso = run_isolated(&line, 20.0, 4096);
                    s.count("isolated");
                    let same = |a: &str, b: &str| field(a, "status") == field(b, "status")
                        && field(a, "iterations") == field(b, "iterations") && field(a, "st") == field(b, "st");
                    if iso == "hang" || iso.starts_with("abort") || !same(&iso, &out) {
                        s.fail("solve.boundary", line.clone(), iso.clone(),
                            format!("isolated child run gave `{}` but in-process run gave `{}`", iso, out));
                    }
                }
                // the skeleton must also reproduce the boundary runs
                if !out.starts_with("panic") && mi != 2 {
                    if verbose && (mi == 200 || mi == 0) && !(tl > 0.0 && tl.is_finite()) {
                        submit_timers_solve(s, &p, st.clone(), 1 + k % 2);
                    }
                    submit_trace(s, &p, st);
                }
            }
        }
        k += 1;
    }
}

fn dimension_cases(s: &mut Session) {
    // exhaustive over small shapes
    let sizes = [0usize, 1, 2];
    for &pm in &[1usize, 2] {
        for &pn in &[1usize, 2] {
            for &q in &[1usize, 2] {
                for &am in &sizes {
                    for &an in &[1usize, 2] {
                        for &b in &sizes {
                            for cones in [vec![], vec![1], vec![2], vec![1, 1], vec![0, 2]] {
                                let l = Line::new("new.check_dimensions").u("Pm", pm).u("Pn", pn).u("q", q)
                                    .u("Am", am).u("An", an).u("b", b).us("cones", &cones);
                                s.submit(l.done());
                                // the same shape with the exact class of the panic
                                let cs: Vec<SupportedConeT<f64>> = cones.iter().map(|&k| NonnegativeConeT(k)).collect();
                                let l = Line::new("new.guards").u("Pm", pm).u("Pn", pn).u("q", q)
                                    .u("Am", am).u("An", an).u("b", b).s("cones", &fmt_cones(&cs)).b("presolve", true);
                                s.submit(l.done());
                            }
                        }
                    }
                }
            }
        }
    }
}

fn generate(s: &mut Session) {
    if let Ok(n) = std::env::var("VERIF_C04_HUNT") {
        // exploratory mode: only the degenerate family
        for _ in 0..n.parse::<usize>().unwrap_or(1000) {
            let mut rng = s.rng.fork();
            let (p, st) = degenerate_problem(&mut rng);
            submit_trace(s, &p, st);
        }
        return;
    }
    if !s.is_searching() {
        boundary_cases(s);
        dimension_cases(s);
        guard_cases(s);
        // the real Timers under scripted call sequences (random, and the solver's own sequence)
        for k in 0..s.budget(150, 900) {
            let mut rng = s.rng.fork();
            let ops = if k % 8 == 0 { solve_like_script(&mut rng) } else { gen_timer_script(&mut rng) };
            let gaps: Vec<u64> = ops.iter().map(|_| if rng.bool(0.5) { 2_000 + rng.below(40_000) as u64 } else { 0 }).collect();
            submit_timer_script(s, &ops, &gaps);
        }
        // the timer tree after new + solve (+ solve)
        for _ in 0..s.budget(60, 500) {
            let mut rng = s.rng.fork();
            let p = random_problem(&mut rng);
            let mut st = base_settings(&mut rng);
            st.time_limit = if rng.bool(0.15) { 0.0 } else { f64::INFINITY };
            submit_timers_solve(s, &p, st, 1 + rng.below(2));
        }
        // corpus: badly scaled PSD problems on which a LAPACK wrapper used to panic
        for l in include_str!("c04_corpus.txt").lines().filter(|l| !l.trim().is_empty()) {
            s.count("corpus");
            s.submit(l.to_string());
        }
        // corpus: solves that end after an insufficient-progress rollback
        for l in include_str!("c20_corpus.txt").lines().filter(|l| !l.trim().is_empty()) {
            let r = Req::parse(l).expect("corpus line");
            s.count("corpus");
            submit_trace(s, &req_prob(&r), req_settings(&r));
        }
    }
    for _ in 0..s.budget(700, 6000) {
        let mut rng = s.rng.fork();
        let p = random_problem(&mut rng);
        let st = base_settings(&mut rng);
        submit_trace(s, &p, st);
    }
    // strategy switches x iteration budgets (incl. max_iter == the switch iteration)
    for k in 0..s.budget(40, 300) {
        let mut rng = s.rng.fork();
        let (p, st) = switch_problem(&mut rng, k);
        sweep_switch(s, &p, &st);
    }
    // calibrated time limits, quiet and verbose
    if !s.is_searching() {
        for k in 0..s.budget(2, 10) {
            let pseed = s.rng.below(1 << 30);
            for verbose in [false, true] {
                let l = Line::new("solve.timelimit").u("pseed", pseed).u("n", 110 + 10 * (k % 4)).b("verbose", verbose);
                let out = s.submit(l.done());
                s.count(&format!("timelimit:{}", field(&out, "verdict").unwrap_or("?")));
            }
        }
    }
    // degenerate family: numerical breakdown, strategy switches, rollbacks
    for _ in 0..s.budget(250, 4000) {
        let mut rng = s.rng.fork();
        let (p, st) = degenerate_problem(&mut rng);
        s.count("degenerate");
        submit_trace(s, &p, st);
    }
    for _ in 0..s.budget(6000, 200000) {
        let l = info_line(s, "info.check_termination");
        s.submit(l.done());
    }
    for _ in 0..s.budget(3000, 100000) {
        let l = info_line(s, "info.post_process");
        s.submit(l.done());
    }
    for _ in 0..s.budget(2500, 50000) {
        let rng = &mut s.rng;
        let mut st = DefaultSettings::<f64>::default();
        st.min_switch_step_length = *rng.choose(&[0.1, 0.1, 0.9, 0.0, -1.0, 1.0]);
        st.min_terminate_step_length = *rng.choose(&[1e-4, 1e-4, 0.0, -1.0, 0.5, 0.1]);
        let alpha = match rng.below(9) {
            0 => 0.0, 1 => -0.0, 2 => st.min_terminate_step_length, 3 => st.min_switch_step_length,
            4 => f64::NAN, 5 => -rng.uniform(0.0, 1.0), 6 => 1e-300, 7 => 1.0, _ => rng.uniform(0.0, 1.0),
        };
        let statuses = ["Unsolved", "InsufficientProgress", "InsufficientProgress", "Solved", "MaxIterations", "NumericalError", "MaxTime"];
        let l = line_settings(Line::new("loop.checkpoint"), &st)
            .b("sym", rng.bool(0.5)).b("pd", true).b("dual", rng.bool(0.4))
            .u("which", rng.below(4)).b("flag", rng.bool(0.5)).f("alpha", alpha)
            .s("status", statuses[rng.below(statuses.len())]);
        s.submit(l.done());
    }
    for _ in 0..s.budget(100, 1000) {
        let op = s.rng.below(2);
        let l = info_line(s, "info.save_reset").u("op", op);
        s.submit(l.done());
    }
}

fn main() {
    Session::from_args("C04", channels()).run(generate)
}
