//! Shared code of the C01 / C02 / C03 harness binaries
//! (`#[path="common_kkt.rs"] mod common_kkt;`).
//!
//! part 1: double-double sums, problem / settings encoding, cone membership tests
//! part 2: component channels (real functions of info.rs, residuals.rs, variables.rs, solution.rs)
//! part 3: the `solve` channel and the three property oracles
//! part 4: generators
#![allow(dead_code)]
#![allow(non_snake_case)]
#![allow(clippy::too_many_arguments)]
use clarabel::algebra::*;
use clarabel::solver::traits::{Info, Residuals, Solution, Variables};
use clarabel::solver::*;
use clarabel::verif_hooks::observer;
use vharness::gen::{self, Vals};
use vharness::*;

pub const EPS: f64 = f64::EPSILON;
pub const INFBOUND: f64 = 1e20;

// =====================================================================================
// part 1a: error-compensated (double-double) accumulation
// =====================================================================================

#[derive(Clone, Copy, Debug)]
pub struct DD {
    pub hi: f64,
    pub lo: f64,
}
fn two_sum(a: f64, b: f64) -> (f64, f64) {
    let s = a + b;
    let bb = s - a;
    (s, (a - (s - bb)) + (b - bb))
}
fn two_prod(a: f64, b: f64) -> (f64, f64) {
    let p = a * b;
    (p, a.mul_add(b, -p))
}
impl DD {
    pub const ZERO: DD = DD { hi: 0.0, lo: 0.0 };
    pub fn add(self, o: DD) -> DD {
        let (s, e) = two_sum(self.hi, o.hi);
        let e = e + (self.lo + o.lo);
        let (hi, lo) = two_sum(s, e);
        DD { hi, lo }
    }
    pub fn add_f(self, v: f64) -> DD {
        self.add(DD { hi: v, lo: 0.0 })
    }
    /// self + a*b (product exact)
    pub fn add_prod(self, a: f64, b: f64) -> DD {
        let (p, e) = two_prod(a, b);
        self.add(DD { hi: p, lo: e })
    }
    /// self + a*b*c (a*b exact, times c to double-double accuracy)
    pub fn add_prod3(self, a: f64, b: f64, c: f64) -> DD {
        let (p, e) = two_prod(a, b);
        let (p2, e2) = two_prod(p, c);
        self.add(DD { hi: p2, lo: e2 + e * c })
    }
    pub fn val(self) -> f64 {
        self.hi + self.lo
    }
}
/// (Σ aᵢbᵢ, Σ|aᵢbᵢ|)
pub fn dd_dot(a: &[f64], b: &[f64]) -> (f64, f64) {
    let mut s = DD::ZERO;
    let mut m = 0.0;
    for (x, y) in a.iter().zip(b) {
        s = s.add_prod(*x, *y);
        m += (x * y).abs();
    }
    (s.val(), m)
}
pub fn norm2(v: &[f64]) -> f64 {
    // scaled to avoid overflow with 1e20-size entries
    let mx = v.iter().fold(0.0f64, |a, x| a.max(x.abs()));
    if mx == 0.0 || !mx.is_finite() {
        return mx;
    }
    let mut s = DD::ZERO;
    for x in v {
        let t = x / mx;
        s = s.add_prod(t, t);
    }
    s.val().sqrt() * mx
}
pub fn norm_inf(v: &[f64]) -> f64 {
    v.iter().fold(0.0f64, |a, x| a.max(x.abs()))
}

// =====================================================================================
// part 1b: problems and settings on the wire
// =====================================================================================

#[derive(Clone, Debug)]
pub struct Prob {
    pub P: CscMatrix<f64>,
    pub q: Vec<f64>,
    pub A: CscMatrix<f64>,
    pub b: Vec<f64>,
    pub cones: Vec<SupportedConeT<f64>>,
}

pub fn cone_tokens(cones: &[SupportedConeT<f64>]) -> String {
    let mut v = vec![];
    for c in cones {
        v.push(match c {
            ZeroConeT(k) => format!("Z{}", k),
            NonnegativeConeT(k) => format!("N{}", k),
            SecondOrderConeT(k) => format!("S{}", k),
            ExponentialConeT() => "E".to_string(),
            PowerConeT(a) => format!("P{}", proto::ff(*a)),
            GenPowerConeT(al, d2) => {
                let mut s = format!("G{}", d2);
                for a in al {
                    s.push(':');
                    s.push_str(&proto::ff(*a));
                }
                s
            }
            PSDTriangleConeT(k) => format!("T{}", k),
        });
    }
    v.join(",")
}
pub fn parse_cones(s: &str) -> Vec<SupportedConeT<f64>> {
    let mut out = vec![];
    if s.is_empty() {
        return out;
    }
    for tok in s.split(',') {
        let (h, t) = tok.split_at(1);
        out.push(match h {
            "Z" => ZeroConeT(t.parse().unwrap()),
            "N" => NonnegativeConeT(t.parse().unwrap()),
            "S" => SecondOrderConeT(t.parse().unwrap()),
            "E" => ExponentialConeT(),
            "P" => PowerConeT(proto::parse_f(t).unwrap()),
            "T" => PSDTriangleConeT(t.parse().unwrap()),
            "G" => {
                let mut it = t.split(':');
                let d2: usize = it.next().unwrap().parse().unwrap();
                let al: Vec<f64> = it.map(|x| proto::parse_f(x).unwrap()).collect();
                GenPowerConeT(al, d2)
            }
            _ => panic!("cone token {}", tok),
        });
    }
    out
}
pub fn cone_nvars(c: &SupportedConeT<f64>) -> usize {
    match c {
        ZeroConeT(k) | NonnegativeConeT(k) | SecondOrderConeT(k) => *k,
        ExponentialConeT() | PowerConeT(_) => 3,
        GenPowerConeT(al, d2) => al.len() + d2,
        PSDTriangleConeT(k) => k * (k + 1) / 2,
    }
}

#[derive(Clone, Debug)]
pub struct Sets {
    pub eq: bool,
    pub presolve: bool,
    pub sreg: bool,
    pub dreg: bool,
    pub ir: bool,
    pub method: String,
    pub max_iter: u32,
    pub time_limit: f64,
    /// gap_abs, gap_rel, feas, infeas_abs, infeas_rel, ktratio
    pub tol: [f64; 6],
    pub rtol: [f64; 6],
}
impl Default for Sets {
    fn default() -> Self {
        Sets {
            eq: true,
            presolve: true,
            sreg: true,
            dreg: true,
            ir: true,
            method: "qdldl".into(),
            max_iter: 200,
            time_limit: f64::INFINITY,
            tol: [1e-8, 1e-8, 1e-8, 1e-8, 1e-8, 1e-6],
            rtol: [5e-5, 5e-5, 1e-4, 5e-12, 5e-5, 1e-4],
        }
    }
}
impl Sets {
    pub fn to_settings(&self) -> DefaultSettings<f64> {
        let mut s = DefaultSettings::<f64>::default();
        s.verbose = false;
        s.equilibrate_enable = self.eq;
        s.presolve_enable = self.presolve;
        s.static_regularization_enable = self.sreg;
        s.dynamic_regularization_enable = self.dreg;
        s.iterative_refinement_enable = self.ir;
        s.direct_solve_method = self.method.clone();
        s.max_iter = self.max_iter;
        s.time_limit = self.time_limit;
        s.chordal_decomposition_enable = false;
        s.tol_gap_abs = self.tol[0];
        s.tol_gap_rel = self.tol[1];
        s.tol_feas = self.tol[2];
        s.tol_infeas_abs = self.tol[3];
        s.tol_infeas_rel = self.tol[4];
        s.tol_ktratio = self.tol[5];
        s.reduced_tol_gap_abs = self.rtol[0];
        s.reduced_tol_gap_rel = self.rtol[1];
        s.reduced_tol_feas = self.rtol[2];
        s.reduced_tol_infeas_abs = self.rtol[3];
        s.reduced_tol_infeas_rel = self.rtol[4];
        s.reduced_tol_ktratio = self.rtol[5];
        s
    }
    pub fn put(&self, l: Line) -> Line {
        l.b("eq", self.eq)
            .b("presolve", self.presolve)
            .b("sreg", self.sreg)
            .b("dreg", self.dreg)
            .b("ir", self.ir)
            .s("method", &self.method)
            .u("max_iter", self.max_iter as usize)
            .f("time_limit", self.time_limit)
            .fs("tol", &self.tol)
            .fs("rtol", &self.rtol)
    }
    pub fn parse(r: &Req) -> Sets {
        let t = r.fs("tol");
        let rt = r.fs("rtol");
        Sets {
            eq: r.b("eq"),
            presolve: r.b("presolve"),
            sreg: r.b("sreg"),
            dreg: r.b("dreg"),
            ir: r.b("ir"),
            method: r.str("method").to_string(),
            max_iter: r.u("max_iter") as u32,
            time_limit: r.f("time_limit"),
            tol: [t[0], t[1], t[2], t[3], t[4], t[5]],
            rtol: [rt[0], rt[1], rt[2], rt[3], rt[4], rt[5]],
        }
    }
}

pub fn put_prob(l: Line, p: &Prob) -> Line {
    let l = l.csc("P", &p.P).csc("A", &p.A).fs("q", &p.q).fs("b", &p.b);
    l.s("cones", &cone_tokens(&p.cones))
}
pub fn parse_prob(r: &Req) -> Prob {
    Prob {
        P: r.csc("P"),
        A: r.csc("A"),
        q: r.fs("q"),
        b: r.fs("b"),
        cones: parse_cones(r.str("cones")),
    }
}

// =====================================================================================
// part 1c: cone membership (independent of the solver's cone code)
// =====================================================================================

/// smallest eigenvalue of a symmetric matrix (cyclic Jacobi), and its Frobenius norm
fn min_eig(mut a: Vec<Vec<f64>>) -> (f64, f64) {
    let n = a.len();
    let fro = a.iter().flatten().map(|x| x * x).sum::<f64>().sqrt();
    if n == 0 {
        return (0.0, 0.0);
    }
    for _sweep in 0..60 {
        let mut off = 0.0;
        for i in 0..n {
            for j in 0..n {
                if i != j {
                    off += a[i][j] * a[i][j];
                }
            }
        }
        if off.sqrt() <= 1e-18 * fro.max(1e-300) {
            break;
        }
        for p in 0..n {
            for q in (p + 1)..n {
                if a[p][q] == 0.0 {
                    continue;
                }
                let theta = (a[q][q] - a[p][p]) / (2.0 * a[p][q]);
                let t = theta.signum() / (theta.abs() + (theta * theta + 1.0).sqrt());
                let t = if theta == 0.0 { 1.0 } else { t };
                let c = 1.0 / (t * t + 1.0).sqrt();
                let s = t * c;
                for k in 0..n {
                    let akp = a[k][p];
                    let akq = a[k][q];
                    a[k][p] = c * akp - s * akq;
                    a[k][q] = s * akp + c * akq;
                }
                for k in 0..n {
                    let apk = a[p][k];
                    let aqk = a[q][k];
                    a[p][k] = c * apk - s * aqk;
                    a[q][k] = s * apk + c * aqk;
                }
            }
        }
    }
    let mut mn = f64::INFINITY;
    for i in 0..n {
        mn = mn.min(a[i][i]);
    }
    (mn, fro)
}

pub fn svec_to_dense(v: &[f64], n: usize) -> Vec<Vec<f64>> {
    let mut a = vec![vec![0.0; n]; n];
    let mut idx = 0;
    let r = std::f64::consts::FRAC_1_SQRT_2;
    for col in 0..n {
        for row in 0..=col {
            if row == col {
                a[row][col] = v[idx];
            } else {
                a[row][col] = v[idx] * r;
                a[col][row] = v[idx] * r;
            }
            idx += 1;
        }
    }
    a
}

/// log-domain slack allowance for the transcendental cones
fn logtol(terms: &[f64]) -> f64 {
    256.0 * EPS * (1.0 + terms.iter().map(|t| t.abs()).sum::<f64>())
}

/// membership of `v` in one cone (`dual=false`: K, `dual=true`: K*), up to rounding
pub fn in_cone(c: &SupportedConeT<f64>, v: &[f64], dual: bool) -> Result<(), String> {
    if v.iter().any(|x| !x.is_finite()) {
        return Err("non-finite entry".into());
    }
    let mx = norm_inf(v);
    match c {
        ZeroConeT(_) => {
            if !dual && v.iter().any(|&x| x != 0.0) {
                return Err(format!("zero cone: s = {:?} not 0", v));
            }
            Ok(())
        }
        NonnegativeConeT(_) => {
            for (i, &x) in v.iter().enumerate() {
                if x < 0.0 {
                    return Err(format!("nonnegative cone: entry {} = {:e}", i, x));
                }
            }
            Ok(())
        }
        SecondOrderConeT(_) => {
            if v.is_empty() {
                return Ok(());
            }
            let t = norm2(&v[1..]);
            if v[0] < t - 64.0 * EPS * (v.len() as f64) * mx {
                return Err(format!("SOC: t={:e} < |v|={:e}", v[0], t));
            }
            Ok(())
        }
        PSDTriangleConeT(n) => {
            let (mn, fro) = min_eig(svec_to_dense(v, *n));
            if mn < -256.0 * EPS * (*n as f64) * fro {
                return Err(format!("PSD: min eig {:e} (|S|={:e})", mn, fro));
            }
            Ok(())
        }
        ExponentialConeT() => {
            let (x, y, z) = (v[0], v[1], v[2]);
            if !dual {
                // y e^{x/y} <= z, y > 0   | closure: y = 0, x <= 0, z >= 0
                if y == 0.0 {
                    return if x <= 0.0 && z >= 0.0 { Ok(()) } else { Err(format!("exp cone closure {:?}", v)) };
                }
                if y < 0.0 || z <= 0.0 {
                    return Err(format!("exp cone: y={:e} z={:e}", y, z));
                }
                let lhs = x / y + y.ln();
                let rhs = z.ln();
                if lhs > rhs + logtol(&[x / y, y.ln(), rhs]) {
                    return Err(format!("exp cone: x/y+ln y = {:e} > ln z = {:e}", lhs, rhs));
                }
                Ok(())
            } else {
                // -u e^{v/u} <= e w, u < 0 | closure: u = 0, v >= 0, w >= 0
                let (u, vv, w) = (x, y, z);
                if u == 0.0 {
                    return if vv >= 0.0 && w >= 0.0 { Ok(()) } else { Err(format!("dual exp cone closure {:?}", v)) };
                }
                if u > 0.0 || w <= 0.0 {
                    return Err(format!("dual exp cone: u={:e} w={:e}", u, w));
                }
                let lhs = (-u).ln() + vv / u;
                let rhs = 1.0 + w.ln();
                if lhs > rhs + logtol(&[(-u).ln(), vv / u, rhs]) {
                    return Err(format!("dual exp cone: {:e} > {:e}", lhs, rhs));
                }
                Ok(())
            }
        }
        PowerConeT(a) => genpow_member(&[*a, 1.0 - *a], &v[..2], &v[2..], dual),
        GenPowerConeT(al, _d2) => genpow_member(al, &v[..al.len()], &v[al.len()..], dual),
    }
}

fn genpow_member(al: &[f64], x: &[f64], w: &[f64], dual: bool) -> Result<(), String> {
    let nw = norm2(w);
    if x.iter().any(|&t| t < 0.0) {
        return Err(format!("power cone: negative entry in {:?}", x));
    }
    if nw == 0.0 {
        return Ok(());
    }
    if x.iter().zip(al).any(|(&t, &a)| t == 0.0 && a > 0.0) {
        return Err(format!("power cone: zero entry with |w|={:e}", nw));
    }
    let mut lhs = 0.0;
    let mut terms = vec![nw.ln()];
    for (&t, &a) in x.iter().zip(al) {
        if a == 0.0 {
            continue;
        }
        let l = if dual { (t / a).ln() } else { t.ln() };
        lhs += a * l;
        terms.push(a * l);
    }
    if lhs < nw.ln() - logtol(&terms) {
        return Err(format!("power cone{}: sum a ln x = {:e} < ln|w| = {:e}", if dual { " (dual)" } else { "" }, lhs, nw.ln()));
    }
    Ok(())
}

/// membership of a full vector in the product cone; rows with `keep[i] == false` are skipped
/// (they can only belong to nonnegative cones)
pub fn in_cones(cones: &[SupportedConeT<f64>], v: &[f64], keep: &[bool], dual: bool) -> Result<(), String> {
    let mut off = 0;
    for (k, c) in cones.iter().enumerate() {
        let nv = cone_nvars(c);
        let rows: Vec<usize> = (off..off + nv).collect();
        let all_kept = rows.iter().all(|&i| keep[i]);
        let res = if all_kept {
            in_cone(c, &v[off..off + nv], dual)
        } else {
            // a collapsed nonnegative block with dropped rows: test the kept ones
            let sub: Vec<f64> = rows.iter().filter(|&&i| keep[i]).map(|&i| v[i]).collect();
            in_cone(&NonnegativeConeT(sub.len()), &sub, dual)
        };
        res.map_err(|e| format!("cone #{} ({}) rows {}..{}: {}", k, cone_tokens(&[c.clone()]), off, off + nv, e))?;
        off += nv;
    }
    Ok(())
}

/// the rows the presolver removes, stated independently (DESIGN §4.1 traps 1 and 2):
/// rows of nonnegative cones — `SecondOrderConeT(1)` / `PSDTriangleConeT(1)` count as such —
/// with `b > (1 - 10ε)·infbound`, when presolve is enabled
pub fn expected_keep(cones: &[SupportedConeT<f64>], b: &[f64], presolve: bool) -> Vec<bool> {
    let mut keep = vec![true; b.len()];
    if !presolve {
        return keep;
    }
    let thr = (1.0 - EPS * 10.0) * INFBOUND;
    let mut off = 0;
    for c in cones {
        let nv = cone_nvars(c);
        let nn = matches!(c, NonnegativeConeT(_) | SecondOrderConeT(1) | PSDTriangleConeT(1));
        if nn {
            for i in off..off + nv {
                if b[i] > thr {
                    keep[i] = false;
                }
            }
        }
        off += nv;
    }
    keep
}

// =====================================================================================
// part 2: component channels — the real functions on constructed structs
// =====================================================================================
use clarabel::solver::implementations::default::{verif_info, verif_problemdata, verif_residuals, verif_variables};

fn status_to_u(s: SolverStatus) -> usize {
    s as u32 as usize
}
fn status_of_u(u: usize) -> SolverStatus {
    use SolverStatus::*;
    [Unsolved, Solved, PrimalInfeasible, DualInfeasible, AlmostSolved, AlmostPrimalInfeasible,
     AlmostDualInfeasible, MaxIterations, MaxTime, NumericalError, InsufficientProgress][u]
}
pub fn is_infeasible_status(s: SolverStatus) -> bool {
    use SolverStatus::*;
    matches!(s, PrimalInfeasible | DualInfeasible | AlmostPrimalInfeasible | AlmostDualInfeasible)
}

/// a `DefaultProblemData` shell of the given dimensions (no presolve, identity scaling);
/// the caller overwrites the pub fields
fn shell_data(n: usize, m: usize) -> DefaultProblemData<f64> {
    let P = CscMatrix::<f64>::spalloc((n, n), 0);
    let A = CscMatrix::<f64>::spalloc((m, n), 0);
    let q = vec![0.0; n];
    let b = vec![0.0; m];
    let mut st = DefaultSettings::<f64>::default();
    st.presolve_enable = false;
    st.chordal_decomposition_enable = false;
    DefaultProblemData::new(&P, &q, &A, &b, &[ZeroConeT(m)], &st)
}

fn vars_of(r: &Req) -> DefaultVariables<f64> {
    let mut v = DefaultVariables::<f64>::new(0, 0);
    v.x = r.fs("x");
    v.s = r.fs("s");
    v.z = r.fs("z");
    v.τ = r.f("tau");
    v.κ = r.f("kappa");
    v
}
fn put_vars(l: Line, x: &[f64], s: &[f64], z: &[f64], tau: f64, kappa: f64) -> Line {
    l.fs("x", x).fs("s", s).fs("z", z).f("tau", tau).f("kappa", kappa)
}
fn fmt_vars(v: &DefaultVariables<f64>) -> String {
    put_vars(Line::out(), &v.x, &v.s, &v.z, v.τ, v.κ).done()
}
fn resid_of(r: &Req) -> DefaultResiduals<f64> {
    verif_residuals::from_fields(verif_residuals::Fields {
        rx: r.fs("rx"),
        rz: r.fs("rz"),
        rtau: r.f("rtau"),
        rx_inf: r.fs("rx_inf"),
        rz_inf: r.fs("rz_inf"),
        dot_qx: r.f("dot_qx"),
        dot_bz: r.f("dot_bz"),
        dot_sz: r.f("dot_sz"),
        dot_xPx: r.f("dot_xPx"),
        Px: r.fs("Px"),
    })
}
fn put_resid(l: Line, f: &verif_residuals::Fields<f64>) -> Line {
    l.fs("rx", &f.rx)
        .fs("rz", &f.rz)
        .f("rtau", f.rtau)
        .fs("rx_inf", &f.rx_inf)
        .fs("rz_inf", &f.rz_inf)
        .f("dot_qx", f.dot_qx)
        .f("dot_bz", f.dot_bz)
        .f("dot_sz", f.dot_sz)
        .f("dot_xPx", f.dot_xPx)
        .fs("Px", &f.Px)
}
fn set_equil(data: &mut DefaultProblemData<f64>, r: &Req) {
    data.equilibration.d = r.fs("d");
    data.equilibration.dinv = r.fs("dinv");
    data.equilibration.e = r.fs("e");
    data.equilibration.einv = r.fs("einv");
    data.equilibration.c = r.f("c");
}
fn put_equil(l: Line, d: &[f64], dinv: &[f64], e: &[f64], einv: &[f64], c: f64) -> Line {
    l.fs("d", d).fs("dinv", dinv).fs("e", e).fs("einv", einv).f("c", c)
}
/// 15 scalars in the order of the Lean structure `InfoS`
fn info_of(r: &Req) -> DefaultInfo<f64> {
    let a = r.fs("info");
    let mut i = DefaultInfo::<f64>::new();
    i.cost_primal = a[0];
    i.cost_dual = a[1];
    i.res_primal = a[2];
    i.res_dual = a[3];
    i.res_primal_inf = a[4];
    i.res_dual_inf = a[5];
    i.gap_abs = a[6];
    i.gap_rel = a[7];
    i.ktratio = a[8];
    verif_info::set_prev(&mut i, [a[9], a[10], a[11], a[12], a[13], a[14]]);
    i.iterations = r.u("iterations") as u32;
    i.status = status_of_u(r.u("status"));
    i
}
pub fn info_vec(i: &DefaultInfo<f64>) -> Vec<f64> {
    let p = verif_info::prev(i);
    vec![i.cost_primal, i.cost_dual, i.res_primal, i.res_dual, i.res_primal_inf, i.res_dual_inf,
         i.gap_abs, i.gap_rel, i.ktratio, p[0], p[1], p[2], p[3], p[4], p[5]]
}
fn put_info(l: Line, a: &[f64], iterations: usize, status: usize) -> Line {
    l.fs("info", a).u("iterations", iterations).u("status", status)
}
fn fmt_info(i: &DefaultInfo<f64>) -> String {
    put_info(Line::out(), &info_vec(i), i.iterations as usize, status_to_u(i.status)).done()
}
fn settings_of(r: &Req) -> DefaultSettings<f64> {
    let t = r.fs("tol");
    let rt = r.fs("rtol");
    let mut s = Sets::default();
    s.tol = [t[0], t[1], t[2], t[3], t[4], t[5]];
    s.rtol = [rt[0], rt[1], rt[2], rt[3], rt[4], rt[5]];
    s.max_iter = r.u("max_iter") as u32;
    s.to_settings()
}

fn run_residuals_update(r: &Req) -> String {
    let mut data = shell_data(0, 0);
    data.P = r.csc("P");
    data.A = r.csc("A");
    data.q = r.fs("q");
    data.b = r.fs("b");
    let v = vars_of(r);
    let mut res = verif_residuals::from_fields(verif_residuals::Fields {
        // previous (stale) contents: everything must be overwritten
        rx: r.fs("rx0"),
        rz: r.fs("rz0"),
        rtau: 1.0,
        rx_inf: r.fs("rxinf0"),
        rz_inf: r.fs("rzinf0"),
        dot_qx: 7.0,
        dot_bz: 7.0,
        dot_sz: 7.0,
        dot_xPx: 7.0,
        Px: r.fs("Px0"),
    });
    res.update(&v, &data);
    put_resid(Line::out(), &verif_residuals::get(&res)).done()
}

/// oracle: the residual vectors are the documented linear forms (dense, double-double)
fn oracle_residuals_update(r: &Req, out: &str) -> Result<(), String> {
    if out.starts_with("panic") {
        return Ok(());
    }
    let o = Req::parse(&format!("o {}", out)).ok_or("unparsable")?;
    let (P, A, q, b) = (r.csc("P"), r.csc("A"), r.fs("q"), r.fs("b"));
    if P.check_format().is_err() || A.check_format().is_err() || !P.is_triu() {
        return Ok(());
    }
    let (x, s, z, tau, kappa) = (r.fs("x"), r.fs("s"), r.fs("z"), r.f("tau"), r.f("kappa"));
    let all = [&x[..], &s[..], &z[..], &q[..], &b[..], &P.nzval[..], &A.nzval[..], &[tau, kappa][..]];
    if all.iter().any(|v| v.iter().any(|t| !t.is_finite() || t.abs() > 1e100)) {
        return Ok(());
    }
    let (n, m) = (A.n, A.m);
    let k = 64.0 * EPS * (n + m + 4) as f64;
    // Px
    let (px, pxm) = sym_mul(&P, &x);
    let (atz, atzm) = at_mul(&A, &z);
    let (ax, axm) = a_mul(&A, &x);
    let chk = |name: &str, got: &[f64], want: &[f64], mag: &[f64]| -> Result<(), String> {
        if got.len() != want.len() {
            return Err(format!("{}: length {} expected {}", name, got.len(), want.len()));
        }
        for i in 0..got.len() {
            if (got[i] - want[i]).abs() > k * mag[i] + 1e-300 {
                return Err(format!("{}[{}] = {:e} expected {:e} (allowance {:e})", name, i, got[i], want[i], k * mag[i]));
            }
        }
        Ok(())
    };
    chk("Px", &o.fs("Px"), &px, &pxm)?;
    let want: Vec<f64> = atz.iter().map(|v| -v).collect();
    chk("rx_inf", &o.fs("rx_inf"), &want, &atzm)?;
    let want: Vec<f64> = (0..m).map(|i| ax[i] + s[i]).collect();
    let mag: Vec<f64> = (0..m).map(|i| axm[i] + s[i].abs()).collect();
    chk("rz_inf", &o.fs("rz_inf"), &want, &mag)?;
    let want: Vec<f64> = (0..n).map(|j| -atz[j] - px[j] - q[j] * tau).collect();
    let mag: Vec<f64> = (0..n).map(|j| atzm[j] + pxm[j] + (q[j] * tau).abs()).collect();
    chk("rx", &o.fs("rx"), &want, &mag)?;
    let want: Vec<f64> = (0..m).map(|i| ax[i] + s[i] - b[i] * tau).collect();
    let mag: Vec<f64> = (0..m).map(|i| axm[i] + s[i].abs() + (b[i] * tau).abs()).collect();
    chk("rz", &o.fs("rz"), &want, &mag)?;
    let (qx, qxm) = dd_dot(&q, &x);
    let (bz, bzm) = dd_dot(&b, &z);
    let (sz, szm) = dd_dot(&s, &z);
    let (xpx, xpxm) = dd_dot(&x, &px);
    let xpxm = xpxm + x.iter().zip(&pxm).map(|(a, b)| a.abs() * b).sum::<f64>();
    chk("dot_qx", &[o.f("dot_qx")], &[qx], &[qxm])?;
    chk("dot_bz", &[o.f("dot_bz")], &[bz], &[bzm])?;
    chk("dot_sz", &[o.f("dot_sz")], &[sz], &[szm])?;
    chk("dot_xPx", &[o.f("dot_xPx")], &[xpx], &[xpxm])?;
    if tau != 0.0 {
        let want = qx + bz + kappa + xpx / tau;
        let mag = qxm + bzm + kappa.abs() + (xpxm / tau).abs();
        chk("rtau", &[o.f("rtau")], &[want], &[mag])?;
    }
    Ok(())
}

/// (sym(P)·x, Σ|terms|) with P holding the upper triangle
pub fn sym_mul(P: &CscMatrix<f64>, x: &[f64]) -> (Vec<f64>, Vec<f64>) {
    let n = P.n;
    let mut acc = vec![DD::ZERO; n];
    let mut mag = vec![0.0; n];
    for c in 0..n {
        for k in P.colptr[c]..P.colptr[c + 1] {
            let r = P.rowval[k];
            if r > c {
                continue;
            }
            let v = P.nzval[k];
            acc[r] = acc[r].add_prod(v, x[c]);
            mag[r] += (v * x[c]).abs();
            if r != c {
                acc[c] = acc[c].add_prod(v, x[r]);
                mag[c] += (v * x[r]).abs();
            }
        }
    }
    (acc.iter().map(|d| d.val()).collect(), mag)
}
pub fn a_mul(A: &CscMatrix<f64>, x: &[f64]) -> (Vec<f64>, Vec<f64>) {
    let mut acc = vec![DD::ZERO; A.m];
    let mut mag = vec![0.0; A.m];
    for c in 0..A.n {
        for k in A.colptr[c]..A.colptr[c + 1] {
            let r = A.rowval[k];
            acc[r] = acc[r].add_prod(A.nzval[k], x[c]);
            mag[r] += (A.nzval[k] * x[c]).abs();
        }
    }
    (acc.iter().map(|d| d.val()).collect(), mag)
}
pub fn at_mul(A: &CscMatrix<f64>, z: &[f64]) -> (Vec<f64>, Vec<f64>) {
    let mut out = vec![0.0; A.n];
    let mut mag = vec![0.0; A.n];
    for c in 0..A.n {
        let mut acc = DD::ZERO;
        for k in A.colptr[c]..A.colptr[c + 1] {
            acc = acc.add_prod(A.nzval[k], z[A.rowval[k]]);
            mag[c] += (A.nzval[k] * z[A.rowval[k]]).abs();
        }
        out[c] = acc.val();
    }
    (out, mag)
}

fn run_info_update(r: &Req) -> String {
    let mut data = shell_data(0, 0);
    data.q = r.fs("q");
    data.b = r.fs("b");
    set_equil(&mut data, r);
    let nq = if r.has("normq") { Some(r.f("normq")) } else { None };
    let nb = if r.has("normb") { Some(r.f("normb")) } else { None };
    verif_problemdata::set_norms(&mut data, nq, nb);
    let v = vars_of(r);
    let res = resid_of(r);
    let mut info = info_of(r);
    let timers = clarabel::timers::Timers::default();
    info.update(&mut data, &v, &res, &timers);
    let (nq, nb) = verif_problemdata::norms(&data);
    format!("{} normq={} normb={}", fmt_info(&info), proto::ff(nq.unwrap_or(f64::NAN)), proto::ff(nb.unwrap_or(f64::NAN)))
}
/// oracle: when the request carries `expect=` (the nine scalars recorded by the observer in a
/// live solve on the same inputs) the recomputation must reproduce them exactly
fn oracle_info_update(r: &Req, out: &str) -> Result<(), String> {
    if !r.has("expect") || out.starts_with("panic") {
        return Ok(());
    }
    let o = Req::parse(&format!("o {}", out)).ok_or("unparsable")?;
    let got = o.fs("info");
    let want = r.fs("expect");
    let names = ["cost_primal", "cost_dual", "res_primal", "res_dual", "res_primal_inf", "res_dual_inf", "gap_abs", "gap_rel", "ktratio"];
    for k in 0..9 {
        let same = got[k].to_bits() == want[k].to_bits() || (got[k].is_nan() && want[k].is_nan());
        if !same {
            return Err(format!("live solver recorded {} = {:e}, info.update on the recorded iterate gives {:e}", names[k], want[k], got[k]));
        }
    }
    Ok(())
}

fn run_check_convergence(r: &Req) -> String {
    let mut info = info_of(r);
    let st = settings_of(r);
    let mut f = verif_residuals::get(&DefaultResiduals::<f64>::new(0, 0));
    f.dot_bz = r.f("dot_bz");
    f.dot_qx = r.f("dot_qx");
    let res = verif_residuals::from_fields(f);
    let almost = r.str("mode") == "almost";
    let t = if almost {
        [st.reduced_tol_gap_abs, st.reduced_tol_gap_rel, st.reduced_tol_feas, st.reduced_tol_infeas_abs, st.reduced_tol_infeas_rel]
    } else {
        [st.tol_gap_abs, st.tol_gap_rel, st.tol_feas, st.tol_infeas_abs, st.tol_infeas_rel]
    };
    let is_solved = verif_info::is_solved(&info, t[0], t[1], t[2]);
    let is_pinf = verif_info::is_primal_infeasible(&info, &res, t[3], t[4]);
    let is_dinf = verif_info::is_dual_infeasible(&info, &res, t[3], t[4]);
    if almost {
        verif_info::check_convergence_almost(&mut info, &res, &st);
    } else {
        verif_info::check_convergence_full(&mut info, &res, &st);
    }
    Line::out().u("status", status_to_u(info.status)).b("is_solved", is_solved).b("is_pinf", is_pinf).b("is_dinf", is_dinf).done()
}
/// oracle: the documented decision table, written independently
fn oracle_check_convergence(r: &Req, out: &str) -> Result<(), String> {
    let o = Req::parse(&format!("o {}", out)).ok_or("unparsable")?;
    let a = r.fs("info");
    let almost = r.str("mode") == "almost";
    let t = if almost { r.fs("rtol") } else { r.fs("tol") };
    let (bz, qx) = (r.f("dot_bz"), r.f("dot_qx"));
    let solved = (a[6] < t[0] || a[7] < t[1]) && a[2] < t[2] && a[3] < t[2];
    let pinf = bz < -t[3] && a[4] < -t[4] * bz;
    let dinf = qx < -t[3] && a[5] < -t[4] * qx;
    let st_in = r.u("status");
    let base = if almost { 4 } else { 1 };
    let want = if a[8] <= 1.0 && solved {
        base
    } else if a[8] > 1000.0 * (1.0 / t[5]) {
        if pinf { base + 1 } else if dinf { base + 2 } else { st_in }
    } else {
        st_in
    };
    if o.u("status") != want {
        return Err(format!("status {} expected {} (solved={} pinf={} dinf={} ktratio={:e})", o.u("status"), want, solved, pinf, dinf, a[8]));
    }
    if o.b("is_solved") != solved || o.b("is_pinf") != pinf || o.b("is_dinf") != dinf {
        return Err("is_solved / is_primal_infeasible / is_dual_infeasible differ from the documented tests".into());
    }
    Ok(())
}

fn resid_dots(r: &Req) -> DefaultResiduals<f64> {
    let mut f = verif_residuals::get(&DefaultResiduals::<f64>::new(0, 0));
    f.dot_bz = r.f("dot_bz");
    f.dot_qx = r.f("dot_qx");
    verif_residuals::from_fields(f)
}
fn run_check_termination(r: &Req) -> String {
    let mut info = info_of(r);
    let mut st = settings_of(r);
    let res = resid_dots(r);
    if r.b("time_over") {
        st.time_limit = 0.5;
        info.solve_time = 1.0;
    } else {
        st.time_limit = f64::INFINITY;
        info.solve_time = 0.0;
    }
    let done = info.check_termination(&res, &st, r.u("iter") as u32);
    Line::out().u("status", status_to_u(info.status)).b("isdone", done).done()
}
fn run_info_post_process(r: &Req) -> String {
    let mut info = info_of(r);
    let st = settings_of(r);
    let res = resid_dots(r);
    Info::post_process(&mut info, &res, &st);
    Line::out().u("status", status_to_u(info.status)).done()
}
/// oracle (C03): an `Almost*` status can only come out when it went in, or when the reduced
/// test holds on the fields
fn oracle_info_post_process(r: &Req, out: &str) -> Result<(), String> {
    let o = Req::parse(&format!("o {}", out)).ok_or("unparsable")?;
    let (sin, sout) = (r.u("status"), o.u("status"));
    let a = r.fs("info");
    let t = r.fs("rtol");
    let (bz, qx) = (r.f("dot_bz"), r.f("dot_qx"));
    if sout == sin {
        return Ok(());
    }
    if !(7..=10).contains(&sin) {
        return Err(format!("post_process changed status {} -> {}", sin, sout));
    }
    let ok = match sout {
        4 => a[8] <= 1.0 && (a[6] < t[0] || a[7] < t[1]) && a[2] < t[2] && a[3] < t[2],
        5 => a[8] > 1000.0 / t[5] && bz < -t[3] && a[4] < -t[4] * bz,
        6 => a[8] > 1000.0 / t[5] && qx < -t[3] && a[5] < -t[4] * qx,
        _ => false,
    };
    if !ok {
        return Err(format!("status {} -> {} although the reduced test does not hold", sin, sout));
    }
    Ok(())
}
fn run_prev_roundtrip(r: &Req) -> String {
    let info = info_of(r);
    let v = DefaultVariables::<f64>::new(0, 0);
    let mut w = DefaultVariables::<f64>::new(0, 0);
    let mut a = info.clone();
    a.save_prev_iterate(&v, &mut w);
    let mut b = info.clone();
    b.reset_to_prev_iterate(&mut w, &v);
    format!("{} ; {}", fmt_info(&a), fmt_info(&b))
}

fn run_unscale(r: &Req) -> String {
    let mut data = shell_data(0, 0);
    set_equil(&mut data, r);
    let mut v = vars_of(r);
    verif_variables::unscale(&mut v, &data, r.b("is_infeasible"));
    fmt_vars(&v)
}
/// oracle: x = D x̂ / σ, z = E ẑ /(cσ), s = E⁻¹ ŝ / σ with σ = κ (infeasible) or τ
fn oracle_unscale(r: &Req, out: &str) -> Result<(), String> {
    let o = Req::parse(&format!("o {}", out)).ok_or("unparsable")?;
    let (x, s, z) = (r.fs("x"), r.fs("s"), r.fs("z"));
    let (d, e, einv, c) = (r.fs("d"), r.fs("e"), r.fs("einv"), r.f("c"));
    if d.len() != x.len() || e.len() != z.len() || einv.len() != s.len() {
        return Ok(());
    }
    let sc = if r.b("is_infeasible") { r.f("kappa") } else { r.f("tau") };
    let close = |a: f64, b: f64| (a.is_nan() && b.is_nan()) || a == b || (a - b).abs() <= 16.0 * EPS * a.abs().max(b.abs()) || (a.abs() < 1e-290 && b.abs() < 1e-290);
    let (ox, os, oz) = (o.fs("x"), o.fs("s"), o.fs("z"));
    for i in 0..x.len() {
        if !close(ox[i], x[i] * d[i] / sc) {
            return Err(format!("x[{}] = {:e} expected {:e}", i, ox[i], x[i] * d[i] / sc));
        }
    }
    for i in 0..z.len() {
        if !close(oz[i], z[i] * e[i] / sc / c) {
            return Err(format!("z[{}] = {:e} expected {:e}", i, oz[i], z[i] * e[i] / sc / c));
        }
        if !close(os[i], s[i] * einv[i] / sc) {
            return Err(format!("s[{}] = {:e} expected {:e}", i, os[i], s[i] * einv[i] / sc));
        }
    }
    if !close(o.f("tau"), r.f("tau") / sc) || !close(o.f("kappa"), r.f("kappa") / sc) {
        return Err("tau/kappa normalisation".into());
    }
    Ok(())
}

fn run_calc_mu(r: &Req) -> String {
    use clarabel::verif_hooks::cones::CompositeCone;
    let deg = r.u("degree");
    let cones = CompositeCone::<f64>::new(&[NonnegativeConeT(deg)]);
    let mut f = verif_residuals::get(&DefaultResiduals::<f64>::new(0, 0));
    f.dot_sz = r.f("dot_sz");
    let res = verif_residuals::from_fields(f);
    let mut v = DefaultVariables::<f64>::new(0, 0);
    v.τ = r.f("tau");
    v.κ = r.f("kappa");
    proto::ff(v.calc_mu(&res, &cones))
}

/// `solution.post_process`: the data (and its presolver) are built by the real constructor
/// from `bfull` and `cones`; equilibration, variables and info come from the request
fn run_solution_post_process(r: &Req) -> String {
    let n = r.u("n");
    let mfull = r.u("mfull");
    let bfull = r.fs("bfull");
    let cones = parse_cones(r.str("cones"));
    let P = CscMatrix::<f64>::spalloc((n, n), 0);
    let A = CscMatrix::<f64>::spalloc((mfull, n), 0);
    let q = vec![0.0; n];
    let mut st = DefaultSettings::<f64>::default();
    st.presolve_enable = r.b("presolve");
    st.chordal_decomposition_enable = false;
    let mut data = DefaultProblemData::new(&P, &q, &A, &bfull, &cones, &st);
    set_equil(&mut data, r);
    let mut v = vars_of(r);
    let info = info_of(r);
    let mut sol = DefaultSolution::<f64>::new(n, mfull);
    if r.has("stale") {
        // the solution object of a previous solve: every field must be overwritten
        let t = r.f("stale");
        sol.obj_val = t;
        sol.obj_val_dual = -t;
        sol.r_prim = t;
        sol.r_dual = t;
        sol.iterations = 77;
        sol.status = SolverStatus::Solved;
        sol.x.iter_mut().for_each(|v| *v = t);
        sol.s.iter_mut().for_each(|v| *v = t);
        sol.z.iter_mut().for_each(|v| *v = t);
    }
    sol.post_process(&data, &mut v, &info, &st);
    let l = Line::out()
        .u("status", status_to_u(sol.status))
        .f("obj_val", sol.obj_val)
        .f("obj_val_dual", sol.obj_val_dual)
        .u("iterations", sol.iterations as usize)
        .f("r_prim", sol.r_prim)
        .f("r_dual", sol.r_dual)
        .fs("sx", &sol.x)
        .fs("sz", &sol.z)
        .fs("ss", &sol.s);
    format!("{} {}", l.done(), fmt_vars(&v))
}
/// oracle (C02/C03): NaN objectives exactly for the infeasible statuses, scalars copied,
/// lengths n / mfull, dropped rows s = infbound, z = 0, kept rows in order
fn oracle_solution_post_process(r: &Req, out: &str) -> Result<(), String> {
    if out.starts_with("panic") {
        return Ok(());
    }
    let o = Req::parse(&format!("o {}", out)).ok_or("unparsable")?;
    let a = r.fs("info");
    let st = status_of_u(r.u("status"));
    if o.u("status") != r.u("status") || o.u("iterations") != r.u("iterations") {
        return Err("status / iterations not copied".into());
    }
    let same = |x: f64, y: f64| x.to_bits() == y.to_bits() || (x.is_nan() && y.is_nan());
    if is_infeasible_status(st) {
        if !o.f("obj_val").is_nan() || !o.f("obj_val_dual").is_nan() {
            return Err("objective values must be NaN for an infeasible status".into());
        }
    } else if !same(o.f("obj_val"), a[0]) || !same(o.f("obj_val_dual"), a[1]) {
        return Err("obj_val / obj_val_dual are not info.cost_primal / cost_dual".into());
    }
    if !same(o.f("r_prim"), a[2]) || !same(o.f("r_dual"), a[3]) {
        return Err("r_prim / r_dual are not info.res_primal / res_dual".into());
    }
    let (n, mfull) = (r.u("n"), r.u("mfull"));
    let (sx, ss, sz) = (o.fs("sx"), o.fs("ss"), o.fs("sz"));
    if sx.len() != n || ss.len() != mfull || sz.len() != mfull {
        return Err("solution vector lengths".into());
    }
    let keep = expected_keep(&parse_cones(r.str("cones")), &r.fs("bfull"), r.b("presolve"));
    let (vs, vz, vx) = (o.fs("s"), o.fs("z"), o.fs("x"));
    let mut ctr = 0;
    for i in 0..mfull {
        if keep[i] {
            if !same(ss[i], vs[ctr]) || !same(sz[i], vz[ctr]) {
                return Err(format!("kept row {} does not carry reduced entry {}", i, ctr));
            }
            ctr += 1;
        } else if ss[i] != INFBOUND || sz[i] != 0.0 {
            return Err(format!("dropped row {}: s={:e} z={:e}", i, ss[i], sz[i]));
        }
    }
    for j in 0..n {
        if !same(sx[j], vx[j]) {
            return Err("x not copied".into());
        }
    }
    Ok(())
}

pub fn component_channels() -> Vec<Channel> {
    vec![
        Channel { name: "residuals.update", tol: Tol::Exact, run: run_residuals_update, oracle: Some(oracle_residuals_update),
            modelled: true, rust_fn: "DefaultResiduals::update (+ csc gemv/symv)", lean: "Residuals.update (dense counterpart Dense.rx/rz in C01.residual_unscale)" },
        Channel { name: "info.update", tol: Tol::Exact, run: run_info_update, oracle: Some(oracle_info_update),
            modelled: true, rust_fn: "DefaultInfo::update, get_normq/get_normb", lean: "Info.update, getNormq/getNormb / C03.update_assigns, C03.report_residuals, C01.cost_unscale" },
        Channel { name: "info.check_convergence", tol: Tol::Exact, run: run_check_convergence, oracle: Some(oracle_check_convergence),
            modelled: true, rust_fn: "DefaultInfo::check_convergence_{full,almost}, is_solved, is_*_infeasible", lean: "Info.checkConvergence{Full,Almost}, isSolved, is{Primal,Dual}Infeasible / C01.solved_implies_test, C02.primal_cert, C02.dual_cert" },
        Channel { name: "info.check_termination", tol: Tol::Exact, run: run_check_termination, oracle: None,
            modelled: true, rust_fn: "DefaultInfo::check_termination", lean: "Info.checkTermination / C01.termination_solved_implies_test, C03.termination_never_almost" },
        Channel { name: "info.post_process", tol: Tol::Exact, run: run_info_post_process, oracle: Some(oracle_info_post_process),
            modelled: true, rust_fn: "DefaultInfo::post_process", lean: "Info.postProcess / C03.almost_only_if" },
        Channel { name: "info.prev_roundtrip", tol: Tol::Exact, run: run_prev_roundtrip, oracle: None,
            modelled: true, rust_fn: "DefaultInfo::save_prev_iterate / reset_to_prev_iterate", lean: "Info.savePrev, Info.resetToPrev / C03.reset_after_save" },
        Channel { name: "variables.unscale", tol: Tol::Exact, run: run_unscale, oracle: Some(oracle_unscale),
            modelled: true, rust_fn: "DefaultVariables::unscale", lean: "Unscale.unscale / C02.cert_is_kappa_normalised (dense counterpart Dense.unX/unS/unZ)" },
        Channel { name: "variables.calc_mu", tol: Tol::Exact, run: run_calc_mu, oracle: None,
            modelled: true, rust_fn: "DefaultVariables::calc_mu", lean: "Residuals.calcMu" },
        Channel { name: "solution.post_process", tol: Tol::Exact, run: run_solution_post_process, oracle: Some(oracle_solution_post_process),
            modelled: true, rust_fn: "DefaultSolution::post_process, Presolver::reverse_presolve", lean: "Unscale.postProcess, reversePresolve / C01.presolve_transparent, C01.post_process_copies, C02.nan_objectives, C03.lengths" },
    ]
}

// =====================================================================================
// part 4a: generators for the component channels
// =====================================================================================

fn pick_vals(s: &mut Session) -> Vals {
    match s.rng.below(5) {
        0 => Vals::SmallInt(3),
        1 => Vals::LogMag(-6.0, 6.0),
        _ => Vals::Normal,
    }
}
fn pos_scaling(s: &mut Session, n: usize) -> Vec<f64> {
    let wide = s.rng.bool(0.3);
    (0..n)
        .map(|_| {
            if wide {
                10f64.powf(s.rng.uniform(-4.0, 4.0))
            } else {
                s.rng.uniform(0.25, 4.0)
            }
        })
        .collect()
}
fn default_tols_line(l: Line, s: &mut Session) -> Line {
    let mut st = Sets::default();
    if s.rng.bool(0.3) {
        for k in 0..6 {
            st.tol[k] = 10f64.powf(s.rng.uniform(-10.0, -3.0));
            st.rtol[k] = 10f64.powf(s.rng.uniform(-8.0, -2.0));
        }
    }
    let mi = if s.rng.bool(0.5) { 200 } else { s.rng.below(6) };
    l.fs("tol", &st.tol).fs("rtol", &st.rtol).u("max_iter", mi)
}

pub fn gen_residuals_update(s: &mut Session) {
    let n = s.rng.below(7);
    let m = s.rng.below(9);
    let vals = pick_vals(s);
    let pp = *s.rng.choose(&[0.0, 0.3, 0.7, 1.0]);
    let pa = *s.rng.choose(&[0.0, 0.3, 0.7, 1.0]);
    let P = gen::csc_triu(&mut s.rng, n, pp, false, vals);
    let A = gen::csc(&mut s.rng, m, n, pa, vals);
    let q = gen::vec_of(&mut s.rng, n, vals);
    let b = gen::vec_of(&mut s.rng, m, vals);
    let x = gen::vec_of(&mut s.rng, n, vals);
    let sv = gen::vec_of(&mut s.rng, m, vals);
    let z = gen::vec_of(&mut s.rng, m, vals);
    let tau = s.rng.uniform(0.01, 3.0);
    let kappa = s.rng.uniform(0.0, 3.0);
    // previous content of Px: zeros, negative values (−0 after the scaling by 0) or rarely NaN
    let px0: Vec<f64> = match s.rng.below(10) {
        0 => vec![-1.0; n],
        1 if n > 0 => {
            let mut v = vec![0.0; n];
            v[0] = f64::NAN;
            v
        }
        _ => vec![0.0; n],
    };
    let mut lens = vec![n, m, n, m];
    let mut xx = x.clone();
    let stale = s.rng.bool(0.7);
    if s.rng.bool(0.06) {
        // a malformed shape: the real code panics, so must the model
        match s.rng.below(5) {
            0 => lens[s.rng.below(4)] += 1,
            1 => xx.push(1.0),
            2 => {
                if !xx.is_empty() {
                    xx.pop();
                }
            }
            _ => lens[s.rng.below(4)] = 0,
        }
        s.count("residuals.update:malformed");
    }
    let l = Line::new("residuals.update").csc("P", &P).csc("A", &A).fs("q", &q).fs("b", &b);
    let mut prior = |k: usize| -> Vec<f64> { (0..lens[k]).map(|_| if stale { s.rng.normal() } else { 0.0 }).collect() };
    let (rx0, rz0, rxinf0, rzinf0) = (prior(0), prior(1), prior(2), prior(3));
    let l = put_vars(l, &xx, &sv, &z, tau, kappa).fs("Px0", &px0).fs("rx0", &rx0).fs("rz0", &rz0).fs("rxinf0", &rxinf0).fs("rzinf0", &rzinf0);
    s.submit(l.done());
}

fn random_resid(s: &mut Session, n: usize, m: usize, vals: Vals) -> verif_residuals::Fields<f64> {
    verif_residuals::Fields {
        rx: gen::vec_of(&mut s.rng, n, vals),
        rz: gen::vec_of(&mut s.rng, m, vals),
        rtau: s.rng.normal(),
        rx_inf: gen::vec_of(&mut s.rng, n, vals),
        rz_inf: gen::vec_of(&mut s.rng, m, vals),
        dot_qx: s.rng.normal(),
        dot_bz: s.rng.normal(),
        dot_sz: s.rng.normal().abs(),
        dot_xPx: s.rng.normal().abs(),
        Px: gen::vec_of(&mut s.rng, n, vals),
    }
}
fn random_info15(s: &mut Session) -> Vec<f64> {
    (0..15).map(|_| s.rng.logmag(-10.0, 2.0).abs()).collect()
}

pub fn gen_info_update(s: &mut Session) {
    let n = s.rng.below(6);
    let m = s.rng.below(8);
    let vals = pick_vals(s);
    let d = pos_scaling(s, n);
    let e = pos_scaling(s, m);
    let dinv: Vec<f64> = d.iter().map(|v| 1.0 / v).collect();
    let einv: Vec<f64> = e.iter().map(|v| 1.0 / v).collect();
    let c = if s.rng.bool(0.3) { 1.0 } else { 10f64.powf(s.rng.uniform(-3.0, 3.0)) };
    let f = random_resid(s, n, m, vals);
    let x = gen::vec_of(&mut s.rng, n, vals);
    let sv = gen::vec_of(&mut s.rng, m, vals);
    let z = gen::vec_of(&mut s.rng, m, vals);
    let tau = if s.rng.bool(0.05) { 0.0 } else { s.rng.uniform(1e-3, 3.0) };
    let kappa = s.rng.uniform(0.0, 3.0);
    let q = gen::vec_of(&mut s.rng, n, vals);
    let b = gen::vec_of(&mut s.rng, m, vals);
    let mut l = Line::new("info.update").fs("q", &q).fs("b", &b);
    let mut dd = d.clone();
    if s.rng.bool(0.04) {
        dd.push(1.0);
        s.count("info.update:malformed");
    }
    l = put_equil(l, &dd, &dinv, &e, &einv, c);
    l = put_vars(l, &x, &sv, &z, tau, kappa);
    l = put_resid(l, &f);
    let i15 = random_info15(s);
    l = put_info(l, &i15, s.rng.below(50), s.rng.below(11));
    if s.rng.bool(0.7) {
        l = l.f("normq", s.rng.uniform(0.0, 5.0));
    }
    if s.rng.bool(0.7) {
        l = l.f("normb", s.rng.uniform(0.0, 5.0));
    }
    s.submit(l.done());
}

/// info scalars placed around the decision thresholds
fn boundary_info(s: &mut Session, tol: &[f64; 6], rtol: &[f64; 6]) -> (Vec<f64>, f64, f64) {
    let t = if s.rng.bool(0.5) { tol } else { rtol };
    let near = |s: &mut Session, v: f64| -> f64 {
        match s.rng.below(6) {
            0 => v,
            1 => v * (1.0 - EPS),
            2 => v * (1.0 + 2.0 * EPS),
            3 => v * s.rng.uniform(0.0, 1.0),
            4 => v * s.rng.uniform(1.0, 10.0),
            _ => v * 10f64.powf(s.rng.uniform(-4.0, 4.0)),
        }
    };
    let mut a = vec![0.0; 15];
    a[0] = s.rng.normal();
    a[1] = s.rng.normal();
    a[2] = near(s, t[2]);
    a[3] = near(s, t[2]);
    a[6] = near(s, t[0]);
    a[7] = near(s, t[1]);
    a[8] = match s.rng.below(6) {
        0 => 1.0,
        1 => 1.0 + EPS,
        2 => s.rng.uniform(0.0, 1.0),
        3 => 1000.0 * (1.0 / t[5]),
        4 => 1000.0 * (1.0 / t[5]) * (1.0 + 4.0 * EPS),
        _ => 10f64.powf(s.rng.uniform(-18.0, 12.0)),
    };
    let bz = -near(s, t[3]);
    let qx = -near(s, t[3]);
    a[4] = near(s, t[4] * -bz);
    a[5] = near(s, t[4] * -qx);
    for k in 9..15 {
        a[k] = near(s, t[(k - 9) % 3]);
    }
    if s.rng.bool(0.05) {
        let k = s.rng.below(9);
        a[k] = f64::NAN;
    }
    (a, bz, qx)
}

pub fn gen_convergence(s: &mut Session) {
    let mut st = Sets::default();
    if s.rng.bool(0.3) {
        for k in 0..6 {
            st.tol[k] = 10f64.powf(s.rng.uniform(-10.0, -3.0));
            st.rtol[k] = 10f64.powf(s.rng.uniform(-8.0, -2.0));
        }
    }
    let (a, bz, qx) = boundary_info(s, &st.tol, &st.rtol);
    let max_iter = if s.rng.bool(0.5) { 200 } else { s.rng.below(6) };
    let iterations = if s.rng.bool(0.4) { max_iter } else { s.rng.below(8) };
    let tail = |l: Line| l.f("dot_bz", bz).f("dot_qx", qx).fs("tol", &st.tol).fs("rtol", &st.rtol).u("max_iter", max_iter);
    match s.rng.below(4) {
        0 => {
            let status = if s.rng.bool(0.7) { 0 } else { s.rng.below(11) };
            let l = put_info(Line::new("info.check_convergence"), &a, iterations, status);
            let mode = if s.rng.bool(0.5) { "full" } else { "almost" };
            s.submit(tail(l).s("mode", mode).done());
        }
        1 => {
            let status = if s.rng.bool(0.85) { 0 } else { s.rng.below(11) };
            let l = put_info(Line::new("info.check_termination"), &a, iterations, status);
            let l = tail(l).u("iter", s.rng.below(4)).b("time_over", s.rng.bool(0.3));
            s.submit(l.done());
        }
        2 => {
            let status = s.rng.below(11);
            let l = put_info(Line::new("info.post_process"), &a, iterations, status);
            s.submit(tail(l).done());
        }
        _ => {
            let l = put_info(Line::new("info.prev_roundtrip"), &a, iterations, s.rng.below(11));
            s.submit(l.done());
        }
    }
}

pub fn gen_unscale(s: &mut Session) {
    let n = s.rng.below(6);
    let m = s.rng.below(8);
    let vals = pick_vals(s);
    let d = pos_scaling(s, n);
    let e = pos_scaling(s, m);
    let dinv: Vec<f64> = d.iter().map(|v| 1.0 / v).collect();
    let einv: Vec<f64> = e.iter().map(|v| 1.0 / v).collect();
    let c = 10f64.powf(s.rng.uniform(-3.0, 3.0));
    let x = gen::vec_of(&mut s.rng, n, vals);
    let sv = gen::vec_of(&mut s.rng, m, vals);
    let z = gen::vec_of(&mut s.rng, m, vals);
    let tau = s.rng.uniform(1e-6, 3.0);
    let kappa = s.rng.uniform(1e-6, 3.0);
    let l = put_equil(Line::new("variables.unscale"), &d, &dinv, &e, &einv, c);
    let l = put_vars(l, &x, &sv, &z, tau, kappa).b("is_infeasible", s.rng.bool(0.5));
    s.submit(l.done());
    let l = Line::new("variables.calc_mu").f("dot_sz", s.rng.normal().abs()).f("tau", tau).f("kappa", kappa).u("degree", s.rng.below(30));
    s.submit(l.done());
}

pub fn gen_solution_post_process(s: &mut Session) {
    let n = s.rng.below(5);
    // cone list with nonnegative blocks (and singleton SOC / PSD cones, which collapse)
    let mut cones = vec![];
    let mut mfull = 0;
    for _ in 0..s.rng.below(5) {
        let c = match s.rng.below(7) {
            0 => ZeroConeT(s.rng.below(3)),
            1 | 2 => NonnegativeConeT(s.rng.below(4)),
            3 => SecondOrderConeT(1 + s.rng.below(3)),
            4 => PSDTriangleConeT(1 + s.rng.below(2)),
            5 => ExponentialConeT(),
            _ => NonnegativeConeT(1),
        };
        mfull += cone_nvars(&c);
        cones.push(c);
    }
    let mut bfull: Vec<f64> = (0..mfull).map(|_| s.rng.normal()).collect();
    for v in bfull.iter_mut() {
        if s.rng.bool(0.3) {
            *v = *s.rng.choose(&[1e20, 2e20, f64::INFINITY, 1e20 * (1.0 - 8.0 * EPS), 1e20 * (1.0 - 16.0 * EPS), 9.9e19]);
        }
    }
    let presolve = s.rng.bool(0.8);
    let keep = expected_keep(&cones, &bfull, presolve);
    let mred = keep.iter().filter(|&&k| k).count();
    let vals = pick_vals(s);
    let d = pos_scaling(s, n);
    let e = pos_scaling(s, mred);
    let dinv: Vec<f64> = d.iter().map(|v| 1.0 / v).collect();
    let einv: Vec<f64> = e.iter().map(|v| 1.0 / v).collect();
    let c = 10f64.powf(s.rng.uniform(-3.0, 3.0));
    let x = gen::vec_of(&mut s.rng, n, vals);
    let mut sv = gen::vec_of(&mut s.rng, mred, vals);
    let z = gen::vec_of(&mut s.rng, mred, vals);
    if s.rng.bool(0.04) {
        sv.push(0.5);
        s.count("solution.post_process:malformed");
    }
    let tau = s.rng.uniform(1e-6, 3.0);
    let kappa = s.rng.uniform(1e-6, 3.0);
    let a = random_info15(s);
    let l = Line::new("solution.post_process").u("n", n).u("mfull", mfull).fs("bfull", &bfull).s("cones", &cone_tokens(&cones)).b("presolve", presolve);
    let l = put_equil(l, &d, &dinv, &e, &einv, c);
    let l = put_vars(l, &x, &sv, &z, tau, kappa);
    let mut l = put_info(l, &a, s.rng.below(60), s.rng.below(11));
    if keep.iter().any(|&k| !k) {
        l = l.bs("keep", &keep).f("infbound", INFBOUND);
        s.count("solution.post_process:reduced");
    }
    if s.rng.bool(0.7) {
        l = l.f("stale", s.rng.uniform(-5.0, 5.0));
    }
    s.submit(l.done());
}

pub fn gen_components(s: &mut Session, scale: f64) {
    let k = |q: usize| ((q as f64) * scale).ceil() as usize;
    for _ in 0..s.budget(k(300), k(15000)) {
        gen_residuals_update(s);
    }
    for _ in 0..s.budget(k(300), k(15000)) {
        gen_info_update(s);
    }
    for _ in 0..s.budget(k(1500), k(60000)) {
        gen_convergence(s);
    }
    for _ in 0..s.budget(k(200), k(10000)) {
        gen_unscale(s);
    }
    for _ in 0..s.budget(k(300), k(10000)) {
        gen_solution_post_process(s);
    }
}

// =====================================================================================
// part 3: the `solve` channel (whole solves through the public API + observer) and the
//         three property oracles, evaluated on the USER's data
// =====================================================================================

pub struct SolveOut {
    pub status: SolverStatus,
    pub x: Vec<f64>,
    pub s: Vec<f64>,
    pub z: Vec<f64>,
    pub obj_val: f64,
    pub obj_val_dual: f64,
    pub r_prim: f64,
    pub r_dual: f64,
    pub iterations: usize,
    pub info_iterations: usize,
    pub info_status: SolverStatus,
    pub info: Vec<f64>,
    /// cumulative cost scaling c of the equilibration
    pub c: f64,
    /// (τ, κ) of the recorded iterate that was un-scaled into the solution; `snap` = how many
    /// passes before the last one it was recorded (99: no recorded iterate matches)
    pub tau: f64,
    pub kappa: f64,
    pub snap: usize,
    pub npass: usize,
    pub nkkt: usize,
    pub rolled_back: bool,
}

/// un-scale a recorded iterate exactly as `DefaultVariables::unscale` does
fn unscale_snapshot(p: &observer::IterSnapshot, d: &[f64], e: &[f64], einv: &[f64], c: f64, inf: bool) -> (Vec<f64>, Vec<f64>, Vec<f64>) {
    let scaleinv = if inf { 1.0 / p.kappa } else { 1.0 / p.tau };
    let cinv = 1.0 / c;
    let x = p.x.iter().zip(d).map(|(a, b)| (a * b) * scaleinv).collect();
    let z = p.z.iter().zip(e).map(|(a, b)| (a * b) * (scaleinv * cinv)).collect();
    let s = p.s.iter().zip(einv).map(|(a, b)| (a * b) * scaleinv).collect();
    (x, s, z)
}
fn bits_eq(a: &[f64], b: &[f64]) -> bool {
    a.len() == b.len() && a.iter().zip(b).all(|(x, y)| x.to_bits() == y.to_bits() || (x.is_nan() && y.is_nan()))
}

/// run `solve()` on an existing solver object (observer on) and collect the report
pub fn solve_once(solver: &mut DefaultSolver<f64>) -> (SolveOut, Vec<observer::Event>) {
    observer::start();
    solver.solve();
    let ev = observer::take();
    let passes: Vec<&observer::IterSnapshot> = ev
        .iter()
        .filter_map(|e| if let observer::Event::Pass(b) = e { Some(&**b) } else { None })
        .collect();
    let nkkt = ev.iter().filter(|e| matches!(e, observer::Event::Flag("numerical_error", _))).count();
    let rolled_back = ev.iter().any(|e| matches!(e, observer::Event::Flag("insufficient_progress", v) if v != "NoUpdate"));
    let eq = &solver.data.equilibration;
    let inf = is_infeasible_status(solver.info.status);
    let (mut tau, mut kappa, mut snap) = (f64::NAN, f64::NAN, 99);
    for (k, ps) in passes.iter().rev().enumerate() {
        let (x, s, z) = unscale_snapshot(ps, &eq.d, &eq.e, &eq.einv, eq.c, inf);
        if bits_eq(&x, &solver.variables.x) && bits_eq(&s, &solver.variables.s) && bits_eq(&z, &solver.variables.z) {
            tau = ps.tau;
            kappa = ps.kappa;
            snap = k;
            break;
        }
    }
    let sol = &solver.solution;
    let out = SolveOut {
        status: sol.status,
        x: sol.x.clone(),
        s: sol.s.clone(),
        z: sol.z.clone(),
        obj_val: sol.obj_val,
        obj_val_dual: sol.obj_val_dual,
        r_prim: sol.r_prim,
        r_dual: sol.r_dual,
        iterations: sol.iterations as usize,
        info_iterations: solver.info.iterations as usize,
        info_status: solver.info.status,
        info: info_vec(&solver.info),
        c: eq.c,
        tau,
        kappa,
        snap,
        npass: passes.len(),
        nkkt,
        rolled_back,
    };
    (out, ev)
}

pub fn solve_problem(p: &Prob, st: &Sets) -> (SolveOut, DefaultSolver<f64>, Vec<observer::Event>) {
    let mut solver = DefaultSolver::new(&p.P, &p.q, &p.A, &p.b, &p.cones, st.to_settings());
    let (out, ev) = solve_once(&mut solver);
    (out, solver, ev)
}

fn render_solve(o: &SolveOut, sfx: &str) -> String {
    let k = |n: &str| format!("{}{}", n, sfx);
    Line::out()
        .u(&k("status"), status_to_u(o.status))
        .fs(&k("sx"), &o.x)
        .fs(&k("ss"), &o.s)
        .fs(&k("sz"), &o.z)
        .f(&k("obj_val"), o.obj_val)
        .f(&k("obj_val_dual"), o.obj_val_dual)
        .f(&k("r_prim"), o.r_prim)
        .f(&k("r_dual"), o.r_dual)
        .u(&k("iterations"), o.iterations)
        .u(&k("info_iterations"), o.info_iterations)
        .u(&k("info_status"), status_to_u(o.info_status))
        .fs(&k("info"), &o.info)
        .f(&k("c"), o.c)
        .f(&k("tau"), o.tau)
        .f(&k("kappa"), o.kappa)
        .u(&k("snap"), o.snap)
        .u(&k("npass"), o.npass)
        .u(&k("nkkt"), o.nkkt)
        .b(&k("rolled_back"), o.rolled_back)
        .done()
}

fn run_solve(r: &Req) -> String {
    let p = parse_prob(r);
    let st = Sets::parse(r);
    if r.has("flip") {
        // settings fields that are consumed at construction (equilibrate_enable, presolve_enable)
        // are changed on the built object before solve(): the data were equilibrated / reduced by
        // `new`, so the returned point must still be mapped back with the stored scalings (the
        // crate's own tests edit `solver.settings` after `new`)
        let mut solver = DefaultSolver::new(&p.P, &p.q, &p.A, &p.b, &p.cones, st.to_settings());
        let f = r.u("flip");
        if f & 1 == 1 {
            solver.settings.equilibrate_enable = !solver.settings.equilibrate_enable;
        }
        if f & 2 == 2 {
            solver.settings.presolve_enable = !solver.settings.presolve_enable;
        }
        let (o, _ev) = solve_once(&mut solver);
        return render_solve(&o, "");
    }
    let (o, _solver, _ev) = solve_problem(&p, &st);
    render_solve(&o, "")
}

/// a history on ONE solver object: solve, then for k = 1..steps: `update_q(q_k)`,
/// `update_b(b_k)`, solve again.  One report per solve (keys suffixed `_k`).
fn run_resolve(r: &Req) -> String {
    let p = parse_prob(r);
    let st = Sets::parse(r);
    let steps = r.u("steps");
    let mut solver = DefaultSolver::new(&p.P, &p.q, &p.A, &p.b, &p.cones, st.to_settings());
    let (o, _) = solve_once(&mut solver);
    let mut out = render_solve(&o, "_0");
    for k in 1..=steps {
        let q = r.fs(&format!("q_{}", k));
        let b = r.fs(&format!("b_{}", k));
        let okq = solver.update_q(&q).is_ok();
        let okb = solver.update_b(&b).is_ok();
        // optional matrix updates in index/value forms with the indices in the given
        // (shuffled) order: A at positions Aidx_k, P rescaled as a whole by Pscale_k
        let mut okm = true;
        if r.has(&format!("Aidx_{}", k)) {
            let idx = r.us(&format!("Aidx_{}", k));
            let val = r.fs(&format!("Aval_{}", k));
            okm &= match r.u(&format!("Aform_{}", k)) {
                2 => solver.update_A(&(idx.clone(), val.clone())).is_ok(),
                _ => solver.update_A(&std::iter::zip(&idx, &val)).is_ok(),
            };
        }
        if r.has(&format!("Pscale_{}", k)) {
            let sc = r.f(&format!("Pscale_{}", k));
            let pt = user_triu(&p.P);
            let mut cur: Vec<f64> = pt.nzval.clone();
            for j in 1..k {
                if r.has(&format!("Pscale_{}", j)) {
                    let f = r.f(&format!("Pscale_{}", j));
                    cur.iter_mut().for_each(|v| *v *= f);
                }
            }
            let idx = r.us(&format!("Pidx_{}", k));
            let val: Vec<f64> = idx.iter().map(|&i| cur[i] * sc).collect();
            okm &= match r.u(&format!("Pform_{}", k)) {
                2 => solver.update_P(&(idx.clone(), val.clone())).is_ok(),
                _ => solver.update_P(&std::iter::zip(&idx, &val)).is_ok(),
            };
        }
        let (o, _) = solve_once(&mut solver);
        out.push_str(&format!(" upd_{}={} ", k, (okq && okb && okm) as usize));
        out.push_str(&render_solve(&o, &format!("_{}", k)));
    }
    out
}

/// Everything the oracles need, recomputed from the user's data and the returned point.
pub struct UserEval {
    pub keep: Vec<bool>,
    /// b capped at the infinity bound
    pub bc: Vec<f64>,
    /// ‖(Ax+s−b)_kept‖₂ and its rounding allowance K·ε·‖Σ|terms|‖₂
    pub rp: f64,
    pub rp_allow: f64,
    pub rd: f64,
    pub rd_allow: f64,
    pub normx: f64,
    pub norms: f64,
    pub normz: f64,
    pub normb: f64,
    pub normq: f64,
    pub xpx: f64,
    pub xpx_mag: f64,
    pub qx: f64,
    pub qx_mag: f64,
    pub bz: f64,
    pub bz_mag: f64,
    pub px_norm: f64,
    pub px_allow: f64,
    pub atz_norm: f64,
    pub atz_allow: f64,
    pub axs_norm: f64,
    pub axs_allow: f64,
}

/// upper triangle of the user's P (what `DefaultProblemData::new` keeps)
fn user_triu(P: &CscMatrix<f64>) -> CscMatrix<f64> {
    if P.is_triu() { P.clone() } else { P.to_triu() }
}

pub fn user_eval(p: &Prob, presolve: bool, x: &[f64], s: &[f64], z: &[f64]) -> UserEval {
    let (n, m) = (p.A.n, p.A.m);
    let keep = expected_keep(&p.cones, &p.b, presolve);
    let bc: Vec<f64> = p.b.iter().map(|&v| v.min(INFBOUND)).collect();
    let kf = |terms: usize| (512.0 + 64.0 * terms as f64) * EPS;
    let pt = user_triu(&p.P);
    // on dropped rows z = 0: they do not enter A'z; evaluate with the kept rows only
    let zk: Vec<f64> = (0..m).map(|i| if keep[i] { z[i] } else { 0.0 }).collect();
    let (px, pxm) = sym_mul(&pt, x);
    let (atz, atzm) = at_mul(&p.A, &zk);
    let (ax, axm) = a_mul(&p.A, x);
    let mut rp_v = vec![];
    let mut rp_m = vec![];
    let mut axs_v = vec![];
    let mut axs_m = vec![];
    for i in 0..m {
        if keep[i] {
            rp_v.push(DD::ZERO.add_f(ax[i]).add_f(s[i]).add_f(-bc[i]).val());
            rp_m.push(axm[i] + s[i].abs() + bc[i].abs());
            axs_v.push(ax[i] + s[i]);
            axs_m.push(axm[i] + s[i].abs());
        }
    }
    let rd_v: Vec<f64> = (0..n).map(|j| DD::ZERO.add_f(px[j]).add_f(atz[j]).add_f(p.q[j]).val()).collect();
    let rd_m: Vec<f64> = (0..n).map(|j| pxm[j] + atzm[j] + p.q[j].abs()).collect();
    let sk: Vec<f64> = (0..m).filter(|&i| keep[i]).map(|i| s[i]).collect();
    let bk: Vec<f64> = (0..m).filter(|&i| keep[i]).map(|i| bc[i]).collect();
    let (xpx, xpx_mag0) = dd_dot(x, &px);
    let xpx_mag = xpx_mag0 + x.iter().zip(&pxm).map(|(a, b)| a.abs() * b).sum::<f64>();
    let (qx, qx_mag) = dd_dot(&p.q, x);
    let bck: Vec<f64> = (0..m).map(|i| if keep[i] { bc[i] } else { 0.0 }).collect();
    let (bz, bz_mag) = dd_dot(&bck, &zk);
    let k = kf(n + m);
    UserEval {
        rp: norm2(&rp_v),
        rp_allow: k * norm2(&rp_m),
        rd: norm2(&rd_v),
        rd_allow: k * norm2(&rd_m),
        normx: norm2(x),
        norms: norm2(&sk),
        normz: norm2(&zk),
        normb: norm_inf(&bk),
        normq: norm_inf(&p.q),
        xpx,
        xpx_mag: k * xpx_mag,
        qx,
        qx_mag: k * qx_mag,
        bz,
        bz_mag: k * bz_mag,
        px_norm: norm2(&px),
        px_allow: k * norm2(&pxm),
        atz_norm: norm2(&atz),
        atz_allow: k * norm2(&atzm),
        axs_norm: norm2(&axs_v),
        axs_allow: k * norm2(&axs_m),
        keep,
        bc,
    }
}

const SLACK: f64 = 1.0 + 1e-9;
/// entries below ~1e-154 (in the solver's scaled coordinates, i.e. up to a factor c/τ/d/e away
/// from user space) vanish when the solver squares them inside a 2-norm
const UNDERFLOW: f64 = 1e-140;

/// the documented optimality test of the returned point with tolerances `t`
/// (gap_abs, gap_rel, feas), each comparison relaxed by its rounding allowance
pub fn optimality_test(u: &UserEval, t: &[f64]) -> Result<(), String> {
    let dp = 1f64.max(u.normb + u.normx + u.norms);
    if !(u.rp <= t[2] * dp * SLACK + u.rp_allow) {
        return Err(format!("primal residual |Ax+s-b| = {:e} > tol_feas*max(1,|b|inf+|x|+|s|) = {:e} (rounding allowance {:e})", u.rp, t[2] * dp, u.rp_allow));
    }
    let dd = 1f64.max(u.normq + u.normx + u.normz);
    if !(u.rd <= t[2] * dd * SLACK + u.rd_allow) {
        return Err(format!("dual residual |Px+A'z+q| = {:e} > tol_feas*max(1,|q|inf+|x|+|z|) = {:e} (rounding allowance {:e})", u.rd, t[2] * dd, u.rd_allow));
    }
    let pobj = 0.5 * u.xpx + u.qx;
    let dobj = -u.bz - 0.5 * u.xpx;
    let gap = (DD::ZERO.add_f(u.xpx).add_f(u.qx).add_f(u.bz)).val().abs();
    let dg = u.xpx_mag + u.qx_mag + u.bz_mag;
    let denom = 1f64.max(pobj.abs().min(dobj.abs()) + dg);
    if !(gap <= t[0] * SLACK + dg || gap <= t[1] * denom * SLACK + dg) {
        return Err(format!("gap {:e}: neither < tol_gap_abs {:e} nor < tol_gap_rel*max(1,min|obj|) {:e} (allowance {:e}; p={:e} d={:e})", gap, t[0], t[1] * denom, dg, pobj, dobj));
    }
    Ok(())
}

fn dropped_rows_ok(u: &UserEval, s: &[f64], z: &[f64]) -> Result<(), String> {
    for i in 0..u.keep.len() {
        if !u.keep[i] && (s[i] != INFBOUND || z[i] != 0.0) {
            return Err(format!("dropped row {}: s = {:e}, z = {:e} (expected the bound and 0)", i, s[i], z[i]));
        }
    }
    Ok(())
}

struct SolveResp {
    status: SolverStatus,
    x: Vec<f64>,
    s: Vec<f64>,
    z: Vec<f64>,
    o: Req,
}
fn parse_solve(out: &str) -> Option<SolveResp> {
    parse_solve_sfx(out, "")
}
/// the report of solve number `sfx` of a history, with the suffix stripped from the keys
fn parse_solve_sfx(out: &str, sfx: &str) -> Option<SolveResp> {
    let all = Req::parse(&format!("o {}", out))?;
    let mut o = Req { chan: "o".into(), kv: Default::default() };
    for (k, v) in all.kv.iter() {
        if sfx.is_empty() {
            o.kv.insert(k.clone(), v.clone());
        } else if let Some(base) = k.strip_suffix(sfx) {
            o.kv.insert(base.to_string(), v.clone());
        }
    }
    if !o.has("status") {
        return None;
    }
    Some(SolveResp { status: status_of_u(o.u("status")), x: o.fs("sx"), s: o.fs("ss"), z: o.fs("sz"), o })
}

/// C01: Solved ⇒ the documented test holds for the returned point on the user's data
pub fn check_c01(p: &Prob, st: &Sets, r: &SolveResp) -> Result<(), String> {
    if r.status != SolverStatus::Solved {
        return Ok(());
    }
    let (n, m) = (p.A.n, p.A.m);
    if r.x.len() != n || r.s.len() != m || r.z.len() != m {
        return Err("Solved: solution vector lengths differ from the user's n, m".into());
    }
    if r.x.iter().chain(&r.s).chain(&r.z).any(|v| !v.is_finite()) {
        return Err("Solved: non-finite entry in the returned point".into());
    }
    let u = user_eval(p, st.presolve, &r.x, &r.s, &r.z);
    dropped_rows_ok(&u, &r.s, &r.z).map_err(|e| format!("Solved: {}", e))?;
    optimality_test(&u, &st.tol[..3]).map_err(|e| format!("Solved: {}", e))?;
    in_cones(&p.cones, &r.s, &u.keep, false).map_err(|e| format!("Solved: s not in K: {}", e))?;
    in_cones(&p.cones, &r.z, &u.keep, true).map_err(|e| format!("Solved: z not in K*: {}", e))?;
    let kt = r.o.fs("info")[8];
    if !(kt <= 1.0) {
        return Err(format!("Solved with ktratio = {:e} > 1", kt));
    }
    Ok(())
}

/// the documented infeasibility tests with tolerances (abs, rel), the code's constants
/// c (cost scaling) and κ (normaliser) kept as they are
fn primal_cert_test(u: &UserEval, c: f64, kappa: f64, tabs: f64, trel: f64) -> Result<(), String> {
    // b̂'ẑ = cκ·b'z < −tol_abs
    if !(c * kappa * u.bz < -tabs * (1.0 / SLACK) + c * kappa * u.bz_mag) {
        return Err(format!("c*kappa*b'z = {:e} is not < -tol_infeas_abs = {:e}", c * kappa * u.bz, -tabs));
    }
    // sign of the exactly evaluated b'z of the returned (rounded) vector: the solver decided
    // b̂'ẑ < -tol on its own floating-point sum, which fixes the sign only up to the rounding of
    // that sum (allowance bz_mag = k·ε·Σ|b_i z_i|)
    if !(u.bz < u.bz_mag) {
        return Err(format!("b'z = {:e} is not negative (rounding allowance {:e})", u.bz, u.bz_mag));
    }
    let rhs = trel * c * (-u.bz + u.bz_mag) * 1f64.max(kappa * u.normz);
    if !(u.atz_norm <= rhs * SLACK + u.atz_allow) {
        return Err(format!("|A'z| = {:e} is not < tol_infeas_rel*c*(-b'z)*max(1,kappa|z|) = {:e} (c={:e} kappa={:e} allowance {:e})", u.atz_norm, rhs, c, kappa, u.atz_allow));
    }
    Ok(())
}
fn dual_cert_test(u: &UserEval, c: f64, kappa: f64, tabs: f64, trel: f64) -> Result<(), String> {
    if !(c * kappa * u.qx < -tabs * (1.0 / SLACK) + c * kappa * u.qx_mag) {
        return Err(format!("c*kappa*q'x = {:e} is not < -tol_infeas_abs = {:e}", c * kappa * u.qx, -tabs));
    }
    if !(u.qx < u.qx_mag) {
        return Err(format!("q'x = {:e} is not negative (rounding allowance {:e})", u.qx, u.qx_mag));
    }
    let mq = -u.qx + u.qx_mag;
    let rhs1 = trel * mq * 1f64.max(kappa * u.normx);
    if !(u.px_norm <= rhs1 * SLACK + u.px_allow) {
        return Err(format!("|Px| = {:e} is not < tol_infeas_rel*(-q'x)*max(1,kappa|x|) = {:e}", u.px_norm, rhs1));
    }
    let rhs2 = trel * c * mq * 1f64.max(kappa * (u.normx + u.norms));
    if !(u.axs_norm <= rhs2 * SLACK + u.axs_allow) {
        return Err(format!("|Ax+s| = {:e} is not < tol_infeas_rel*c*(-q'x)*max(1,kappa(|x|+|s|)) = {:e} (c={:e} kappa={:e} allowance {:e})", u.axs_norm, rhs2, c, kappa, u.axs_allow));
    }
    Ok(())
}

/// C02: infeasibility verdicts carry a valid certificate for the user's data
pub fn check_c02(p: &Prob, st: &Sets, r: &SolveResp) -> Result<(), String> {
    use SolverStatus::*;
    let almost = matches!(r.status, AlmostPrimalInfeasible | AlmostDualInfeasible);
    let primal = matches!(r.status, PrimalInfeasible | AlmostPrimalInfeasible);
    if !is_infeasible_status(r.status) {
        return Ok(());
    }
    let name = format!("{:?}", r.status);
    if !r.o.f("obj_val").is_nan() || !r.o.f("obj_val_dual").is_nan() {
        return Err(format!("{}: objective values are not NaN", name));
    }
    let (n, m) = (p.A.n, p.A.m);
    if r.x.len() != n || r.s.len() != m || r.z.len() != m {
        return Err(format!("{}: solution vector lengths", name));
    }
    if r.x.iter().chain(&r.s).chain(&r.z).any(|v| !v.is_finite()) {
        return Err(format!("{}: non-finite entry in the certificate", name));
    }
    let u = user_eval(p, st.presolve, &r.x, &r.s, &r.z);
    dropped_rows_ok(&u, &r.s, &r.z).map_err(|e| format!("{}: {}", name, e))?;
    let (c, kappa, snap) = (r.o.f("c"), r.o.f("kappa"), r.o.u("snap"));
    if snap == 99 {
        return Err(format!("{}: the returned certificate is not the kappa-normalisation of any recorded iterate", name));
    }
    // C02.rollback_never_infeasible (round 3): the returned iterate differs from the last
    // recorded one only on the insufficient-progress rollback path, where `ktratio < 1`; with
    // the gate (1/reduced_tol_ktratio)*1000 >= 1 an Almost*Infeasible verdict is impossible there
    if almost && snap >= 1 && (1.0 / st.rtol[5]) * 1000.0 >= 1.0 {
        return Err(format!("{}: verdict reached on the insufficient-progress rollback path (returned iterate is {} passes old) although (1/reduced_tol_ktratio)*1000 >= 1 — contradicts C02.rollback_never_infeasible", name, snap));
    }
    let t = if almost { &st.rtol } else { &st.tol };
    if primal {
        in_cones(&p.cones, &r.z, &u.keep, true).map_err(|e| format!("{}: z not in K*: {}", name, e))?;
        primal_cert_test(&u, c, kappa, t[3], t[4]).map_err(|e| format!("{}: {}", name, e))?;
    } else {
        in_cones(&p.cones, &r.s, &u.keep, false).map_err(|e| format!("{}: s not in K: {}", name, e))?;
        dual_cert_test(&u, c, kappa, t[3], t[4]).map_err(|e| format!("{}: {}", name, e))?;
    }
    Ok(())
}

/// C03: the report is truthful for every terminal status
pub fn check_c03(p: &Prob, st: &Sets, r: &SolveResp) -> Result<(), String> {
    use SolverStatus::*;
    let name = format!("{:?}", r.status);
    let (n, m) = (p.A.n, p.A.m);
    if r.status == Unsolved {
        return Err("terminal status Unsolved".into());
    }
    if r.x.len() != n || r.s.len() != m || r.z.len() != m {
        return Err(format!("{}: |x|,|s|,|z| = {},{},{} but n,m = {},{}", name, r.x.len(), r.s.len(), r.z.len(), n, m));
    }
    let o = &r.o;
    if o.u("iterations") != o.u("info_iterations") || o.u("iterations") != o.u("nkkt") {
        return Err(format!("{}: solution.iterations={} info.iterations={} KKT updates observed={}", name, o.u("iterations"), o.u("info_iterations"), o.u("nkkt")));
    }
    if o.u("iterations") > st.max_iter as usize {
        return Err(format!("{}: iterations {} > max_iter {}", name, o.u("iterations"), st.max_iter));
    }
    if o.u("info_status") != o.u("status") {
        return Err("solution.status differs from info.status".into());
    }
    let info = o.fs("info");
    let same = |a: f64, b: f64| a.to_bits() == b.to_bits() || (a.is_nan() && b.is_nan());
    if !same(o.f("r_prim"), info[2]) || !same(o.f("r_dual"), info[3]) {
        return Err(format!("{}: r_prim/r_dual differ from info.res_primal/res_dual", name));
    }
    let finite = r.x.iter().chain(&r.s).chain(&r.z).all(|v| v.is_finite());
    if is_infeasible_status(r.status) {
        if !o.f("obj_val").is_nan() || !o.f("obj_val_dual").is_nan() {
            return Err(format!("{}: objective values are not NaN", name));
        }
        return Ok(());
    }
    if !finite {
        // a numerical breakdown may leave NaNs behind; only the bookkeeping above is checked
        return if matches!(r.status, Solved | AlmostSolved) { Err(format!("{}: non-finite solution", name)) } else { Ok(()) };
    }
    let u = user_eval(p, st.presolve, &r.x, &r.s, &r.z);
    dropped_rows_ok(&u, &r.s, &r.z).map_err(|e| format!("{}: {}", name, e))?;
    let pobj = 0.5 * u.xpx + u.qx;
    let dobj = -u.bz - 0.5 * u.xpx;
    if ![pobj, dobj, u.rp, u.rd, u.rp_allow, u.rd_allow, u.xpx_mag, u.qx_mag, u.bz_mag].iter().all(|v| v.is_finite()) {
        // the re-evaluation itself overflows (entries of size 1e150+ after a breakdown):
        // nothing can be compared; a (Almost)Solved verdict on such a point is a failure
        return if matches!(r.status, Solved | AlmostSolved) { Err(format!("{}: the returned point overflows the objective / residuals", name)) } else { Ok(()) };
    }
    let (ov, od) = (o.f("obj_val"), o.f("obj_val_dual"));
    let ap = u.xpx_mag + u.qx_mag + 1e-12 * pobj.abs();
    let ad = u.xpx_mag + u.bz_mag + 1e-12 * dobj.abs();
    if (!ov.is_finite() || !od.is_finite()) && !matches!(r.status, Solved | AlmostSolved) {
        // after a breakdown the homogeneous iterate can have diverged (τ ~ 1e149 observed after
        // 150 iterations of a run ending NumericalError): the solver's internal x'Px = (τ·x)'P(τ·x)
        // overflows to inf and inf/inf = NaN, although the τ-normalised point returned to the user
        // is moderate.  Same overflow artefact as for the residuals below; exempt only when the
        // internal magnitudes really are in the overflow range.
        let vmax = r.x.iter().chain(&r.s).chain(&r.z).fold(0.0f64, |a, v| a.max(v.abs()));
        let tau = o.f("tau").abs();
        if tau.is_nan() || tau * vmax.max(1e-30) > 1e140 || vmax > 1e140 {
            return Ok(());
        }
    }
    if !((ov - pobj).abs() <= ap) {
        return Err(format!("{}: obj_val = {:e} but x'Px/2+q'x = {:e} (allowance {:e})", name, ov, pobj, ap));
    }
    if !((od - dobj).abs() <= ad) {
        return Err(format!("{}: obj_val_dual = {:e} but -b'z-x'Px/2 = {:e} (allowance {:e})", name, od, dobj, ad));
    }
    let dp = 1f64.max(u.normb + u.normx + u.norms);
    let dd = 1f64.max(u.normq + u.normx + u.normz);
    let (rp, rd) = (o.f("r_prim"), o.f("r_dual"));
    if !matches!(r.status, Solved | AlmostSolved) {
        // mirror image of the overflow artefact: the homogeneous iterate of a run that already
        // reports failure has collapsed (τ ~ 1e-218 observed after 200 iterations on an
        // inconsistent problem), every entry of the internal residual is ~τ and its SQUARE
        // underflows to 0 inside norm_scaled, so r_prim = r_dual = 0 is reported for a point
        // with an O(1) residual.  Exempt only when the internal magnitudes really are in the
        // underflow range (findings/C03-rprim-underflow).
        let vmax = r.x.iter().chain(&r.s).chain(&r.z).fold(0.0f64, |a, v| a.max(v.abs()));
        let tau = o.f("tau").abs();
        if tau * vmax.max(1.0) < 1e-150 {
            return Ok(());
        }
    }
    if (!rp.is_finite() || !rd.is_finite()) && !matches!(r.status, Solved | AlmostSolved) {
        // after a breakdown the internal residual can exceed 1e154 and its squared norm
        // overflows to inf inside the solver: an overflow artefact of a run that already
        // reports failure, not a rounding-level disagreement
        return Ok(());
    }
    if !((rp * dp - u.rp).abs() <= u.rp_allow + 1e-9 * u.rp + UNDERFLOW * (1.0 + dp)) {
        return Err(format!("{}: r_prim = {:e} but |Ax+s-b|/max(1,|b|inf+|x|+|s|) = {:e} (allowance {:e})", name, rp, u.rp / dp, u.rp_allow / dp));
    }
    if !((rd * dd - u.rd).abs() <= u.rd_allow + 1e-9 * u.rd + UNDERFLOW * (1.0 + dd)) {
        return Err(format!("{}: r_dual = {:e} but |Px+A'z+q|/max(1,|q|inf+|x|+|z|) = {:e} (allowance {:e})", name, rd, u.rd / dd, u.rd_allow / dd));
    }
    if r.status == AlmostSolved {
        optimality_test(&u, &st.rtol[..3]).map_err(|e| format!("AlmostSolved although the reduced test fails: {}", e))?;
    }
    if o.u("snap") == 99 {
        return Err(format!("{}: the returned point is not the tau-normalisation of any recorded iterate", name));
    }
    Ok(())
}

fn check_report(which: &str, p: &Prob, st: &Sets, resp: &SolveResp) -> Result<(), String> {
    if which.contains("c01") {
        check_c01(p, st, resp)?;
    }
    if which.contains("c02") {
        check_c02(p, st, resp)?;
    }
    if which.contains("c03") {
        check_c03(p, st, resp)?;
        if matches!(resp.status, SolverStatus::AlmostPrimalInfeasible | SolverStatus::AlmostDualInfeasible) {
            check_c02(p, st, resp).map_err(|e| format!("Almost* reported although the reduced certificate test fails: {}", e))?;
        }
    }
    Ok(())
}

fn oracle_solve(r: &Req, out: &str) -> Result<(), String> {
    if out.starts_with("panic") {
        // crashes are C04's subject; nothing is claimed about a solve that produced no verdict
        return Ok(());
    }
    let p = parse_prob(r);
    let st = Sets::parse(r);
    let resp = parse_solve(out).ok_or("unparsable solve response")?;
    check_report(r.str("check"), &p, &st, &resp)
}

/// every solve of a history is judged against the data that was current for it
fn oracle_resolve(r: &Req, out: &str) -> Result<(), String> {
    if out.starts_with("panic") {
        return Ok(());
    }
    let mut p = parse_prob(r);
    let st = Sets::parse(r);
    let steps = r.u("steps");
    let all = Req::parse(&format!("o {}", out)).ok_or("unparsable")?;
    for k in 0..=steps {
        if k > 0 {
            if all.u(&format!("upd_{}", k)) != 1 {
                return Err(format!("step {}: update_q / update_b was refused although no presolve / decomposition is active", k));
            }
            p.q = r.fs(&format!("q_{}", k));
            p.b = r.fs(&format!("b_{}", k));
            if r.has(&format!("Aidx_{}", k)) {
                let idx = r.us(&format!("Aidx_{}", k));
                let val = r.fs(&format!("Aval_{}", k));
                for (i, v) in idx.iter().zip(&val) {
                    p.A.nzval[*i] = *v;
                }
            }
            if r.has(&format!("Pscale_{}", k)) {
                // the solver holds the upper triangle; the oracle evaluates with the same
                let sc = r.f(&format!("Pscale_{}", k));
                p.P = user_triu(&p.P);
                p.P.nzval.iter_mut().for_each(|v| *v *= sc);
            }
        }
        let resp = parse_solve_sfx(out, &format!("_{}", k)).ok_or("unparsable history response")?;
        check_report(r.str("check"), &p, &st, &resp).map_err(|e| format!("solve #{} of the history: {}", k, e))?;
    }
    Ok(())
}

pub fn solve_channel() -> Channel {
    Channel { name: "solve", tol: Tol::Exact, run: run_solve, oracle: Some(oracle_solve), modelled: false,
        rust_fn: "DefaultSolver::new + solve (public API, observer on)", lean: "(oracle only: C01/C02/C03 stated on the user's data)" }
}
pub fn resolve_channel() -> Channel {
    Channel { name: "resolve", tol: Tol::Exact, run: run_resolve, oracle: Some(oracle_resolve), modelled: false,
        rust_fn: "DefaultSolver::new, then (update_q, update_b, solve)* on the same object", lean: "(oracle only: C01/C02/C03 after every solve of a history)" }
}
pub fn all_channels() -> Vec<Channel> {
    let mut v = component_channels();
    v.push(solve_channel());
    v.push(resolve_channel());
    v
}

// =====================================================================================
// part 4b: planted problems
// =====================================================================================

/// random cone list with total dimension ≤ `mmax`; `exotic` admits exp/pow/genpow/PSD cones
pub fn random_cones(s: &mut Session, mmax: usize, exotic: bool) -> Vec<SupportedConeT<f64>> {
    let mut cones = vec![];
    let mut m = 0;
    let target = 1 + s.rng.below(mmax);
    let mut tries = 0;
    while m < target && tries < 40 {
        tries += 1;
        let c = match s.rng.below(if exotic { 12 } else { 6 }) {
            0 => ZeroConeT(s.rng.below(4)),
            1 | 2 => NonnegativeConeT(1 + s.rng.below(5)),
            3 | 4 => SecondOrderConeT(1 + s.rng.below(5)),
            5 => NonnegativeConeT(s.rng.below(2)),
            6 | 7 => ExponentialConeT(),
            8 => PowerConeT(*s.rng.choose(&[0.5, 0.3, 0.75, 0.1, 0.9])),
            9 => {
                let d1 = 1 + s.rng.below(3);
                let mut al: Vec<f64> = (0..d1).map(|_| s.rng.uniform(0.2, 1.0)).collect();
                let t: f64 = al.iter().sum();
                for a in al.iter_mut() {
                    *a /= t;
                }
                // the powers must sum to one exactly enough for the constructor
                let rest: f64 = al[..d1 - 1].iter().sum();
                al[d1 - 1] = 1.0 - rest;
                GenPowerConeT(al, 1 + s.rng.below(2))
            }
            _ => PSDTriangleConeT(1 + s.rng.below(3)),
        };
        let nv = cone_nvars(&c);
        if m + nv > mmax {
            continue;
        }
        m += nv;
        cones.push(c);
    }
    cones
}

/// a point in the interior of K (`dual = false`) or of K* (`dual = true`)
pub fn interior_point(s: &mut Session, c: &SupportedConeT<f64>, dual: bool) -> Vec<f64> {
    let rng = &mut s.rng;
    match c {
        ZeroConeT(k) => (0..*k).map(|_| if dual { rng.normal() } else { 0.0 }).collect(),
        NonnegativeConeT(k) => (0..*k).map(|_| rng.uniform(0.2, 2.0)).collect(),
        SecondOrderConeT(k) => {
            if *k == 0 {
                return vec![];
            }
            let v: Vec<f64> = (0..*k - 1).map(|_| rng.normal()).collect();
            let mut out = vec![norm2(&v) + rng.uniform(0.2, 1.5)];
            out.extend(v);
            out
        }
        PSDTriangleConeT(n) => {
            let n = *n;
            let g: Vec<Vec<f64>> = (0..n).map(|_| (0..n).map(|_| rng.normal()).collect()).collect();
            let mut a = vec![vec![0.0; n]; n];
            for i in 0..n {
                for j in 0..n {
                    for k in 0..n {
                        a[i][j] += g[i][k] * g[j][k];
                    }
                }
                a[i][i] += 0.5;
            }
            let mut out = vec![];
            for col in 0..n {
                for row in 0..=col {
                    out.push(if row == col { a[row][col] } else { a[row][col] * std::f64::consts::SQRT_2 });
                }
            }
            out
        }
        ExponentialConeT() => {
            if !dual {
                let y = rng.uniform(0.3, 2.0);
                let x = rng.uniform(-1.5, 1.5);
                vec![x, y, y * (x / y).exp() * rng.uniform(1.2, 2.0)]
            } else {
                let u = -rng.uniform(0.3, 2.0);
                let v = rng.uniform(-1.5, 1.5);
                vec![u, v, -u * (v / u).exp() / std::f64::consts::E * rng.uniform(1.2, 2.0)]
            }
        }
        PowerConeT(a) => genpow_interior(rng, &[*a, 1.0 - *a], 1, dual),
        GenPowerConeT(al, d2) => genpow_interior(rng, al, *d2, dual),
    }
}
fn genpow_interior(rng: &mut Rng, al: &[f64], d2: usize, dual: bool) -> Vec<f64> {
    let x: Vec<f64> = al.iter().map(|_| rng.uniform(0.3, 2.0)).collect();
    let mut bound = 1.0;
    for (xi, a) in x.iter().zip(al) {
        bound *= if dual { (xi / a).powf(*a) } else { xi.powf(*a) };
    }
    let mut w: Vec<f64> = (0..d2).map(|_| rng.normal()).collect();
    let nw = norm2(&w).max(1e-9);
    let r = bound * rng.uniform(0.0, 0.7);
    for v in w.iter_mut() {
        *v *= r / nw;
    }
    let mut out = x;
    out.extend(w);
    out
}
fn interior_all(s: &mut Session, cones: &[SupportedConeT<f64>], dual: bool) -> Vec<f64> {
    let mut v = vec![];
    for c in cones {
        v.extend(interior_point(s, c, dual));
    }
    v
}

fn dense_to_csc(d: &[Vec<f64>], m: usize, n: usize, triu: bool) -> CscMatrix<f64> {
    let mut colptr = vec![0];
    let mut rowval = vec![];
    let mut nzval = vec![];
    for c in 0..n {
        for r in 0..m {
            if d[r][c] != 0.0 && (!triu || r <= c) {
                rowval.push(r);
                nzval.push(d[r][c]);
            }
        }
        colptr.push(rowval.len());
    }
    CscMatrix::new(m, n, colptr, rowval, nzval)
}

/// random PSD matrix (dense), zero with probability `pzero`
fn random_psd(s: &mut Session, n: usize, pzero: f64) -> Vec<Vec<f64>> {
    let mut p = vec![vec![0.0; n]; n];
    if n == 0 || s.rng.bool(pzero) {
        return p;
    }
    let k = 1 + s.rng.below(n);
    let g: Vec<Vec<f64>> = (0..k).map(|_| (0..n).map(|_| if s.rng.bool(0.6) { s.rng.normal() } else { 0.0 }).collect()).collect();
    for i in 0..n {
        for j in 0..n {
            for r in 0..k {
                p[i][j] += g[r][i] * g[r][j];
            }
        }
    }
    if s.rng.bool(0.5) {
        for i in 0..n {
            p[i][i] += 0.1;
        }
    }
    p
}

fn random_a(s: &mut Session, m: usize, n: usize, illcond: bool) -> Vec<Vec<f64>> {
    let dens = *s.rng.choose(&[0.3, 0.6, 1.0]);
    let mut a = vec![vec![0.0; n]; m];
    let rs: Vec<f64> = (0..m).map(|_| if illcond { 10f64.powf(s.rng.uniform(-3.0, 3.0)) } else { 1.0 }).collect();
    let cs: Vec<f64> = (0..n).map(|_| if illcond { 10f64.powf(s.rng.uniform(-2.0, 2.0)) } else { 1.0 }).collect();
    for i in 0..m {
        for j in 0..n {
            if s.rng.bool(dens) {
                a[i][j] = s.rng.normal() * rs[i] * cs[j];
            }
        }
    }
    a
}

#[derive(Clone, Copy, Debug, PartialEq)]
pub enum Plant {
    Feasible,
    PrimalInfeasible,
    DualInfeasible,
}

/// planted problem of the requested kind (quick tier sizes: n ≤ 12, m ≤ 20)
pub fn plant(s: &mut Session, kind: Plant, exotic: bool, illcond: bool, infbounds: bool) -> Prob {
    let nmax = if s.thorough() { 30 } else { 12 };
    let mmax = if s.thorough() { 45 } else { 20 };
    let n = 1 + s.rng.below(nmax);
    let cones = random_cones(s, mmax, exotic);
    let m: usize = cones.iter().map(cone_nvars).sum();
    let mut a = random_a(s, m, n, illcond);
    let mut p = random_psd(s, n, if kind == Plant::DualInfeasible { 0.6 } else { 0.4 });
    let mut q = vec![0.0; n];
    let mut b = vec![0.0; m];
    match kind {
        Plant::Feasible => {
            let x0: Vec<f64> = (0..n).map(|_| s.rng.normal()).collect();
            let s0 = interior_all(s, &cones, false);
            let mut z0 = interior_all(s, &cones, true);
            // rows with an infinite bound carry no multiplier
            let mut inf_rows = vec![false; m];
            if infbounds {
                let mut off = 0;
                for c in &cones {
                    let nv = cone_nvars(c);
                    let nn = matches!(c, NonnegativeConeT(_) | SecondOrderConeT(1) | PSDTriangleConeT(1));
                    for i in off..off + nv {
                        if nn && s.rng.bool(0.35) {
                            inf_rows[i] = true;
                            z0[i] = 0.0;
                        }
                    }
                    off += nv;
                }
            }
            for i in 0..m {
                let ax: f64 = (0..n).map(|j| a[i][j] * x0[j]).sum();
                b[i] = ax + s0[i];
                if inf_rows[i] {
                    b[i] = *s.rng.choose(&[1e20, 2e20, 1e25, f64::INFINITY]);
                }
            }
            for j in 0..n {
                let px: f64 = (0..n).map(|k| p[j][k] * x0[k]).sum();
                let atz: f64 = (0..m).map(|i| a[i][j] * z0[i]).sum();
                q[j] = -px - atz;
            }
        }
        Plant::PrimalInfeasible => {
            // z0 ∈ int K*, A'z0 = 0, b'z0 = −1  ⇒  { x : b − Ax ∈ K } = ∅
            let z0 = interior_all(s, &cones, true);
            let piv = (0..m).max_by(|&i, &j| z0[i].abs().partial_cmp(&z0[j].abs()).unwrap());
            if let Some(piv) = piv {
                if z0[piv].abs() > 1e-6 {
                    for j in 0..n {
                        let t: f64 = (0..m).map(|i| a[i][j] * z0[i]).sum();
                        a[piv][j] -= t / z0[piv];
                    }
                    for i in 0..m {
                        b[i] = s.rng.normal();
                    }
                    let t: f64 = (0..m).map(|i| b[i] * z0[i]).sum();
                    b[piv] -= (t + s.rng.uniform(0.5, 2.0)) / z0[piv];
                }
            }
            for j in 0..n {
                q[j] = s.rng.normal();
            }
        }
        Plant::DualInfeasible => {
            // x0 with P x0 = 0, A x0 + s0 = 0 (s0 ∈ int K), q'x0 = −1; the primal is feasible
            let x0: Vec<f64> = (0..n).map(|_| s.rng.normal()).collect();
            let s0 = interior_all(s, &cones, false);
            let piv = (0..n).max_by(|&i, &j| x0[i].abs().partial_cmp(&x0[j].abs()).unwrap()).unwrap();
            // project the rows of a square-root factor off x0: P = G'G with G x0 = 0
            let k = if p.iter().flatten().all(|&v| v == 0.0) { 0 } else { 1 + s.rng.below(n) };
            let xx: f64 = x0.iter().map(|v| v * v).sum();
            p = vec![vec![0.0; n]; n];
            for _ in 0..k {
                let mut g: Vec<f64> = (0..n).map(|_| s.rng.normal()).collect();
                let gx: f64 = g.iter().zip(&x0).map(|(a, b)| a * b).sum();
                for j in 0..n {
                    g[j] -= gx / xx * x0[j];
                }
                for i in 0..n {
                    for j in 0..n {
                        p[i][j] += g[i] * g[j];
                    }
                }
            }
            for i in 0..m {
                let t: f64 = (0..n).map(|j| a[i][j] * x0[j]).sum();
                a[i][piv] -= (t + s0[i]) / x0[piv];
            }
            for j in 0..n {
                q[j] = s.rng.normal();
            }
            let t: f64 = q.iter().zip(&x0).map(|(a, b)| a * b).sum();
            q[piv] -= (t + s.rng.uniform(0.5, 2.0)) / x0[piv];
            // primal feasible point: b = A x1 + s1
            let x1: Vec<f64> = (0..n).map(|_| s.rng.normal()).collect();
            let s1 = interior_all(s, &cones, false);
            for i in 0..m {
                let t: f64 = (0..n).map(|j| a[i][j] * x1[j]).sum();
                b[i] = t + s1[i];
            }
        }
    }
    let full_sym = s.rng.bool(0.25);
    Prob { P: dense_to_csc(&p, n, n, !full_sym), q, A: dense_to_csc(&a, m, n, false), b, cones }
}

pub fn random_sets(s: &mut Session) -> Sets {
    let mut st = Sets::default();
    st.eq = s.rng.bool(0.7);
    st.presolve = s.rng.bool(0.8);
    st.sreg = s.rng.bool(0.85);
    st.dreg = s.rng.bool(0.85);
    st.ir = s.rng.bool(0.85);
    st.method = s.rng.choose(&["qdldl", "qdldl", "auto", "faer"]).to_string();
    if s.rng.bool(0.2) {
        let t = *s.rng.choose(&[1e-6, 1e-7, 1e-9, 1e-10]);
        st.tol[0] = t;
        st.tol[1] = t;
        st.tol[2] = t;
    }
    st
}

pub fn submit_solve(s: &mut Session, p: &Prob, st: &Sets, check: &str) -> String {
    let mut l = st.put(put_prob(Line::new("solve"), p)).s("check", check);
    if s.rng.bool(0.15) {
        let f = 1 + s.rng.below(3);
        l = l.u("flip", f);
        s.count(&format!("solve:settings-flipped-after-new:{}", f));
    }
    let out = s.submit(l.done());
    if out.starts_with("panic") {
        s.note(format!("solve panicked (subject of C04, not judged here): {} | cones={} n={} m={} method={} eq={} sreg={} dreg={}",
            out.chars().take(160).collect::<String>(), cone_tokens(&p.cones), p.A.n, p.A.m, st.method, st.eq, st.sreg, st.dreg));
    }
    if let Some(r) = parse_solve(&out) {
        s.count(&format!("status:{:?}", r.status));
        if r.o.b("rolled_back") {
            s.count("rolled_back");
            s.count(&format!("rolled_back:{:?}", r.status));
        }
    }
    out
}

/// requests for the component channels built from a *live* solve: the internal data and the
/// recorded last iterate go through `residuals.update` and `info.update`, and the scalars
/// the live solver recorded for that iterate are the `expect=` of the latter
pub fn submit_live_components(s: &mut Session, p: &Prob, st: &Sets) {
    let res = std::panic::catch_unwind(std::panic::AssertUnwindSafe(|| solve_problem(p, st)));
    let (_o, mut solver, ev) = match res {
        Ok(v) => v,
        Err(_) => return,
    };
    if verif_problemdata::is_chordal_decomposed(&solver.data) {
        return;
    }
    let passes: Vec<&observer::IterSnapshot> = ev
        .iter()
        .filter_map(|e| if let observer::Event::Pass(b) = e { Some(&**b) } else { None })
        .collect();
    if passes.is_empty() {
        return;
    }
    let k = if s.rng.bool(0.6) { passes.len() - 1 } else { s.rng.below(passes.len()) };
    let ps = passes[k];
    let d = &solver.data;
    let l = Line::new("residuals.update").csc("P", &d.P).csc("A", &d.A).fs("q", &d.q).fs("b", &d.b);
    let l = put_vars(l, &ps.x, &ps.s, &ps.z, ps.tau, ps.kappa).fs("Px0", &vec![0.0; d.n]).fs("rx0", &vec![1.0; d.n]).fs("rz0", &vec![1.0; d.m]).fs("rxinf0", &vec![1.0; d.n]).fs("rzinf0", &vec![1.0; d.m]);
    s.submit(l.done());
    // the residuals the real code forms on that iterate
    let mut v = DefaultVariables::<f64>::new(d.n, d.m);
    v.x = ps.x.clone();
    v.s = ps.s.clone();
    v.z = ps.z.clone();
    v.τ = ps.tau;
    v.κ = ps.kappa;
    let mut r = DefaultResiduals::<f64>::new(d.n, d.m);
    r.update(&v, d);
    let f = verif_residuals::get(&r);
    let eq = &d.equilibration;
    let (nq, nb) = verif_problemdata::norms(d);
    let mut l = Line::new("info.update").fs("q", &d.q).fs("b", &d.b);
    l = put_equil(l, &eq.d, &eq.dinv, &eq.e, &eq.einv, eq.c);
    l = put_vars(l, &ps.x, &ps.s, &ps.z, ps.tau, ps.kappa);
    l = put_resid(l, &f);
    l = put_info(l, &vec![0.0; 15], ps.iterations as usize, 0);
    if let Some(v) = nq {
        l = l.f("normq", v);
    }
    if let Some(v) = nb {
        l = l.f("normb", v);
    }
    let expect = [ps.cost_primal, ps.cost_dual, ps.res_primal, ps.res_dual, ps.res_primal_inf, ps.res_dual_inf, ps.gap_abs, ps.gap_rel, ps.ktratio];
    l = l.fs("expect", &expect);
    s.submit(l.done());
    s.count("live-components");
    let _ = &mut solver;
}

// =====================================================================================
// part 4c: wide-magnitude objectives and re-solve histories
// =====================================================================================

/// planted feasible QP (P ≠ 0, q ≠ 0, active constraints) whose whole objective is scaled by
/// γ = 10^U(−8,8) relative to the constraints, optionally with row/column scalings over many
/// decades: the optimum x is unchanged, the multipliers scale with γ
pub fn plant_cost_scaled(s: &mut Session, exotic: bool) -> Prob {
    let ill = s.rng.bool(0.4);
    let mut p = loop {
        let p = plant(s, Plant::Feasible, exotic, ill, false);
        if p.P.nzval.iter().any(|&v| v != 0.0) && p.q.iter().any(|&v| v != 0.0) && p.A.m > 0 {
            break p;
        }
    };
    let g = 10f64.powf(s.rng.uniform(-8.0, 8.0));
    for v in p.P.nzval.iter_mut() {
        *v *= g;
    }
    for v in p.q.iter_mut() {
        *v *= g;
    }
    p
}

/// a history of (q, b) pairs on one (P, A, cones): feasible and infeasible data alternate
pub struct History {
    pub base: Prob,
    pub steps: Vec<(Vec<f64>, Vec<f64>)>,
    pub kinds: String,
}

pub fn plant_history(s: &mut Session, exotic: bool) -> History {
    let primal = s.rng.bool(0.5);
    let bad = plant(s, if primal { Plant::PrimalInfeasible } else { Plant::DualInfeasible }, exotic, false, false);
    let (n, m) = (bad.A.n, bad.A.m);
    // a feasible, bounded (q, b) for the same P, A: b = A x1 + s1, q = −P x1 − A' z1
    let x1: Vec<f64> = (0..n).map(|_| s.rng.normal()).collect();
    let s1 = interior_all(s, &bad.cones, false);
    let z1 = interior_all(s, &bad.cones, true);
    let pt = user_triu(&bad.P);
    let (ax, _) = a_mul(&bad.A, &x1);
    let (px, _) = sym_mul(&pt, &x1);
    let (atz, _) = at_mul(&bad.A, &z1);
    let bf: Vec<f64> = (0..m).map(|i| ax[i] + s1[i]).collect();
    let qf: Vec<f64> = (0..n).map(|j| -px[j] - atz[j]).collect();
    // infeasible data differs from the feasible one only in the vector that carries the
    // infeasibility (b for primal, q for dual infeasibility)
    let (qi, bi) = if primal { (qf.clone(), bad.b.clone()) } else { (bad.q.clone(), bf.clone()) };
    let len = 2 + s.rng.below(3);
    let mut seq = vec![];
    let mut kinds = String::new();
    let mut feas = s.rng.bool(0.6);
    for _ in 0..len {
        if feas {
            // a fresh feasible right-hand side each time
            let sc = s.rng.uniform(0.5, 2.0);
            seq.push((qf.iter().map(|v| v * sc).collect::<Vec<f64>>(), bf.clone()));
            kinds.push('F');
        } else {
            seq.push((qi.clone(), bi.clone()));
            kinds.push(if primal { 'P' } else { 'D' });
        }
        feas = if s.rng.bool(0.8) { !feas } else { feas };
    }
    let mut base = bad.clone();
    base.q = seq[0].0.clone();
    base.b = seq[0].1.clone();
    History { base, steps: seq[1..].to_vec(), kinds }
}

pub fn submit_history(s: &mut Session, h: &History, st: &Sets, check: &str) -> String {
    let mut st = st.clone();
    st.presolve = false; // data updates are refused on a presolved problem
    let mut l = st.put(put_prob(Line::new("resolve"), &h.base)).s("check", check).u("steps", h.steps.len());
    for (k, (q, b)) in h.steps.iter().enumerate() {
        l = l.fs(&format!("q_{}", k + 1), q).fs(&format!("b_{}", k + 1), b);
        // in a third of the steps also update matrix entries through the index/value forms,
        // indices in shuffled (non-ascending) order
        if s.rng.bool(0.35) && !h.base.A.nzval.is_empty() {
            let nnz = h.base.A.nzval.len();
            let mut idx: Vec<usize> = (0..nnz).filter(|_| s.rng.bool(0.5)).collect();
            if idx.is_empty() {
                idx.push(s.rng.below(nnz));
            }
            for i in (1..idx.len()).rev() {
                let j = s.rng.below(i + 1);
                idx.swap(i, j);
            }
            let val: Vec<f64> = idx.iter().map(|&i| h.base.A.nzval[i] * s.rng.uniform(0.8, 1.25)).collect();
            l = l.us(&format!("Aidx_{}", k + 1), &idx).fs(&format!("Aval_{}", k + 1), &val).u(&format!("Aform_{}", k + 1), 2 + s.rng.below(2));
            s.count("history:update_A-index-form");
        }
        let ptn = user_triu(&h.base.P).nzval.len();
        if s.rng.bool(0.25) && ptn > 0 {
            let mut idx: Vec<usize> = (0..ptn).collect();
            for i in (1..idx.len()).rev() {
                let j = s.rng.below(i + 1);
                idx.swap(i, j);
            }
            l = l.f(&format!("Pscale_{}", k + 1), s.rng.uniform(0.5, 2.0)).us(&format!("Pidx_{}", k + 1), &idx).u(&format!("Pform_{}", k + 1), 2 + s.rng.below(2));
            s.count("history:update_P-index-form");
        }
    }
    let out = s.submit(l.done());
    s.count(&format!("history:{}", h.kinds));
    for k in 0..=h.steps.len() {
        if let Some(r) = parse_solve_sfx(&out, &format!("_{}", k)) {
            s.count(&format!("history-status:{:?}", r.status));
        }
    }
    out
}

// =====================================================================================
// part 5 (C03 round 3, add-only): exports for report-specific channels that live in the
//         property's own binary (`c03.rs`: `report`, `info.reset`).  Thin call-throughs; no
//         existing item is changed.
// =====================================================================================

/// `render_solve` (the canonical text of one solve report; keys suffixed `sfx`)
pub fn render_solve_sfx(o: &SolveOut, sfx: &str) -> String {
    render_solve(o, sfx)
}
/// the shared property oracles (`check_c01` / `check_c02` / `check_c03`, selected by `which`) on
/// the report with key suffix `sfx` inside `out`
pub fn check_report_text(which: &str, p: &Prob, st: &Sets, out: &str, sfx: &str) -> Result<(), String> {
    let resp = parse_solve_sfx(out, sfx).ok_or("unparsable report")?;
    check_report(which, p, st, &resp)
}
/// `info_of` / `fmt_info`: the 15 scalars + iterations + status encoding of `DefaultInfo`
pub fn info_from_req(r: &Req) -> DefaultInfo<f64> {
    info_of(r)
}
pub fn info_to_text(i: &DefaultInfo<f64>) -> String {
    fmt_info(i)
}
pub fn info_line(l: Line, a: &[f64], iterations: usize, status: usize) -> Line {
    put_info(l, a, iterations, status)
}
pub fn status_index(s: SolverStatus) -> usize {
    status_to_u(s)
}
pub fn status_from_index(u: usize) -> SolverStatus {
    status_of_u(u)
}
