//! C15 — cone step lengths are safe and tight; margins and unit shifts place any vector
//! strictly inside the cone.
//!
//! Correspondence channels (bit-exact / ulps): NN, SOC, zero-cone and composite
//! `step_length`, `_step_length_soc_component`, `margins`, `scaled_unit_shift`,
//! `unit_initialization`, `backtrack_search` (the model replays the accept/reject sequence
//! observed on the implementation) and `_shift_to_cone_interior`.
//! Oracles on the implementation: membership at α*, α* ≤ αmax, safety at intermediate
//! steps, tightness; PSD through the implementation plus an own Jacobi eigenvalue routine;
//! exp/pow: the accepted point is feasible and the previous candidate was rejected.
//!
//! Round 3: the exp / pow / genpow `step_length` run against the model's own feasibility
//! predicates (`nonsym.step_length`, `genpow.step_length`); the PSD cone's
//! `step_length_psd_component`, `step_length` and `margins` run against the model with the
//! LAPACK eigenvalues read through hooks (`psd.step_length_component`, `psd.step_length`,
//! `psd.margins`, `psdcomp.*`), the matrix handed to LAPACK is compared entry by entry
//! (`psd.scaled_direction`), and the spectral contract (the value LAPACK returned is the least
//! eigenvalue of that matrix) is checked by the oracles with an own Jacobi routine;
//! `composite.step_length_full` mixes all cone types, every cone run by its own model.
use clarabel::solver::traits::Settings;
use clarabel::solver::verif_hooks_variables::shift_to_cone_interior;
use clarabel::solver::*;
use clarabel::verif_hooks::cones::verif_hooks_expcone as hexp;
use clarabel::verif_hooks::cones::verif_hooks_genpowcone as hgp;
use clarabel::verif_hooks::cones::verif_hooks_psdcone as hpsd;
use clarabel::verif_hooks::cones::verif_hooks_psdcone_barrier as hpbar;
use clarabel::verif_hooks::cones::verif_hooks_psdcone_step as hpstep;
use clarabel::verif_hooks::cones::verif_hooks_powcone as hpow;
use clarabel::verif_hooks::cones::verif_hooks_socone as hsoc;
use clarabel::verif_hooks::cones::*;
use clarabel::verif_hooks::step::ScalingStrategy;
use std::cell::RefCell;
use vharness::*;

const EPS: f64 = f64::EPSILON;

fn dot(a: &[f64], b: &[f64]) -> f64 {
    a.iter().zip(b).map(|(x, y)| x * y).sum()
}
fn nrm(a: &[f64]) -> f64 {
    dot(a, a).sqrt()
}
fn axpy(x: &[f64], a: f64, y: &[f64]) -> Vec<f64> {
    x.iter().zip(y).map(|(p, q)| p + a * q).collect()
}
fn settings(msf: f64, bstep: f64, bamin: f64) -> DefaultSettings<f64> {
    let mut st = DefaultSettings::<f64>::default();
    st.max_step_fraction = msf;
    st.linesearch_backtrack_step = bstep;
    st.min_terminate_step_length = bamin;
    st
}
fn resp(out: &str) -> Result<Req, String> {
    if out.starts_with("panic") || out.starts_with("err") {
        return Err(format!("implementation returned {}", out));
    }
    Req::parse(&format!("x {}", out)).ok_or_else(|| "unparsable response".to_string())
}
fn pd(primal: bool) -> PrimalOrDualCone {
    if primal { PrimalOrDualCone::PrimalCone } else { PrimalOrDualCone::DualCone }
}

// ------------------------------------------------------------------ step lengths: NN / SOC / zero

fn run_nn_step_length(r: &Req) -> String {
    let z = r.fs("z");
    let mut k = NonnegativeCone::<f64>::new(z.len());
    let st = settings(0.99, 0.8, 1e-4);
    let (az, as_) = k.step_length(&r.fs("dz"), &r.fs("ds"), &z, &r.fs("s"), st.core(), r.f("amax"));
    Line::out().f("az", az).f("as", as_).done()
}

/// NN: `x ≥ 0` assumed (> 0 for the tightness part)
fn check_nn_component(x: &[f64], y: &[f64], amax: f64, a: f64, what: &str, tight: bool) -> Result<(), String> {
    if x.iter().any(|v| !(*v > 0.0)) || !(amax > 0.0) {
        return Ok(()); // outside the quantifier of the property
    }
    if !(a <= amax) || !(a >= 0.0) {
        return Err(format!("{}: step {} not in [0, αmax={}]", what, a, amax));
    }
    for frac in [1.0, 0.999, 0.75, 0.5, 0.1, 1e-3] {
        let al = a * frac;
        for i in 0..x.len() {
            let v = x[i] + al * y[i];
            if v < -8.0 * EPS * (x[i].abs() + (al * y[i]).abs()) {
                return Err(format!("{}: coordinate {} is {} at α={} (returned step {})", what, i, v, al, a));
            }
        }
    }
    if tight && a < amax {
        // tight: some coordinate is (numerically) zero at α*
        let tight = (0..x.len()).any(|i| (x[i] + a * y[i]).abs() <= 8.0 * EPS * (x[i].abs() + (a * y[i]).abs()));
        if !tight {
            return Err(format!("{}: step {} < αmax {} but no coordinate reaches the boundary", what, a, amax));
        }
    }
    Ok(())
}
fn oracle_nn_step_length(r: &Req, out: &str) -> Result<(), String> {
    let (z, s, dz, ds) = (r.fs("z"), r.fs("s"), r.fs("dz"), r.fs("ds"));
    if z.len() != s.len() || dz.len() != z.len() || ds.len() != s.len() {
        return if out.starts_with("panic") { Ok(()) } else { Err("length mismatch must panic (assert_eq!)".into()) };
    }
    let o = resp(out)?;
    check_nn_component(&z, &dz, r.f("amax"), o.f("az"), "z", true)?;
    check_nn_component(&s, &ds, r.f("amax"), o.f("as"), "s", true)
}

fn run_soc_step_length(r: &Req) -> String {
    let z = r.fs("z");
    let mut k = SecondOrderCone::<f64>::new(z.len());
    let st = settings(0.99, 0.8, 1e-4);
    let (az, as_) = k.step_length(&r.fs("dz"), &r.fs("ds"), &z, &r.fs("s"), st.core(), r.f("amax"));
    Line::out().f("az", az).f("as", as_).done()
}
fn run_soc_component(r: &Req) -> String {
    let a = hsoc::step_length_soc_component(&r.fs("x"), &r.fs("y"), r.f("amax"));
    Line::out().f("a", a).done()
}

/// SOC residual `(p0 − ‖p1‖)(p0 + ‖p1‖)` of `p = x + αy` and the rounding scale
fn soc_res(x: &[f64], y: &[f64], al: f64) -> (f64, f64, f64) {
    let p = axpy(x, al, y);
    let n1 = nrm(&p[1..]);
    let scale = (nrm(x) + al.abs() * nrm(y)).powi(2);
    ((p[0] - n1) * (p[0] + n1), p[0], scale)
}

/// SOC: the property is quantified over interior `x`
fn check_soc_component(x: &[f64], y: &[f64], amax: f64, a: f64, what: &str) -> Result<(), String> {
    let n1 = nrm(&x[1..]);
    let strictly_interior = x[0] > 0.0 && (x[0] - n1) > 1e-13 * x[0];
    if !(a <= amax) {
        return Err(format!("{}: step {} exceeds αmax {}", what, a, amax));
    }
    if !strictly_interior || !(amax > 0.0) {
        return Ok(());
    }
    if !(a >= 0.0) {
        return Err(format!("{}: negative step {}", what, a));
    }
    let tol = 64.0 * EPS;
    for frac in [1.0, 0.999, 0.9, 0.75, 0.5, 0.25, 0.1, 1e-3] {
        let al = a * frac;
        let (res, p0, scale) = soc_res(x, y, al);
        if res < -tol * scale || p0 < -tol * scale.sqrt() {
            return Err(format!(
                "{}: x+αy leaves the cone at α={} (returned step {}, αmax {}): residual {:e}, p0 {:e}, scale {:e}",
                what, al, a, amax, res, p0, scale
            ));
        }
    }
    if a < amax {
        let (res, p0, scale) = soc_res(x, y, a);
        let on_boundary = res.abs() <= 1e3 * tol * scale || p0.abs() <= 1e3 * tol * scale.sqrt();
        let (res2, p02, scale2) = soc_res(x, y, a * (1.0 + 1e-9));
        let outside_after = res2 < 0.0 || p02 < 0.0 || res2.abs() <= 1e3 * tol * scale2;
        if !on_boundary && !outside_after {
            return Err(format!(
                "{}: step {} < αmax {} is not tight: residual at α* {:e} (scale {:e}), still inside at α*(1+1e-9)",
                what, a, amax, res, scale
            ));
        }
        if !on_boundary {
            return Err(format!("{}: step {} < αmax {} but the boundary residual {:e} is not ≈ 0 (scale {:e})", what, a, amax, res, scale));
        }
    }
    Ok(())
}
fn oracle_soc_step_length(r: &Req, out: &str) -> Result<(), String> {
    let o = resp(out)?;
    check_soc_component(&r.fs("z"), &r.fs("dz"), r.f("amax"), o.f("az"), "z")?;
    check_soc_component(&r.fs("s"), &r.fs("ds"), r.f("amax"), o.f("as"), "s")
}
fn oracle_soc_component(r: &Req, out: &str) -> Result<(), String> {
    if r.fs("x").is_empty() || r.fs("y").is_empty() {
        return if out.starts_with("panic") { Ok(()) } else { Err("x[0] on an empty slice must panic".into()) };
    }
    let o = resp(out)?;
    check_soc_component(&r.fs("x"), &r.fs("y"), r.f("amax"), o.f("a"), "x")
}

fn run_zero_step_length(r: &Req) -> String {
    let mut k = ZeroCone::<f64>::new(3);
    let st = settings(0.99, 0.8, 1e-4);
    let v = [1.0, -2.0, 0.0];
    let (az, as_) = k.step_length(&v, &v, &v, &v, st.core(), r.f("amax"));
    Line::out().f("az", az).f("as", as_).done()
}
fn oracle_zero_step_length(r: &Req, out: &str) -> Result<(), String> {
    let o = resp(out)?;
    if o.f("az") != r.f("amax") || o.f("as") != r.f("amax") {
        return Err("zero cone must allow the full step".into());
    }
    Ok(())
}

// ------------------------------------------------------------------ margins / shifts / unit init (single cones)

fn run_nn_margins(r: &Req) -> String {
    let mut z = r.fs("z");
    let mut k = NonnegativeCone::<f64>::new(z.len());
    let (a, b) = k.margins(&mut z, pd(true));
    Line::out().f("a", a).f("b", b).done()
}
fn oracle_nn_margins(r: &Req, out: &str) -> Result<(), String> {
    let o = resp(out)?;
    let z = r.fs("z");
    let mn = z.iter().cloned().fold(f64::INFINITY, f64::min);
    let pos: f64 = z.iter().map(|v| v.max(0.0)).sum();
    if o.f("a") != mn {
        return Err(format!("min margin {} expected {}", o.f("a"), mn));
    }
    if (o.f("b") - pos).abs() > 1e-14 * pos.abs() {
        return Err(format!("positive margin {} expected {}", o.f("b"), pos));
    }
    Ok(())
}
fn run_soc_margins(r: &Req) -> String {
    let mut z = r.fs("z");
    let mut k = SecondOrderCone::<f64>::new(z.len());
    let (a, b) = k.margins(&mut z, pd(true));
    Line::out().f("a", a).f("b", b).done()
}
fn oracle_soc_margins(r: &Req, out: &str) -> Result<(), String> {
    let o = resp(out)?;
    let z = r.fs("z");
    // z − α e is on the boundary
    let a = o.f("a");
    let n1 = nrm(&z[1..]);
    if ((z[0] - a) - n1).abs() > 4.0 * EPS * (z[0].abs() + n1) {
        return Err(format!("z − αe is not on the boundary: α={} z0={} ‖z1‖={}", a, z[0], n1));
    }
    if o.f("b") != a.max(0.0) {
        return Err(format!("β = {} expected max(0,α) = {}", o.f("b"), a.max(0.0)));
    }
    Ok(())
}
fn run_zero_margins(r: &Req) -> String {
    let mut z = r.fs("z");
    let mut k = ZeroCone::<f64>::new(z.len());
    let (a, b) = k.margins(&mut z, pd(true));
    Line::out().f("a", a).f("b", b).done()
}

fn run_nn_shift(r: &Req) -> String {
    let mut z = r.fs("z");
    NonnegativeCone::<f64>::new(z.len()).scaled_unit_shift(&mut z, r.f("a"), pd(true));
    Line::out().fs("z", &z).done()
}
fn run_soc_shift(r: &Req) -> String {
    let mut z = r.fs("z");
    SecondOrderCone::<f64>::new(z.len().max(2)).scaled_unit_shift(&mut z, r.f("a"), pd(true));
    Line::out().fs("z", &z).done()
}
fn run_zero_shift(r: &Req) -> String {
    let mut z = r.fs("z");
    ZeroCone::<f64>::new(z.len()).scaled_unit_shift(&mut z, r.f("a"), pd(r.b("primal")));
    Line::out().fs("z", &z).done()
}
fn run_psd_shift(r: &Req) -> String {
    let mut z = r.fs("z");
    PSDTriangleCone::<f64>::new(r.u("n")).scaled_unit_shift(&mut z, r.f("a"), pd(true));
    Line::out().fs("z", &z).done()
}
/// the shift adds `a·e` (e = the cone's unit element)
fn oracle_shift(r: &Req, out: &str) -> Result<(), String> {
    let z = r.fs("z");
    let a = r.f("a");
    let want: Vec<f64> = match r.chan.as_str() {
        "nn.scaled_unit_shift" => z.iter().map(|v| v + a).collect(),
        "soc.scaled_unit_shift" => {
            if z.is_empty() {
                return if out.starts_with("panic") { Ok(()) } else { Err("z[0] on an empty slice must panic".into()) };
            }
            let mut w = z.clone();
            w[0] += a;
            w
        }
        "zero.scaled_unit_shift" => {
            if r.b("primal") { vec![0.0; z.len()] } else { z.clone() }
        }
        _ => {
            let n = r.u("n");
            if z.len() < n * (n + 1) / 2 {
                return if out.starts_with("panic") { Ok(()) } else { Err("short slice must panic".into()) };
            }
            let mut w = z.clone();
            let mut idx = 0usize;
            for col in 0..n {
                idx += col; // position of (col,col) in the packed upper triangle
                w[idx] += a;
                idx += 1;
            }
            w
        }
    };
    let o = resp(out)?;
    if o.fs("z") != want {
        return Err(format!("shift result {:?} expected {:?}", o.fs("z"), want));
    }
    Ok(())
}

fn unit_init<C: Cone<f64>>(k: &C, r: &Req) -> String {
    let (mut z, mut s) = (r.fs("z"), r.fs("s"));
    k.unit_initialization(&mut z, &mut s);
    Line::out().fs("z", &z).fs("s", &s).done()
}
fn run_nn_unit(r: &Req) -> String {
    unit_init(&NonnegativeCone::<f64>::new(r.fs("z").len()), r)
}
fn run_zero_unit(r: &Req) -> String {
    unit_init(&ZeroCone::<f64>::new(r.fs("z").len()), r)
}
fn run_soc_unit(r: &Req) -> String {
    unit_init(&SecondOrderCone::<f64>::new(r.fs("z").len().max(2)), r)
}
fn run_psd_unit(r: &Req) -> String {
    unit_init(&PSDTriangleCone::<f64>::new(r.u("n")), r)
}
fn oracle_unit(r: &Req, out: &str) -> Result<(), String> {
    let o = resp(out)?;
    let (z, s) = (o.fs("z"), o.fs("s"));
    if z != s && r.chan != "zero.unit_initialization" {
        return Err("z and s must both be the unit element".into());
    }
    let n = z.len();
    let want: Vec<f64> = match r.chan.as_str() {
        "nn.unit_initialization" => vec![1.0; n],
        "zero.unit_initialization" => vec![0.0; n],
        "soc.unit_initialization" => (0..n).map(|i| if i == 0 { 1.0 } else { 0.0 }).collect(),
        _ => {
            let k = r.u("n");
            let mut w = vec![0.0; n];
            for c in 0..k {
                w[c * (c + 3) / 2] = 1.0;
            }
            w
        }
    };
    if z != want || s != want {
        return Err(format!("unit initialisation gives z={:?} s={:?}", z, s));
    }
    Ok(())
}

// ------------------------------------------------------------------ backtrack_search

thread_local! {
    static SEQ: RefCell<(Vec<bool>, usize, Vec<Vec<f64>>)> = const { RefCell::new((vec![], 0, vec![])) };
}

/// runs the real `backtrack_search` with a predicate that replays `acc` and records the
/// candidates it was shown
fn run_backtrack(r: &Req) -> String {
    let (dq, q) = (r.fs("dq"), r.fs("q"));
    let acc: Vec<bool> = r.bs("acc");
    SEQ.with(|c| *c.borrow_mut() = (acc, 0, vec![]));
    let mut work = vec![0.0; r.u("worklen")];
    let pred = |w: &[f64]| -> bool {
        SEQ.with(|c| {
            let mut g = c.borrow_mut();
            let k = g.1;
            g.1 += 1;
            g.2.push(w.to_vec());
            // beyond the recorded answers: accept, so that the run terminates (the model
            // reports `err:fuel` there and the case shows up as a mismatch)
            g.0.get(k).copied().unwrap_or(true)
        })
    };
    let a = hexp::backtrack_search_on(&dq, &q, r.f("ainit"), r.f("amin"), r.f("step"), pred, &mut work);
    let calls = SEQ.with(|c| c.borrow().1);
    Line::out().f("a", a).u("k", calls - 1).done()
}
fn oracle_backtrack(r: &Req, out: &str) -> Result<(), String> {
    let (dq, q) = (r.fs("dq"), r.fs("q"));
    let wl = r.u("worklen");
    if wl != q.len() || wl != dq.len() {
        return if out.starts_with("panic") { Ok(()) } else { Err("waxpby length mismatch must panic".into()) };
    }
    let o = resp(out)?;
    let (a, k) = (o.f("a"), o.u("k"));
    let acc = r.bs("acc");
    let (ainit, amin, step) = (r.f("ainit"), r.f("amin"), r.f("step"));
    // candidates α_init·stepʲ by repeated multiplication
    let mut cand = vec![ainit];
    for j in 0..k + 1 {
        cand.push(cand[j] * step);
    }
    for j in 0..k {
        if acc.get(j).copied().unwrap_or(true) {
            return Err(format!("candidate {} was accepted but the search went on to {}", j, k));
        }
        if cand[j + 1] < amin {
            return Err(format!("search continued below α_min at step {}", j));
        }
    }
    if a == 0.0 && !(acc.get(k).copied().unwrap_or(true) && cand[k] == 0.0) {
        // gave up: candidate k rejected and the next one is below α_min
        if acc.get(k).copied().unwrap_or(true) {
            return Err("returned 0 although the last candidate was accepted".into());
        }
        if !(cand[k + 1] < amin) {
            return Err(format!("returned 0 although the next candidate {} ≥ α_min {}", cand[k + 1], amin));
        }
    } else {
        if a != cand[k] {
            return Err(format!("returned {} which is not α_init·step^{} = {}", a, k, cand[k]));
        }
        if !acc.get(k).copied().unwrap_or(true) {
            return Err("the returned step was rejected by the membership test".into());
        }
        if k > 0 && a < amin {
            return Err(format!("returned positive step {} below α_min {}", a, amin));
        }
    }
    Ok(())
}

/// exp / pow cones: the real `step_length`; oracle = accepted point feasible, previous
/// candidate rejected
fn nonsym_step(r: &Req) -> ((f64, f64), Vec<f64>) {
    let st = settings(0.99, r.f("bstep"), r.f("bamin"));
    let (z, s, dz, ds) = (r.fs("z"), r.fs("s"), r.fs("dz"), r.fs("ds"));
    let al = r.f("alpha");
    let res = if al < 0.0 {
        ExponentialCone::<f64>::new().step_length(&dz, &ds, &z, &s, st.core(), r.f("amax"))
    } else {
        PowerCone::<f64>::new(al).step_length(&dz, &ds, &z, &s, st.core(), r.f("amax"))
    };
    (res, vec![])
}
fn run_nonsym_step_length(r: &Req) -> String {
    let ((az, as_), _) = nonsym_step(r);
    Line::out().f("az", az).f("as", as_).done()
}
fn feas(al: f64, primal: bool, p: &[f64]) -> bool {
    if al < 0.0 {
        let k = ExponentialCone::<f64>::new();
        if primal { hexp::is_primal_feasible(&k, p) } else { hexp::is_dual_feasible(&k, p) }
    } else {
        let k = PowerCone::<f64>::new(al);
        if primal { hpow::is_primal_feasible(&k, p) } else { hpow::is_dual_feasible(&k, p) }
    }
}
fn check_nonsym(al: f64, primal: bool, q: &[f64], dq: &[f64], amax: f64, step: f64, amin: f64, a: f64) -> Result<(), String> {
    let w = |t: f64| -> Vec<f64> { q.iter().zip(dq).map(|(x, y)| 1.0 * x + t * y).collect() };
    if !(a <= amax) || !(a >= 0.0) {
        return Err(format!("step {} not in [0, αmax {}]", a, amax));
    }
    if a > 0.0 {
        if !feas(al, primal, &w(a)) {
            return Err(format!("accepted step {} leads to an infeasible point", a));
        }
        if a < amin && a != amax {
            return Err(format!("positive step {} below α_min {}", a, amin));
        }
        // previous candidate (α/step, reproduced by the same multiplications) was rejected
        let mut c = amax;
        let mut prev = None;
        let mut guard = 0;
        while c > a && guard < 10_000 {
            prev = Some(c);
            c *= step;
            guard += 1;
        }
        if c != a {
            return Err(format!("step {} is not of the form αmax·stepᵏ", a));
        }
        if let Some(p) = prev {
            if feas(al, primal, &w(p)) {
                return Err(format!("step {} returned although the previous candidate {} is feasible", a, p));
            }
        }
    } else {
        // gave up: every candidate ≥ α_min must be infeasible
        let mut c = amax;
        let mut guard = 0;
        while !(c < amin) && guard < 10_000 {
            if feas(al, primal, &w(c)) {
                return Err(format!("returned 0 although candidate {} is feasible", c));
            }
            c *= step;
            guard += 1;
        }
    }
    Ok(())
}
fn oracle_nonsym_step_length(r: &Req, out: &str) -> Result<(), String> {
    let o = resp(out)?;
    let (al, amax, step, amin) = (r.f("alpha"), r.f("amax"), r.f("bstep"), r.f("bamin"));
    check_nonsym(al, false, &r.fs("z"), &r.fs("dz"), amax, step, amin, o.f("az")).map_err(|e| format!("dual: {}", e))?;
    check_nonsym(al, true, &r.fs("s"), &r.fs("ds"), amax, step, amin, o.f("as")).map_err(|e| format!("primal: {}", e))
}

// ------------------------------------------------------------------ composite

/// kinds: 0 zero, 1 nonneg, 2 soc, 3 nonsymmetric (exp when alpha<0, else pow(alpha)), 4 psd
fn cone_types(r: &Req) -> Vec<SupportedConeT<f64>> {
    let kinds = r.us("kinds");
    let dims = r.us("dims");
    let alphas = if r.has("alphas") { r.fs("alphas") } else { vec![] };
    let mut ia = 0;
    kinds
        .iter()
        .zip(&dims)
        .map(|(&k, &n)| match k {
            0 => ZeroConeT(n),
            1 => NonnegativeConeT(n),
            2 => SecondOrderConeT(n),
            3 => {
                let a = alphas[ia];
                ia += 1;
                if a < 0.0 { ExponentialConeT() } else { PowerConeT(a) }
            }
            _ => PSDTriangleConeT(n),
        })
        .collect()
}
fn run_composite_step_length(r: &Req) -> String {
    let mut k = CompositeCone::<f64>::new(&cone_types(r));
    let st = settings(r.f("msf"), r.f("bstep"), r.f("bamin"));
    let (az, as_) = k.step_length(&r.fs("dz"), &r.fs("ds"), &r.fs("z"), &r.fs("s"), st.core(), r.f("amax"));
    Line::out().f("az", az).f("as", as_).done()
}
fn oracle_composite_step_length(r: &Req, out: &str) -> Result<(), String> {
    let o = resp(out)?;
    let (az, as_) = (o.f("az"), o.f("as"));
    let (amax, msf) = (r.f("amax"), r.f("msf"));
    if az != as_ {
        return Err("composite step lengths differ".into());
    }
    let a = az;
    if !(a <= amax) || !(a >= 0.0) {
        return Err(format!("step {} not in [0, αmax {}]", a, amax));
    }
    let kinds = r.us("kinds");
    let dims = r.us("dims");
    let (z, s, dz, ds) = (r.fs("z"), r.fs("s"), r.fs("dz"), r.fs("ds"));
    let any_nonsym = kinds.iter().any(|&k| k == 3);
    if any_nonsym && !(a <= msf) {
        return Err(format!("step {} exceeds max_step_fraction {} with a nonsymmetric cone present", a, msf));
    }
    let alphas = if r.has("alphas") { r.fs("alphas") } else { vec![] };
    let mut ia = 0;
    let mut start = 0;
    let mut individual = amax;
    for (&k, &n) in kinds.iter().zip(&dims) {
        let rg = start..start + n;
        start += n;
        match k {
            1 => {
                check_nn_component(&z[rg.clone()], &dz[rg.clone()], amax.max(a), a, "nn z", false)?;
                check_nn_component(&s[rg.clone()], &ds[rg.clone()], amax.max(a), a, "nn s", false)?;
                let mut c = NonnegativeCone::<f64>::new(n);
                let st = settings(msf, 0.8, 1e-4);
                let (p, q) = c.step_length(&dz[rg.clone()], &ds[rg.clone()], &z[rg.clone()], &s[rg.clone()], st.core(), amax);
                individual = individual.min(p).min(q);
            }
            2 => {
                // safety at the composite step (tightness is per cone, checked on its own channel)
                for (x, y, w) in [(&z[rg.clone()], &dz[rg.clone()], "soc z"), (&s[rg.clone()], &ds[rg.clone()], "soc s")] {
                    let n1 = nrm(&x[1..]);
                    if x[0] > 0.0 && (x[0] - n1) > 1e-13 * x[0] {
                        let (res, p0, scale) = soc_res(x, y, a);
                        if res < -64.0 * EPS * scale || p0 < -64.0 * EPS * scale.sqrt() {
                            return Err(format!("{}: composite step {} leaves the cone (residual {:e})", w, a, res));
                        }
                    }
                }
                let mut c = SecondOrderCone::<f64>::new(n);
                let st = settings(msf, 0.8, 1e-4);
                let (p, q) = c.step_length(&dz[rg.clone()], &ds[rg.clone()], &z[rg.clone()], &s[rg.clone()], st.core(), amax);
                individual = individual.min(p).min(q);
            }
            3 => {
                let al = alphas[ia];
                ia += 1;
                if a > 0.0 {
                    let pz: Vec<f64> = axpy(&z[rg.clone()], a, &dz[rg.clone()]);
                    let ps: Vec<f64> = axpy(&s[rg.clone()], a, &ds[rg.clone()]);
                    if feas(al, false, &z[rg.clone()]) && !feas(al, false, &pz) {
                        return Err(format!("nonsymmetric cone: z + {}·dz is not dual feasible", a));
                    }
                    if feas(al, true, &s[rg.clone()]) && !feas(al, true, &ps) {
                        return Err(format!("nonsymmetric cone: s + {}·ds is not primal feasible", a));
                    }
                }
            }
            _ => {}
        }
    }
    if !any_nonsym && a != individual {
        return Err(format!("composite step {} is not the minimum {} over the cones", a, individual));
    }
    if any_nonsym && a == 0.0 {
        return Ok(());
    }
    Ok(())
}

fn comp_specs_ok(r: &Req, len: usize) -> bool {
    let total: usize = r.us("kinds").iter().zip(r.us("dims")).map(|(&k, n)| if k == 4 { n * (n + 1) / 2 } else { n }).sum();
    total <= len
}
fn run_composite_margins(r: &Req) -> String {
    let mut k = CompositeCone::<f64>::new(&cone_types(r));
    let mut z = r.fs("z");
    let (a, b) = k.margins(&mut z, pd(r.b("primal")));
    Line::out().f("a", a).f("b", b).done()
}
fn run_composite_shift(r: &Req) -> String {
    let k = CompositeCone::<f64>::new(&cone_types(r));
    let mut z = r.fs("z");
    k.scaled_unit_shift(&mut z, r.f("a"), pd(r.b("primal")));
    Line::out().fs("z", &z).done()
}
fn run_composite_unit(r: &Req) -> String {
    let k = CompositeCone::<f64>::new(&cone_types(r));
    unit_init(&k, r)
}
fn run_shift_to_interior(r: &Req) -> String {
    let mut k = CompositeCone::<f64>::new(&cone_types(r));
    let mut z = r.fs("z");
    shift_to_cone_interior(&mut z, &mut k, pd(r.b("primal")));
    Line::out().fs("z", &z).done()
}

// own eigenvalue routine for the PSD oracles
fn svec_to_mat(x: &[f64], n: usize) -> Vec<Vec<f64>> {
    let mut m = vec![vec![0.0; n]; n];
    let mut idx = 0;
    let isq2 = std::f64::consts::FRAC_1_SQRT_2;
    for col in 0..n {
        for row in 0..=col {
            if row == col {
                m[row][col] = x[idx];
            } else {
                m[row][col] = x[idx] * isq2;
                m[col][row] = x[idx] * isq2;
            }
            idx += 1;
        }
    }
    m
}
fn mat_to_svec(m: &[Vec<f64>]) -> Vec<f64> {
    let n = m.len();
    let mut x = vec![];
    for col in 0..n {
        for row in 0..=col {
            x.push(if row == col { m[row][col] } else { (m[row][col] + m[col][row]) * std::f64::consts::FRAC_1_SQRT_2 });
        }
    }
    x
}
fn jacobi_eigs(a: &[Vec<f64>]) -> Vec<f64> {
    let n = a.len();
    let mut a: Vec<Vec<f64>> = a.to_vec();
    for _sweep in 0..60 {
        let mut off = 0.0;
        let mut diag = 0.0;
        for i in 0..n {
            for j in 0..n {
                if i == j { diag += a[i][j] * a[i][j] } else { off += a[i][j] * a[i][j] }
            }
        }
        if off <= 1e-34 * diag.max(f64::MIN_POSITIVE) {
            break;
        }
        for p in 0..n {
            for q in p + 1..n {
                if a[p][q] == 0.0 {
                    continue;
                }
                let theta = (a[q][q] - a[p][p]) / (2.0 * a[p][q]);
                let t = if theta == 0.0 { 1.0 } else { theta.signum() / (theta.abs() + (theta * theta + 1.0).sqrt()) };
                let c = 1.0 / (t * t + 1.0).sqrt();
                let s = t * c;
                for k in 0..n {
                    let (akp, akq) = (a[k][p], a[k][q]);
                    a[k][p] = c * akp - s * akq;
                    a[k][q] = s * akp + c * akq;
                }
                for k in 0..n {
                    let (apk, aqk) = (a[p][k], a[q][k]);
                    a[p][k] = c * apk - s * aqk;
                    a[q][k] = s * apk + c * aqk;
                }
            }
        }
    }
    (0..n).map(|i| a[i][i]).collect()
}
fn min_eig(x: &[f64], n: usize) -> (f64, f64) {
    let e = jacobi_eigs(&svec_to_mat(x, n));
    (e.iter().cloned().fold(f64::INFINITY, f64::min), e.iter().map(|v| v.abs()).fold(0.0, f64::max))
}

/// margin of every cone block after the shift is positive; zero cones behave as stated
fn oracle_shift_to_interior(r: &Req, out: &str) -> Result<(), String> {
    let z0 = r.fs("z");
    if !comp_specs_ok(r, z0.len()) {
        return if out.starts_with("panic") { Ok(()) } else { Err("short vector must panic".into()) };
    }
    let o = resp(out)?;
    let z = o.fs("z");
    let primal = r.b("primal");
    let kinds = r.us("kinds");
    let dims = r.us("dims");
    let degree: usize = kinds.iter().zip(&dims).map(|(&k, &n)| match k { 0 => 0, 2 => 1, _ => n }).sum();
    let mut start = 0;
    for (&k, &n) in kinds.iter().zip(&dims) {
        let len = if k == 4 { n * (n + 1) / 2 } else { n };
        let (blk, old) = (&z[start..start + len], &z0[start..start + len]);
        start += len;
        let margin = match k {
            0 => {
                if primal && blk.iter().any(|v| *v != 0.0) {
                    return Err("zero cone: primal block not forced to zero".into());
                }
                if !primal && blk != old {
                    return Err("zero cone: dual block was modified".into());
                }
                continue;
            }
            1 => blk.iter().cloned().fold(f64::INFINITY, f64::min),
            2 => blk[0] - nrm(&blk[1..]),
            _ => {
                if n == 0 { continue } else { min_eig(blk, n).0 }
            }
        };
        if len == 0 {
            continue;
        }
        let scale = nrm(old).max(1.0);
        if !(margin > 0.0) || (degree > 0 && margin < 1.0 - 1e-9 * scale) {
            return Err(format!("after the shift the margin of a cone of kind {} is {} (must be ≥ 1 up to rounding)", k, margin));
        }
    }
    Ok(())
}
fn oracle_composite_margins(r: &Req, out: &str) -> Result<(), String> {
    let z = r.fs("z");
    if !comp_specs_ok(r, z.len()) {
        return if out.starts_with("panic") { Ok(()) } else { Err("short vector must panic".into()) };
    }
    let o = resp(out)?;
    let kinds = r.us("kinds");
    let dims = r.us("dims");
    let mut start = 0;
    let mut a = f64::MAX;
    let mut b = 0.0;
    for (&k, &n) in kinds.iter().zip(&dims) {
        let len = if k == 4 { n * (n + 1) / 2 } else { n };
        let blk = &z[start..start + len];
        start += len;
        match k {
            0 => {}
            1 => {
                a = a.min(blk.iter().cloned().fold(f64::INFINITY, f64::min));
                b += blk.iter().map(|v| v.max(0.0)).sum::<f64>();
            }
            2 => {
                let m = blk[0] - nrm(&blk[1..]);
                a = a.min(m);
                b += m.max(0.0);
            }
            _ => {
                if n > 0 {
                    let e = jacobi_eigs(&svec_to_mat(blk, n));
                    a = a.min(e.iter().cloned().fold(f64::INFINITY, f64::min));
                    b += e.iter().map(|v| v.max(0.0)).sum::<f64>();
                }
            }
        }
    }
    let scale = nrm(&z).max(f64::MIN_POSITIVE);
    if a == f64::MAX {
        if o.f("a") != f64::MAX {
            return Err("no bounded cone: the minimum margin must be T::max_value()".into());
        }
    } else if (o.f("a") - a).abs() > 1e-12 * scale {
        return Err(format!("minimum margin {} expected {}", o.f("a"), a));
    }
    if (o.f("b") - b).abs() > 1e-12 * scale * (z.len() as f64) {
        return Err(format!("total positive margin {} expected {}", o.f("b"), b));
    }
    Ok(())
}

// ---- PSD step length / margins through the implementation
fn run_psd_step_length(r: &Req) -> String {
    let n = r.u("n");
    let (z, s) = (r.fs("z"), r.fs("s"));
    let mut k = PSDTriangleCone::<f64>::new(n);
    if !k.update_scaling(&s, &z, 1.0, ScalingStrategy::PrimalDual) {
        return "update_scaling=false".into();
    }
    let st = settings(0.99, 0.8, 1e-4);
    let (az, as_) = k.step_length(&r.fs("dz"), &r.fs("ds"), &z, &s, st.core(), r.f("amax"));
    Line::out().f("az", az).f("as", as_).done()
}
fn check_psd_component(x: &[f64], y: &[f64], n: usize, amax: f64, a: f64, what: &str) -> Result<(), String> {
    if !(a <= amax) || !(a >= 0.0) {
        return Err(format!("{}: step {} not in [0, αmax {}]", what, a, amax));
    }
    let (l0, m0) = min_eig(x, n);
    let cond = m0 / l0;
    let tol = 1e-12 * cond.max(1.0);
    for frac in [1.0, 0.9, 0.5, 0.1] {
        let p = axpy(x, a * frac, y);
        let (lmin, lmax) = min_eig(&p, n);
        let scale = lmax.max(m0);
        if lmin < -tol * scale {
            return Err(format!("{}: λmin = {:e} at α = {} (returned {}), scale {:e}", what, lmin, a * frac, a, scale));
        }
    }
    if a < amax {
        let p = axpy(x, a, y);
        let (lmin, lmax) = min_eig(&p, n);
        let scale = lmax.max(m0);
        if lmin.abs() > 1e3 * tol * scale {
            return Err(format!("{}: step {} < αmax {} but λmin = {:e} is not ≈ 0 (scale {:e})", what, a, amax, lmin, scale));
        }
    }
    Ok(())
}
fn oracle_psd_step_length(r: &Req, out: &str) -> Result<(), String> {
    let o = resp(out)?;
    if !o.has("az") {
        return Err(format!("implementation returned {}", out));
    }
    let n = r.u("n");
    check_psd_component(&r.fs("z"), &r.fs("dz"), n, r.f("amax"), o.f("az"), "z")?;
    check_psd_component(&r.fs("s"), &r.fs("ds"), n, r.f("amax"), o.f("as"), "s")
}


// ------------------------------------------------------------------ round 3: genpow / PSD with LAPACK values / full composite

/// outcome of one `backtrack_search` against an arbitrary membership test (the oracle of
/// `check_nonsym`, for any cone)
fn check_backtrack_outcome(feas: &dyn Fn(&[f64]) -> bool, q: &[f64], dq: &[f64], amax: f64, step: f64, amin: f64, a: f64) -> Result<(), String> {
    let w = |t: f64| -> Vec<f64> { q.iter().zip(dq).map(|(x, y)| 1.0 * x + t * y).collect() };
    if !(a <= amax) || !(a >= 0.0) {
        return Err(format!("step {} not in [0, αmax {}]", a, amax));
    }
    if a > 0.0 {
        if !feas(&w(a)) {
            return Err(format!("accepted step {} leads to an infeasible point", a));
        }
        if a < amin && a != amax {
            return Err(format!("positive step {} below α_min {}", a, amin));
        }
        let mut c = amax;
        let mut prev = None;
        let mut guard = 0;
        while c > a && guard < 10_000 {
            prev = Some(c);
            c *= step;
            guard += 1;
        }
        if c != a {
            return Err(format!("step {} is not of the form αmax·stepᵏ", a));
        }
        if let Some(p) = prev {
            if feas(&w(p)) {
                return Err(format!("step {} returned although the previous candidate {} is feasible", a, p));
            }
        }
    } else {
        let mut c = amax;
        let mut guard = 0;
        while !(c < amin) && guard < 10_000 {
            if feas(&w(c)) {
                return Err(format!("returned 0 although candidate {} is feasible", c));
            }
            c *= step;
            guard += 1;
        }
    }
    Ok(())
}

fn run_genpow_step_length(r: &Req) -> String {
    let st = settings(0.99, r.f("bstep"), r.f("bamin"));
    let mut k = GenPowerCone::<f64>::new(r.fs("al"), r.u("dim2"));
    let (az, as_) = k.step_length(&r.fs("dz"), &r.fs("ds"), &r.fs("z"), &r.fs("s"), st.core(), r.f("amax"));
    Line::out().f("az", az).f("as", as_).done()
}
/// own membership test of the generalised power cone (product form, independent of the
/// implementation's exp/log form), with a relative safety band: `Some(b)` when decided
fn genpow_member(al: &[f64], x: &[f64], dual: bool) -> Option<bool> {
    let d1 = al.len();
    if x[..d1].iter().any(|v| !(*v > 0.0)) {
        return Some(false);
    }
    let mut lp = 0.0;
    for i in 0..d1 {
        let u = if dual { x[i] / al[i] } else { x[i] };
        lp += 2.0 * al[i] * u.ln();
    }
    let phi = lp.exp();
    let w2: f64 = x[d1..].iter().map(|v| v * v).sum();
    let scale = phi.max(w2);
    let band = 1e-9 * scale * (1.0 + lp.abs());
    if phi - w2 > band {
        Some(true)
    } else if phi - w2 < -band {
        Some(false)
    } else {
        None
    }
}
fn oracle_genpow_step_length(r: &Req, out: &str) -> Result<(), String> {
    let o = resp(out)?;
    let al = r.fs("al");
    let k = GenPowerCone::<f64>::new(al.clone(), r.u("dim2"));
    let (amax, step, amin) = (r.f("amax"), r.f("bstep"), r.f("bamin"));
    let fd = |p: &[f64]| hgp::is_dual_feasible(&k, p);
    let fp = |p: &[f64]| hgp::is_primal_feasible(&k, p);
    check_backtrack_outcome(&fd, &r.fs("z"), &r.fs("dz"), amax, step, amin, o.f("az")).map_err(|e| format!("dual: {}", e))?;
    check_backtrack_outcome(&fp, &r.fs("s"), &r.fs("ds"), amax, step, amin, o.f("as")).map_err(|e| format!("primal: {}", e))?;
    // membership in the cone itself (own product-form test), when clearly decided
    for (q, dq, a, dual, w) in [(r.fs("z"), r.fs("dz"), o.f("az"), true, "dual"), (r.fs("s"), r.fs("ds"), o.f("as"), false, "primal")] {
        if a > 0.0 {
            let p = axpy(&q, a, &dq);
            if genpow_member(&al, &p, dual) == Some(false) {
                return Err(format!("{}: the point after the step {} is outside the cone", w, a));
            }
        }
    }
    Ok(())
}

/// a PSD cone of order `n` scaled at `(s, z)`
fn psd_cone_at(n: usize, s: &[f64], z: &[f64]) -> (PSDTriangleCone<f64>, bool) {
    let mut k = PSDTriangleCone::<f64>::new(n);
    let ok = k.update_scaling(s, z, 1.0, ScalingStrategy::PrimalDual);
    (k, ok)
}
fn run_psd_component(r: &Req) -> String {
    let (mut k, ok) = psd_cone_at(r.u("n"), &r.fs("s"), &r.fs("z"));
    if !ok {
        return "update_scaling=false".into();
    }
    let (a, _g) = hpsd::step_length_component_gamma(&mut k, &r.fs("d"), r.f("amax"));
    Line::out().f("a", a).done()
}
/// dense symmetric matrix Λ^{-1/2}·mat(d)·Λ^{-1/2}, computed independently of `lrscale`
fn scaled_dir_own(n: usize, d: &[f64], l: &[f64]) -> Vec<Vec<f64>> {
    let mut m = svec_to_mat(d, n);
    for i in 0..n {
        for j in 0..n {
            m[i][j] = l[i] * m[i][j] * l[j];
        }
    }
    m
}
/// spectral contract + safety/tightness of the formula, on the implementation's values
fn oracle_psd_component(r: &Req, out: &str) -> Result<(), String> {
    let o = resp(out)?;
    if !o.has("a") {
        return Err(format!("implementation returned {}", out));
    }
    let n = r.u("n");
    let (k, _) = psd_cone_at(n, &r.fs("s"), &r.fs("z"));
    let (d, amax, a) = (r.fs("d"), r.f("amax"), o.f("a"));
    if r.u("gok") == 0 {
        return if a == 0.0 { Ok(()) } else { Err(format!("LAPACK failed but the step is {} (must be 0)", a)) };
    }
    if d.iter().any(|v| !v.is_finite()) {
        // outside the property's quantifier (a non-finite "direction"); correspondence only
        return Ok(());
    }
    let l = hpsd::Λisqrt(&k).to_vec();
    let lam = hpsd::λ(&k).to_vec();
    for i in 0..n {
        if !(l[i] > 0.0) || (l[i] * l[i] * lam[i] - 1.0).abs() > 1e-12 {
            return Err(format!("Λisqrt[{}]²·λ[{}] = {} is not 1", i, i, l[i] * l[i] * lam[i]));
        }
    }
    let m = scaled_dir_own(n, &d, &l);
    let e = jacobi_eigs(&m);
    let lmin = e.iter().cloned().fold(f64::INFINITY, f64::min);
    let scale = e.iter().map(|v| v.abs()).fold(0.0, f64::max).max(f64::MIN_POSITIVE);
    let g = r.f("gamma");
    if (g - lmin).abs() > 1e-11 * scale * (n as f64) {
        return Err(format!("spectral contract: LAPACK's least eigenvalue {:e} vs own Jacobi value {:e} (scale {:e})", g, lmin, scale));
    }
    if !(a >= 0.0) || !(a <= amax) {
        return Err(format!("step {} not in [0, αmax {}]", a, amax));
    }
    // safety: I + t·M ⪰ 0 for t ≤ α;  tightness: α < αmax ⇒ 1 + α·λmin ≈ 0
    let tol = 1e-9 * (1.0 + a * scale);
    if 1.0 + a * lmin < -tol {
        return Err(format!("unsafe: 1 + α·λmin = {:e} < 0 at α = {} (λmin {:e})", 1.0 + a * lmin, a, lmin));
    }
    if a < amax && (1.0 + a * lmin).abs() > tol {
        return Err(format!("not tight: α = {} < αmax = {} but 1 + α·λmin = {:e}", a, amax, 1.0 + a * lmin));
    }
    if a < amax && !(lmin < 0.0) {
        return Err(format!("step {} shortened although λmin = {:e} ≥ 0", a, lmin));
    }
    Ok(())
}
fn run_psd_scaled_direction(r: &Req) -> String {
    let (mut k, ok) = psd_cone_at(r.u("n"), &r.fs("s"), &r.fs("z"));
    if !ok {
        return "update_scaling=false".into();
    }
    let m = hpstep::scaled_direction_matrix(&mut k, &r.fs("d"));
    Line::out().fs("m", &m).done()
}
fn oracle_psd_scaled_direction(r: &Req, out: &str) -> Result<(), String> {
    let o = resp(out)?;
    if !o.has("m") {
        return Err(format!("implementation returned {}", out));
    }
    let n = r.u("n");
    let m = o.fs("m");
    let own = scaled_dir_own(n, &r.fs("d"), &r.fs("lisqrt"));
    let scale = own.iter().flatten().map(|v| v.abs()).fold(0.0, f64::max).max(f64::MIN_POSITIVE);
    for i in 0..n {
        for j in 0..n {
            if (m[i + n * j] - own[i][j]).abs() > 8.0 * EPS * scale {
                return Err(format!("entry ({},{}) = {:e} is not Λisqrt[i]·mat(d)[i,j]·Λisqrt[j] = {:e}", i, j, m[i + n * j], own[i][j]));
            }
        }
    }
    Ok(())
}
fn run_psd_margins(r: &Req) -> String {
    let mut k = PSDTriangleCone::<f64>::new(r.u("n"));
    let mut z = r.fs("z");
    let (a, b) = k.margins(&mut z, pd(r.b("primal")));
    Line::out().f("a", a).f("b", b).done()
}
fn oracle_psd_margins(r: &Req, out: &str) -> Result<(), String> {
    let o = resp(out)?;
    let n = r.u("n");
    let z = r.fs("z");
    if n == 0 {
        return if o.f("a") == f64::MAX && o.f("b") == 0.0 { Ok(()) } else { Err("empty cone: margins must be (max_value, 0)".into()) };
    }
    let e = jacobi_eigs(&svec_to_mat(&z, n));
    let a = e.iter().cloned().fold(f64::INFINITY, f64::min);
    let b: f64 = e.iter().map(|v| v.max(0.0)).sum();
    let scale = nrm(&z).max(f64::MIN_POSITIVE);
    if (o.f("a") - a).abs() > 1e-12 * scale * (n as f64) {
        return Err(format!("minimum margin {} expected λmin = {}", o.f("a"), a));
    }
    if (o.f("b") - b).abs() > 1e-12 * scale * (z.len() as f64) {
        return Err(format!("total positive margin {} expected {}", o.f("b"), b));
    }
    // the recorded eigenvalues are the eigenvalues of mat(z) (spectral contract)
    let mut rec = r.fs("eigs");
    let mut own = e.clone();
    rec.sort_by(|x, y| x.partial_cmp(y).unwrap());
    own.sort_by(|x, y| x.partial_cmp(y).unwrap());
    if rec.len() != own.len() {
        return Err("number of eigenvalues".into());
    }
    for (x, y) in rec.iter().zip(&own) {
        if (x - y).abs() > 1e-11 * scale * (n as f64) {
            return Err(format!("spectral contract: LAPACK eigenvalue {:e} vs own {:e}", x, y));
        }
    }
    Ok(())
}

/// kinds as `cone_types` plus 5 = generalised power cone (exponents from `gpal`/`gpd1`)
fn cone_types_full(r: &Req) -> Vec<SupportedConeT<f64>> {
    let kinds = r.us("kinds");
    let dims = r.us("dims");
    let alphas = r.fs("alphas");
    let gpal = r.fs("gpal");
    let gpd1 = r.us("gpd1");
    let (mut ia, mut ig, mut iga) = (0, 0, 0);
    kinds
        .iter()
        .zip(&dims)
        .map(|(&k, &n)| match k {
            0 => ZeroConeT(n),
            1 => NonnegativeConeT(n),
            2 => SecondOrderConeT(n),
            3 => {
                let a = alphas[ia];
                ia += 1;
                if a < 0.0 { ExponentialConeT() } else { PowerConeT(a) }
            }
            5 => {
                let d1 = gpd1[ig];
                ig += 1;
                let al = gpal[iga..iga + d1].to_vec();
                iga += d1;
                GenPowerConeT(al, n - d1)
            }
            _ => PSDTriangleConeT(n),
        })
        .collect()
}
fn run_composite_step_full(r: &Req) -> String {
    let mut k = CompositeCone::<f64>::new(&cone_types_full(r));
    let st = settings(r.f("msf"), r.f("bstep"), r.f("bamin"));
    let (z, s) = (r.fs("z"), r.fs("s"));
    if !k.update_scaling(&s, &z, 1.0, ScalingStrategy::Dual) {
        return "update_scaling=false".into();
    }
    let (az, as_) = k.step_length(&r.fs("dz"), &r.fs("ds"), &z, &s, st.core(), r.f("amax"));
    Line::out().f("az", az).f("as", as_).done()
}
fn oracle_composite_step_full(r: &Req, out: &str) -> Result<(), String> {
    let o = resp(out)?;
    if !o.has("az") {
        return Err(format!("implementation returned {}", out));
    }
    let (az, as_) = (o.f("az"), o.f("as"));
    let (amax, msf) = (r.f("amax"), r.f("msf"));
    if az != as_ {
        return Err("composite step lengths differ".into());
    }
    let a = az;
    if !(a <= amax) || !(a >= 0.0) {
        return Err(format!("step {} not in [0, αmax {}]", a, amax));
    }
    let kinds = r.us("kinds");
    let dims = r.us("dims");
    if kinds.iter().any(|&k| k == 3 || k == 5) && !(a <= msf) {
        return Err(format!("step {} exceeds max_step_fraction {} with a nonsymmetric cone present", a, msf));
    }
    let (z, s, dz, ds) = (r.fs("z"), r.fs("s"), r.fs("dz"), r.fs("ds"));
    let alphas = r.fs("alphas");
    let gpal = r.fs("gpal");
    let gpd1 = r.us("gpd1");
    let (mut ia, mut ig, mut iga, mut start) = (0, 0, 0, 0);
    for (&k, &n) in kinds.iter().zip(&dims) {
        let len = if k == 4 { n * (n + 1) / 2 } else { n };
        let rg = start..start + len;
        start += len;
        match k {
            1 => {
                check_nn_component(&z[rg.clone()], &dz[rg.clone()], amax.max(a), a, "nn z", false)?;
                check_nn_component(&s[rg.clone()], &ds[rg.clone()], amax.max(a), a, "nn s", false)?;
            }
            3 => {
                let al = alphas[ia];
                ia += 1;
                if a > 0.0 {
                    if feas(al, false, &z[rg.clone()]) && !feas(al, false, &axpy(&z[rg.clone()], a, &dz[rg.clone()])) {
                        return Err(format!("nonsymmetric cone: z + {}·dz is not dual feasible", a));
                    }
                    if feas(al, true, &s[rg.clone()]) && !feas(al, true, &axpy(&s[rg.clone()], a, &ds[rg.clone()])) {
                        return Err(format!("nonsymmetric cone: s + {}·ds is not primal feasible", a));
                    }
                }
            }
            4 => {
                // own eigenvalues: the composite step keeps both PSD blocks in the cone
                for (x, y, w) in [(&z[rg.clone()], &dz[rg.clone()], "psd z"), (&s[rg.clone()], &ds[rg.clone()], "psd s")] {
                    let (l0, m0) = min_eig(x, n);
                    let tol = 1e-12 * (m0 / l0).max(1.0);
                    let p = axpy(x, a, y);
                    let (lmin, lmax) = min_eig(&p, n);
                    if lmin < -tol * lmax.max(m0) {
                        return Err(format!("{}: λmin = {:e} after the composite step {}", w, lmin, a));
                    }
                }
            }
            5 => {
                let d1 = gpd1[ig];
                ig += 1;
                let al = gpal[iga..iga + d1].to_vec();
                iga += d1;
                if a > 0.0 {
                    for (x, y, dual, w) in [(&z[rg.clone()], &dz[rg.clone()], true, "dual"), (&s[rg.clone()], &ds[rg.clone()], false, "primal")] {
                        if genpow_member(&al, x, dual) == Some(true) && genpow_member(&al, &axpy(x, a, y), dual) == Some(false) {
                            return Err(format!("genpow cone ({}): the point after the composite step {} is outside the cone", w, a));
                        }
                    }
                }
            }
            _ => {}
        }
    }
    Ok(())
}

// ------------------------------------------------------------------ PSD barrier
// `PSDTriangleCone::logdet_barrier` (private, through a call-through hook) and `compute_barrier`

fn run_psd_barrier_matrix(r: &Req) -> String {
    let mut k = PSDTriangleCone::<f64>::new(r.u("n"));
    let (_v, q, _ok, _l) = hpbar::logdet_barrier_parts(&mut k, &r.fs("x"), &r.fs("dx"), r.f("a"));
    Line::out().fs("m", &q).done()
}
/// own dense `mat(x + α·dx)`
fn barrier_mat_own(n: usize, x: &[f64], dx: &[f64], a: f64) -> Vec<Vec<f64>> {
    let q: Vec<f64> = x.iter().zip(dx).map(|(p, d)| p + a * d).collect();
    svec_to_mat(&q, n)
}
fn oracle_psd_barrier_matrix(r: &Req, out: &str) -> Result<(), String> {
    let o = resp(out)?;
    let n = r.u("n");
    let m = o.fs("m");
    if m.len() != n * n {
        return Err(format!("matrix of {} entries for n = {}", m.len(), n));
    }
    let own = barrier_mat_own(n, &r.fs("x"), &r.fs("dx"), r.f("a"));
    let scale = own.iter().flatten().map(|v| v.abs()).fold(0.0, f64::max).max(f64::MIN_POSITIVE);
    for i in 0..n {
        for j in 0..n {
            if (m[i + n * j] - own[i][j]).abs() > 8.0 * EPS * scale {
                return Err(format!("entry ({},{}) = {:e} is not mat(x + α·dx)[i,j] = {:e}", i, j, m[i + n * j], own[i][j]));
            }
            if m[i + n * j] != m[j + n * i] {
                return Err(format!("matrix handed to Cholesky is not symmetric at ({},{})", i, j));
            }
        }
    }
    Ok(())
}
fn run_psd_logdet_barrier(r: &Req) -> String {
    let mut k = PSDTriangleCone::<f64>::new(r.u("n"));
    let (v, _q, _ok, _l) = hpbar::logdet_barrier_parts(&mut k, &r.fs("x"), &r.fs("dx"), r.f("a"));
    Line::out().f("v", v).done()
}
/// the property, on the implementation's value: `+∞` exactly when the Cholesky engine fails,
/// which happens only off the interior of the cone; otherwise `ln det mat(x + α·dx)` (own
/// Jacobi eigenvalues) and the LAPACK contract `L·Lᵀ = Q`, `L` lower triangular, `L_ii > 0`
fn check_logdet_barrier(n: usize, x: &[f64], dx: &[f64], a: f64, v: f64, ok: bool, l: &[f64]) -> Result<Option<f64>, String> {
    let own = barrier_mat_own(n, x, dx, a);
    let finite = own.iter().flatten().all(|t| t.is_finite());
    if !ok {
        if v != f64::INFINITY {
            return Err(format!("Cholesky failed but the value is {} (must be +inf)", v));
        }
        if finite {
            let e = jacobi_eigs(&own);
            let lmin = e.iter().cloned().fold(f64::INFINITY, f64::min);
            let scale = e.iter().map(|t| t.abs()).fold(0.0, f64::max).max(f64::MIN_POSITIVE);
            if lmin > 1e-9 * scale * (n as f64) {
                return Err(format!("Cholesky failed on a positive definite matrix (λmin {:e}, scale {:e})", lmin, scale));
            }
        }
        return Ok(None);
    }
    if !finite {
        return Ok(None);
    }
    if l.len() != n * n {
        return Err("factor size".into());
    }
    let scale = own.iter().flatten().map(|t| t.abs()).fold(0.0, f64::max).max(f64::MIN_POSITIVE);
    for i in 0..n {
        if !(l[i + n * i] > 0.0) {
            return Err(format!("L[{},{}] = {:e} is not positive", i, i, l[i + n * i]));
        }
        for j in 0..n {
            if i < j && l[i + n * j] != 0.0 {
                return Err(format!("L[{},{}] = {:e} above the diagonal", i, j, l[i + n * j]));
            }
            let llt: f64 = (0..n).map(|k| l[i + n * k] * l[j + n * k]).sum();
            if (llt - own[i][j]).abs() > 1e-13 * scale * (n as f64 + 1.0) {
                return Err(format!("Cholesky contract: (L·Lᵀ)[{},{}] = {:e} vs Q = {:e}", i, j, llt, own[i][j]));
            }
        }
    }
    let e = jacobi_eigs(&own);
    let lmin = e.iter().cloned().fold(f64::INFINITY, f64::min);
    if lmin < -1e-9 * scale * (n as f64) {
        return Err(format!("Cholesky succeeded on an indefinite matrix (λmin {:e}, scale {:e})", lmin, scale));
    }
    if !(lmin > 1e-6 * scale) {
        // ln det is ill conditioned here; correspondence + contract only
        return Ok(None);
    }
    let ld: f64 = e.iter().map(|t| t.ln()).sum();
    let tol = 1e-9 * (1.0 + ld.abs()) + (n as f64) * 1e-12 * scale / lmin;
    if !((v - ld).abs() <= tol) {
        return Err(format!("value {:e} is not ln det mat(x + α·dx) = {:e} (tol {:e})", v, ld, tol));
    }
    Ok(Some(ld))
}
fn oracle_psd_logdet_barrier(r: &Req, out: &str) -> Result<(), String> {
    let n = r.u("n");
    let (x, dx, a) = (r.fs("x"), r.fs("dx"), r.f("a"));
    if x.len() != n * (n + 1) / 2 || dx.len() != n * (n + 1) / 2 {
        return if out.starts_with("panic") { Ok(()) } else { Err("waxpby length mismatch must panic".into()) };
    }
    let o = resp(out)?;
    // the LAPACK answer is re-read from the implementation, not taken from the request
    let mut k = PSDTriangleCone::<f64>::new(n);
    let (_v, _q, ok, l) = hpbar::logdet_barrier_parts(&mut k, &x, &dx, a);
    if ok != r.b("ok") {
        return Err("recorded Cholesky outcome differs from the implementation's".into());
    }
    check_logdet_barrier(n, &x, &dx, a, o.f("v"), ok, &l).map(|_| ())
}
fn run_psd_compute_barrier(r: &Req) -> String {
    let mut k = PSDTriangleCone::<f64>::new(r.u("n"));
    let v = k.compute_barrier(&r.fs("z"), &r.fs("s"), &r.fs("dz"), &r.fs("ds"), r.f("a"));
    Line::out().f("v", v).done()
}
/// `compute_barrier = −ln det mat(z + α·dz) − ln det mat(s + α·ds)`; when either Cholesky
/// factorization fails the code returns `0 − (+∞) … = −∞` (recorded as observed behaviour)
fn oracle_psd_compute_barrier(r: &Req, out: &str) -> Result<(), String> {
    let o = resp(out)?;
    let n = r.u("n");
    let a = r.f("a");
    let v = o.f("v");
    let mut k = PSDTriangleCone::<f64>::new(n);
    let (vz, _qz, okz, lz) = hpbar::logdet_barrier_parts(&mut k, &r.fs("z"), &r.fs("dz"), a);
    let (vs, _qs, oks, ls) = hpbar::logdet_barrier_parts(&mut k, &r.fs("s"), &r.fs("ds"), a);
    let cz = check_logdet_barrier(n, &r.fs("z"), &r.fs("dz"), a, vz, okz, &lz)?;
    let cs = check_logdet_barrier(n, &r.fs("s"), &r.fs("ds"), a, vs, oks, &ls)?;
    if !okz || !oks {
        return if v == f64::NEG_INFINITY { Ok(()) } else { Err(format!("a Cholesky factorization failed but the barrier is {} (the code yields -inf)", v)) };
    }
    if let (Some(a1), Some(a2)) = (cz, cs) {
        let want = -(a1 + a2);
        let tol = 1e-8 * (1.0 + a1.abs() + a2.abs());
        if !((v - want).abs() <= tol) {
            return Err(format!("barrier {:e} is not −ln det Z − ln det S = {:e}", v, want));
        }
    }
    Ok(())
}

// ------------------------------------------------------------------ channel table

macro_rules! ch {
    ($name:expr, $tol:expr, $run:expr, $oracle:expr, $modelled:expr, $rust:expr, $lean:expr) => {
        Channel { name: $name, tol: $tol, run: $run, oracle: $oracle, modelled: $modelled, rust_fn: $rust, lean: $lean }
    };
}

fn channels() -> Vec<Channel> {
    let e = Tol::Exact;
    vec![
        ch!("nn.step_length", e, run_nn_step_length, Some(oracle_nn_step_length), true, "NonnegativeCone::step_length", "Nonneg.stepLength / C15.nn_step_*"),
        ch!("soc.step_length", e, run_soc_step_length, Some(oracle_soc_step_length), true, "SecondOrderCone::step_length", "Soc.stepLength / C15.soc_step_*"),
        ch!("soc.step_length_component", e, run_soc_component, Some(oracle_soc_component), true, "socone::_step_length_soc_component", "Soc.stepLengthComponent / C15.soc_step_*"),
        ch!("zero.step_length", e, run_zero_step_length, Some(oracle_zero_step_length), true, "ZeroCone::step_length", "Zero.stepLength"),
        ch!("nn.margins", e, run_nn_margins, Some(oracle_nn_margins), true, "NonnegativeCone::margins", "Nonneg.margins"),
        ch!("soc.margins", e, run_soc_margins, Some(oracle_soc_margins), true, "SecondOrderCone::margins", "Soc.margins"),
        ch!("zero.margins", e, run_zero_margins, None, true, "ZeroCone::margins", "Zero.margins"),
        ch!("nn.scaled_unit_shift", e, run_nn_shift, Some(oracle_shift), true, "NonnegativeCone::scaled_unit_shift", "Nonneg.scaledUnitShift"),
        ch!("soc.scaled_unit_shift", e, run_soc_shift, Some(oracle_shift), true, "SecondOrderCone::scaled_unit_shift", "Soc.scaledUnitShift"),
        ch!("zero.scaled_unit_shift", e, run_zero_shift, Some(oracle_shift), true, "ZeroCone::scaled_unit_shift", "Zero.scaledUnitShift"),
        ch!("psd.scaled_unit_shift", e, run_psd_shift, Some(oracle_shift), true, "PSDTriangleCone::scaled_unit_shift", "PsdIndex.scaledUnitShift"),
        ch!("nn.unit_initialization", e, run_nn_unit, Some(oracle_unit), true, "NonnegativeCone::unit_initialization", "Nonneg.unitInitialization"),
        ch!("zero.unit_initialization", e, run_zero_unit, Some(oracle_unit), true, "ZeroCone::unit_initialization", "Zero.unitInitialization"),
        ch!("soc.unit_initialization", e, run_soc_unit, Some(oracle_unit), true, "SecondOrderCone::unit_initialization", "Soc.unitInitialization"),
        ch!("psd.unit_initialization", e, run_psd_unit, Some(oracle_unit), true, "PSDTriangleCone::unit_initialization", "PsdIndex.unitInitialization"),
        ch!("backtrack.search", e, run_backtrack, Some(oracle_backtrack), true, "nonsymmetric_common::backtrack_search", "Backtrack.backtrackSearch / C15.backtrack_*"),
        ch!("nonsym.step_length", e, run_nonsym_step_length, Some(oracle_nonsym_step_length), true, "ExponentialCone/PowerCone::step_length", "Exp.stepLength / Pow.stepLength / C15.exp_step_* pow_step_*"),
        ch!("genpow.step_length", e, run_genpow_step_length, Some(oracle_genpow_step_length), true, "GenPowerCone::step_length", "GenPow.stepLength / C15.genpow_step_*"),
        ch!("psd.step_length_component", e, run_psd_component, Some(oracle_psd_component), true, "psdtrianglecone::step_length_psd_component (γ from LAPACK)", "PsdStep.stepLengthPsdComponent / C15.psd_step_component_*"),
        ch!("psd.scaled_direction", e, run_psd_scaled_direction, Some(oracle_psd_scaled_direction), true, "svec_to_mat + lrscale inside step_length_psd_component", "PsdStep.scaledDir"),
        ch!("psd.margins", e, run_psd_margins, Some(oracle_psd_margins), true, "PSDTriangleCone::margins (eigenvalues from LAPACK)", "PsdStep.margins / C15.psd_margins_formula"),
        ch!("composite.step_length_full", e, run_composite_step_full, Some(oracle_composite_step_full), true, "CompositeCone::step_length over all cone types", "Composite.stepLength / C15.composite_step_general"),
        ch!("composite.step_length", e, run_composite_step_length, Some(oracle_composite_step_length), true, "CompositeCone::step_length", "Composite.stepLength / C15.composite_*"),
        ch!("composite.margins", e, run_composite_margins, Some(oracle_composite_margins), true, "CompositeCone::margins", "Composite.margins"),
        ch!("composite.scaled_unit_shift", e, run_composite_shift, None, true, "CompositeCone::scaled_unit_shift", "Composite.scaledUnitShift"),
        ch!("composite.unit_initialization", e, run_composite_unit, None, true, "CompositeCone::unit_initialization", "Composite.unitInitialization"),
        ch!("composite.shift_to_cone_interior", e, run_shift_to_interior, Some(oracle_shift_to_interior), true, "variables::_shift_to_cone_interior", "Composite.shiftToConeInterior / C15.shift_margin_pos"),
        ch!("psd.step_length", e, run_psd_step_length, Some(oracle_psd_step_length), true, "PSDTriangleCone::step_length (γz, γs from LAPACK)", "PsdStep.stepLength / C15.psd_step_length_components"),
        ch!("psd.barrier_matrix", e, run_psd_barrier_matrix, Some(oracle_psd_barrier_matrix), true, "waxpby + svec_to_mat inside PSDTriangleCone::logdet_barrier", "PsdBarrier.barrierMatData"),
        ch!("psd.logdet_barrier", e, run_psd_logdet_barrier, Some(oracle_psd_logdet_barrier), true, "PSDTriangleCone::logdet_barrier (Cholesky factor from LAPACK)", "PsdBarrier.logdetBarrier / C15.psd_logdet_barrier_*"),
        ch!("psd.compute_barrier", e, run_psd_compute_barrier, Some(oracle_psd_compute_barrier), true, "PSDTriangleCone::compute_barrier (Cholesky factors from LAPACK)", "PsdBarrier.computeBarrier / C15.psd_compute_barrier_*"),
        ch!("psdcomp.margins", e, run_composite_margins, Some(oracle_composite_margins), true, "PSDTriangleCone::margins via CompositeCone (eigenvalues from LAPACK)", "Composite.marginsE"),
        ch!("psdcomp.shift_to_cone_interior", e, run_shift_to_interior, Some(oracle_shift_to_interior), true, "_shift_to_cone_interior with PSD blocks (eigenvalues from LAPACK)", "Composite.shiftToConeInteriorE / C15.shift_to_cone_interior_margin_psd"),
    ]
}

// ------------------------------------------------------------------ generators

fn amax_of(rng: &mut Rng) -> f64 {
    *rng.choose(&[1.0, 1.0, 0.99, 0.5, 0.25, 1e-3, 0.7310585786300049])
}
fn mags(rng: &mut Rng) -> f64 {
    if rng.bool(0.4) { 1.0 } else { 10f64.powf(rng.uniform(-12.0, 12.0)) }
}
/// joint scaling of (point, direction): same factor, two different factors, or none.
/// Cones are scale invariant, so thresholds that are not (e.g. comparing a squared
/// quantity against machine epsilon) show up only when both are jointly tiny / huge.
fn joint_scale(rng: &mut Rng) -> (f64, f64) {
    match rng.below(6) {
        0..=2 => {
            let f = 10f64.powf(rng.uniform(-12.0, 12.0));
            (f, f)
        }
        3 => (10f64.powf(rng.uniform(-12.0, 12.0)), 10f64.powf(rng.uniform(-12.0, 12.0))),
        _ => (1.0, 1.0),
    }
}
fn scaled(v: &[f64], f: f64) -> Vec<f64> {
    v.iter().map(|t| t * f).collect()
}
/// scale an interior SOC point and keep it interior in floating point
fn scaled_soc_point(v: &[f64], f: f64) -> Vec<f64> {
    let mut x = scaled(v, f);
    while !(x[0] > nrm(&x[1..])) {
        x[0] *= 1.0 + 1e-15;
    }
    x
}

fn soc_interior(rng: &mut Rng, n: usize, delta: f64, mag: f64) -> Vec<f64> {
    let v: Vec<f64> = (0..n - 1).map(|_| if rng.bool(0.1) { 0.0 } else { rng.normal() }).collect();
    let nv = nrm(&v);
    let mut x = vec![if nv == 0.0 { 1.0 } else { nv * (1.0 + delta) }];
    x.extend(v);
    for t in x.iter_mut() {
        *t *= mag;
    }
    while !(x[0] > nrm(&x[1..])) {
        x[0] *= 1.0 + 1e-15;
    }
    x
}

/// direction families for the SOC: inward, outward, tangent, ±boundary, zero, random
fn soc_direction(rng: &mut Rng, x: &[f64]) -> Vec<f64> {
    let n = x.len();
    let m = mags(rng);
    match rng.below(8) {
        0 => soc_interior(rng, n, 0.5, m),                                  // inside K
        1 => soc_interior(rng, n, 0.5, m).iter().map(|v| -v).collect(),     // inside −K
        2 => {
            // towards the boundary: y = −x + small
            x.iter().map(|v| -v * (1.0 + 0.1 * rng.normal())).collect()
        }
        3 => vec![0.0; n],
        4 => {
            // tangent-like: y0 = 0
            let mut y: Vec<f64> = (0..n).map(|_| rng.normal() * m).collect();
            y[0] = 0.0;
            y
        }
        5 => {
            // on ∂K or ∂(−K) up to rounding
            let mut y: Vec<f64> = (0..n).map(|_| rng.normal() * m).collect();
            y[0] = nrm(&y[1..]) * if rng.bool(0.5) { 1.0 } else { -1.0 };
            y
        }
        _ => (0..n).map(|_| rng.normal() * m).collect(),
    }
}

/// exact small-integer cases: Pythagorean tails so that a = 0 or c = 0 is hit exactly
fn soc_integer_cases(s: &mut Session) {
    let tails: [(f64, [f64; 2]); 6] = [(5.0, [3.0, 4.0]), (5.0, [-3.0, 4.0]), (13.0, [5.0, -12.0]), (1.0, [1.0, 0.0]), (1.0, [0.0, -1.0]), (10.0, [6.0, 8.0])];
    let interiors: [[f64; 3]; 5] = [[1.0, 0.0, 0.0], [2.0, 1.0, 0.0], [6.0, 3.0, 4.0], [3.0, -1.0, 2.0], [7.0, 0.0, -5.0]];
    // the repaired defect (known_findings C15): must give 1/2
    s.submit(Line::new("soc.step_length_component").fs("x", &[1.0, 0.0]).fs("y", &[-1.0, 1.0]).f("amax", 1.0).done());
    for x in interiors.iter() {
        for (t0, t1) in tails.iter() {
            for sign in [1.0, -1.0] {
                for k in [1.0, 2.0, 0.5] {
                    let y = [sign * t0 * k, t1[0] * k, t1[1] * k];
                    for amax in [1.0, 0.25, 8.0] {
                        s.submit(Line::new("soc.step_length_component").fs("x", x).fs("y", &y).f("amax", amax).done());
                    }
                }
            }
        }
    }
    // jointly tiny / huge point and direction (scale-dependent thresholds): true step 1/3
    for f in [1e-9, 1e-12, 1e9, 2f64.powi(-30), 2f64.powi(-40), 2f64.powi(35)] {
        s.submit(Line::new("soc.step_length_component").fs("x", &[2.0 * f, f, 0.0]).fs("y", &[0.0, 3.0 * f, 0.0]).f("amax", 1.0).done());
        s.submit(Line::new("soc.step_length_component").fs("x", &[3.0 * f, 0.0, -f]).fs("y", &[-f, 2.0 * f, 2.0 * f]).f("amax", 1.0).done());
        s.submit(Line::new("soc.step_length_component").fs("x", &[2.0 * f, f]).fs("y", &[f, -3.0 * f]).f("amax", 1.0).done());
    }
    // x exactly on the boundary (c = 0): outside the property's quantifier, correspondence only
    for (t0, t1) in tails.iter() {
        let x = [*t0, t1[0], t1[1]];
        for y in [[1.0, 0.0, 0.0], [-1.0, 0.0, 0.0], [0.0, 1.0, 0.0], [0.0, -t1[0], -t1[1]], [*t0, t1[0], t1[1]], [-*t0, -t1[0], -t1[1]], [2.0, 1.0, 1.0], [0.0, 0.0, 0.0]] {
            s.count("soc.x-on-boundary(c=0)");
            s.submit(Line::new("soc.step_length_component").fs("x", &x).fs("y", &y).f("amax", 1.0).done());
        }
    }
    // dimension 2 exact
    for x in [[1.0, 0.0], [2.0, 1.0], [3.0, -2.0]] {
        for y in [[-1.0, 1.0], [-1.0, -1.0], [1.0, 1.0], [1.0, -1.0], [-2.0, 0.0], [0.0, 3.0], [0.0, 0.0], [-1.0, 0.5]] {
            for amax in [1.0, 0.5, 4.0] {
                s.submit(Line::new("soc.step_length_component").fs("x", &x).fs("y", &y).f("amax", amax).done());
            }
        }
    }
    // panics: empty / one-element slices
    s.submit(Line::new("soc.step_length_component").fs("x", &[]).fs("y", &[]).f("amax", 1.0).done());
    s.submit(Line::new("soc.step_length_component").fs("x", &[1.0]).fs("y", &[-2.0]).f("amax", 1.0).done());
}

fn gen_nn(s: &mut Session) {
    let n = if s.rng.bool(0.1) { s.rng.below(2) } else { 1 + s.rng.below(8) };
    let small = s.rng.bool(0.3);
    let mk_pos = |rng: &mut Rng| -> Vec<f64> {
        (0..n).map(|_| if small { rng.range(1, 6) as f64 } else { 10f64.powf(rng.uniform(-6.0, 6.0)) }).collect()
    };
    let mk_dir = |rng: &mut Rng, x: &[f64]| -> Vec<f64> {
        (0..n).map(|i| {
            if small { rng.smallint(4) } else {
                match rng.below(5) {
                    0 => 0.0,
                    1 => -x[i],
                    2 => x[i] * rng.normal(),
                    _ => rng.normal() * mags(rng),
                }
            }
        }).collect()
    };
    let z = mk_pos(&mut s.rng);
    let sv = mk_pos(&mut s.rng);
    let dz = mk_dir(&mut s.rng, &z);
    let ds = mk_dir(&mut s.rng, &sv);
    let (fz, fdz) = joint_scale(&mut s.rng);
    let (fs, fds) = joint_scale(&mut s.rng);
    let (z, dz, sv, ds) = (scaled(&z, fz), scaled(&dz, fdz), scaled(&sv, fs), scaled(&ds, fds));
    let amax = amax_of(&mut s.rng);
    s.submit(Line::new("nn.step_length").fs("dz", &dz).fs("ds", &ds).fs("z", &z).fs("s", &sv).f("amax", amax).done());
    if s.rng.bool(0.03) {
        let mut d2 = dz.clone();
        d2.push(1.0);
        s.submit(Line::new("nn.step_length").fs("dz", &d2).fs("ds", &ds).fs("z", &z).fs("s", &sv).f("amax", amax).done());
    }
    // margins / shifts / unit initialisation on arbitrary vectors
    let v: Vec<f64> = (0..n).map(|_| if small { s.rng.smallint(5) } else { s.rng.normal() * mags(&mut s.rng) }).collect();
    let a = if small { s.rng.smallint(3) } else { s.rng.normal() * mags(&mut s.rng) };
    s.submit(Line::new("nn.margins").fs("z", &v).done());
    s.submit(Line::new("zero.margins").fs("z", &v).done());
    s.submit(Line::new("nn.scaled_unit_shift").fs("z", &v).f("a", a).done());
    let zprimal = s.rng.bool(0.5);
    s.submit(Line::new("zero.scaled_unit_shift").fs("z", &v).f("a", a).b("primal", zprimal).done());
    s.submit(Line::new("nn.unit_initialization").fs("z", &v).fs("s", &dz).done());
    s.submit(Line::new("zero.unit_initialization").fs("z", &v).fs("s", &dz).done());
    s.submit(Line::new("zero.step_length").f("amax", amax).done());
}

fn gen_soc(s: &mut Session) {
    let n = 2 + s.rng.below(11);
    let d1 = *s.rng.choose(&[1e-8, 1e-5, 1e-2, 0.1, 0.5, 1.0, 10.0]);
    let d2 = *s.rng.choose(&[1e-8, 1e-5, 1e-2, 0.1, 0.5, 1.0, 10.0]);
    let unit = s.rng.bool(0.5);
    let (m1, m2) = if unit { (1.0, 1.0) } else { (mags(&mut s.rng), mags(&mut s.rng)) };
    let z = soc_interior(&mut s.rng, n, d1, m1);
    let sv = soc_interior(&mut s.rng, n, d2, m2);
    let dz = soc_direction(&mut s.rng, &z);
    let ds = soc_direction(&mut s.rng, &sv);
    // joint scaling of (point, direction)
    let (fz, fdz) = joint_scale(&mut s.rng);
    let (fs, fds) = joint_scale(&mut s.rng);
    let (z, dz) = (scaled_soc_point(&z, fz), scaled(&dz, fdz));
    let (sv, ds) = (scaled_soc_point(&sv, fs), scaled(&ds, fds));
    let amax = amax_of(&mut s.rng);
    s.submit(Line::new("soc.step_length").fs("dz", &dz).fs("ds", &ds).fs("z", &z).fs("s", &sv).f("amax", amax).done());
    s.submit(Line::new("soc.step_length_component").fs("x", &z).fs("y", &dz).f("amax", amax).done());
    // small-integer random data (exact a, b, c)
    let k = 2 + s.rng.below(3);
    let mut xi: Vec<f64> = (0..k).map(|_| s.rng.smallint(3)).collect();
    xi[0] = xi[1..].iter().map(|v| v.abs()).sum::<f64>() + s.rng.range(1, 3) as f64;
    let yi: Vec<f64> = (0..k).map(|_| s.rng.smallint(4)).collect();
    s.submit(Line::new("soc.step_length_component").fs("x", &xi).fs("y", &yi).f("amax", amax).done());
    // the same data scaled by an exact power of two (a, b, c stay exact; the cone is scale
    // invariant, so the step must not change)
    let p2 = 2f64.powi(s.rng.range(-40, 40) as i32);
    let q2 = if s.rng.bool(0.7) { p2 } else { 2f64.powi(s.rng.range(-40, 40) as i32) };
    s.submit(Line::new("soc.step_length_component").fs("x", &scaled(&xi, p2)).fs("y", &scaled(&yi, q2)).f("amax", amax).done());
    // margins / shift / unit init
    let m = mags(&mut s.rng);
    let v: Vec<f64> = (0..n).map(|_| s.rng.normal() * m).collect();
    let a = s.rng.normal() * mags(&mut s.rng);
    s.submit(Line::new("soc.margins").fs("z", &v).done());
    s.submit(Line::new("soc.scaled_unit_shift").fs("z", &v).f("a", a).done());
    s.submit(Line::new("soc.unit_initialization").fs("z", &v).fs("s", &dz).done());
}

fn gen_psd_small(s: &mut Session) {
    let n = s.rng.below(5);
    let len = n * (n + 1) / 2;
    let v: Vec<f64> = (0..len).map(|_| s.rng.normal()).collect();
    let w: Vec<f64> = (0..len).map(|_| s.rng.normal()).collect();
    let a = s.rng.normal();
    s.submit(Line::new("psd.scaled_unit_shift").u("n", n).fs("z", &v).f("a", a).done());
    s.submit(Line::new("psd.unit_initialization").u("n", n).fs("z", &v).fs("s", &w).done());
    if s.rng.bool(0.05) && len > 0 {
        s.submit(Line::new("psd.scaled_unit_shift").u("n", n).fs("z", &v[..len - 1]).f("a", a).done());
    }
}

fn gen_backtrack(s: &mut Session) {
    let n = 3;
    let q: Vec<f64> = (0..n).map(|_| s.rng.normal()).collect();
    let dq: Vec<f64> = (0..n).map(|_| s.rng.normal()).collect();
    let step: f64 = *s.rng.choose(&[0.8, 0.5, 0.9, 0.1, 0.99]);
    let amin: f64 = *s.rng.choose(&[1e-4, 1e-2, 0.3, 1e-8]);
    let ainit = amax_of(&mut s.rng);
    // accept after j rejections (or never)
    let maxk = ((amin / ainit).ln() / step.ln()).ceil().max(0.0) as usize + 2;
    let j = if s.rng.bool(0.25) { maxk + 1 } else { s.rng.below(maxk + 1) };
    let mut acc: Vec<bool> = vec![false; j.min(maxk + 1)];
    if j <= maxk {
        acc.push(true);
    }
    if acc.len() > 1500 {
        return;
    }
    s.submit(Line::new("backtrack.search").fs("dq", &dq).fs("q", &q).f("ainit", ainit).f("amin", amin).f("step", step).bs("acc", &acc).u("worklen", n).done());
    if s.rng.bool(0.03) {
        s.submit(Line::new("backtrack.search").fs("dq", &dq).fs("q", &q).f("ainit", ainit).f("amin", amin).f("step", step).bs("acc", &acc).u("worklen", n + 1).done());
    }
}

/// interior point of the exp cone (primal or dual) or the power cone
fn nonsym_point(rng: &mut Rng, al: f64, primal: bool) -> Vec<f64> {
    for _ in 0..200 {
        let p: Vec<f64> = if al < 0.0 {
            if primal {
                let s2 = 10f64.powf(rng.uniform(-1.0, 1.0));
                let s1 = rng.normal();
                vec![s1, s2, s2 * (s1 / s2).exp() * (1.0 + 10f64.powf(rng.uniform(-3.0, 0.5)))]
            } else {
                let z1 = -10f64.powf(rng.uniform(-1.0, 1.0));
                let z2 = rng.normal();
                vec![z1, z2, -z1 * (z2 / z1 - 1.0).exp() * (1.0 + 10f64.powf(rng.uniform(-3.0, 0.5)))]
            }
        } else {
            let a = 10f64.powf(rng.uniform(-1.0, 1.0));
            let b = 10f64.powf(rng.uniform(-1.0, 1.0));
            let bound = if primal { a.powf(al) * b.powf(1.0 - al) } else { (a / al).powf(al) * (b / (1.0 - al)).powf(1.0 - al) };
            vec![a, b, bound * rng.uniform(-0.95, 0.95)]
        };
        if feas(al, primal, &p) {
            return p;
        }
    }
    if al < 0.0 {
        if primal { vec![-1.051383945322714, 0.556409619469370, 1.258967884768947] } else { vec![-1.051383945322714, 0.556409619469370, 1.258967884768947] }
    } else {
        vec![1.0, 1.0, 0.0]
    }
}
fn nonsym_dir(rng: &mut Rng, x: &[f64]) -> Vec<f64> {
    match rng.below(4) {
        0 => x.iter().map(|v| -v * (1.0 + 0.2 * rng.normal())).collect(),
        1 => vec![0.0; 3],
        2 => (0..3).map(|_| rng.normal() * 10.0).collect(),
        _ => (0..3).map(|_| rng.normal()).collect(),
    }
}

/// records the answers of the real membership test for a search started at `ainit`
fn record_seq(al: f64, primal: bool, q: &[f64], dq: &[f64], ainit: f64, amin: f64, step: f64) -> (f64, Vec<bool>) {
    let rec: RefCell<Vec<bool>> = RefCell::new(vec![]);
    let mut work = [0.0; 3];
    let a = hexp::backtrack_search_on(dq, q, ainit, amin, step, |w: &[f64]| {
        let b = feas(al, primal, w);
        rec.borrow_mut().push(b);
        b
    }, &mut work);
    (a, rec.into_inner())
}

fn gen_nonsym(s: &mut Session) {
    let al = if s.rng.bool(0.5) { -1.0 } else { *s.rng.choose(&[0.5, 0.3, 0.9, 0.1]) };
    let z = nonsym_point(&mut s.rng, al, false);
    let sv = nonsym_point(&mut s.rng, al, true);
    let dz = nonsym_dir(&mut s.rng, &z);
    let ds = nonsym_dir(&mut s.rng, &sv);
    let step = *s.rng.choose(&[0.8, 0.5, 0.9]);
    let amin = *s.rng.choose(&[1e-4, 1e-2]);
    let amax = amax_of(&mut s.rng);
    s.submit(Line::new("nonsym.step_length").f("alpha", al).fs("dz", &dz).fs("ds", &ds).fs("z", &z).fs("s", &sv).f("amax", amax).f("bstep", step).f("bamin", amin).done());
    // the same searches through backtrack_search with the recorded accept/reject answers:
    // the model must reproduce the step of the real cone
    let (a1, acc1) = record_seq(al, false, &z, &dz, amax, amin, step);
    let (a2, acc2) = record_seq(al, true, &sv, &ds, amax, amin, step);
    let out = s.run_impl(&Line::new("nonsym.step_length").f("alpha", al).fs("dz", &dz).fs("ds", &ds).fs("z", &z).fs("s", &sv).f("amax", amax).f("bstep", step).f("bamin", amin).done());
    let want = Line::out().f("az", a1).f("as", a2).done();
    if out != want {
        s.fail("nonsym.step_length", format!("alpha={} z={:?} dz={:?} s={:?} ds={:?}", al, z, dz, sv, ds), out, format!("cone.step_length differs from backtrack_search driven by the cone's own membership tests: {}", want));
    }
    s.submit(Line::new("backtrack.search").fs("dq", &dz).fs("q", &z).f("ainit", amax).f("amin", amin).f("step", step).bs("acc", &acc1).u("worklen", 3).done());
    s.submit(Line::new("backtrack.search").fs("dq", &ds).fs("q", &sv).f("ainit", amax).f("amin", amin).f("step", step).bs("acc", &acc2).u("worklen", 3).done());
}

fn gen_composite(s: &mut Session) {
    let ncones = 1 + s.rng.below(5);
    let with_nonsym = s.rng.bool(0.5);
    let mut kinds = vec![];
    let mut dims = vec![];
    let mut alphas = vec![];
    let (mut z, mut sv, mut dz, mut ds) = (vec![], vec![], vec![], vec![]);
    for _ in 0..ncones {
        let k = if with_nonsym { s.rng.below(4) } else { s.rng.below(3) };
        match k {
            0 => {
                let n = s.rng.below(4);
                kinds.push(0);
                dims.push(n);
                for _ in 0..n {
                    z.push(s.rng.normal());
                    sv.push(0.0);
                    dz.push(s.rng.normal());
                    ds.push(s.rng.normal());
                }
            }
            1 => {
                let n = 1 + s.rng.below(4);
                kinds.push(1);
                dims.push(n);
                let (fz, fdz) = joint_scale(&mut s.rng);
                let (fs, fds) = joint_scale(&mut s.rng);
                for _ in 0..n {
                    let (a, b) = (10f64.powf(s.rng.uniform(-2.0, 2.0)), 10f64.powf(s.rng.uniform(-2.0, 2.0)));
                    z.push(a * fz);
                    sv.push(b * fs);
                    dz.push(fdz * if s.rng.bool(0.3) { -a * s.rng.uniform(0.5, 3.0) } else { s.rng.normal() });
                    ds.push(fds * if s.rng.bool(0.3) { -b * s.rng.uniform(0.5, 3.0) } else { s.rng.normal() });
                }
            }
            2 => {
                let n = 2 + s.rng.below(5);
                kinds.push(2);
                dims.push(n);
                let d = *s.rng.choose(&[1e-3, 0.1, 1.0]);
                let a = soc_interior(&mut s.rng, n, d, 1.0);
                let b = soc_interior(&mut s.rng, n, d, 1.0);
                let da = soc_direction(&mut s.rng, &a);
                let db = soc_direction(&mut s.rng, &b);
                let (fz, fdz) = joint_scale(&mut s.rng);
                let (fs, fds) = joint_scale(&mut s.rng);
                z.extend(scaled_soc_point(&a, fz));
                sv.extend(scaled_soc_point(&b, fs));
                dz.extend(scaled(&da, fdz));
                ds.extend(scaled(&db, fds));
            }
            _ => {
                let al = if s.rng.bool(0.5) { -1.0 } else { *s.rng.choose(&[0.5, 0.3]) };
                kinds.push(3);
                dims.push(3);
                alphas.push(al);
                let a = nonsym_point(&mut s.rng, al, false);
                let b = nonsym_point(&mut s.rng, al, true);
                let da = nonsym_dir(&mut s.rng, &a);
                let db = nonsym_dir(&mut s.rng, &b);
                z.extend(a);
                sv.extend(b);
                dz.extend(da);
                ds.extend(db);
            }
        }
    }
    let amax = amax_of(&mut s.rng);
    let msf = *s.rng.choose(&[0.99, 0.9, 0.5, 0.999]);
    let (bstep, bamin) = (*s.rng.choose(&[0.8, 0.5]), 1e-4);
    // accept/reject answers of the nonsymmetric cones, recorded in the order in which the
    // composite visits them (nonsymmetric cones first, starting from αmax)
    let mut nsz: Vec<usize> = vec![];
    let mut nss: Vec<usize> = vec![];
    let mut a = amax;
    let mut start = 0;
    let mut ia = 0;
    for (&k, &n) in kinds.iter().zip(&dims) {
        let rg = start..start + n;
        start += n;
        if k != 3 {
            continue;
        }
        let al = alphas[ia];
        ia += 1;
        let (a1, q1) = record_seq(al, false, &z[rg.clone()], &dz[rg.clone()], a, bamin, bstep);
        let (a2, q2) = record_seq(al, true, &sv[rg.clone()], &ds[rg.clone()], a, bamin, bstep);
        nsz.extend(q1.iter().map(|&b| b as usize));
        nsz.push(2);
        nss.extend(q2.iter().map(|&b| b as usize));
        nss.push(2);
        a = a.min(a1.min(a2));
    }
    s.count(if with_nonsym && !alphas.is_empty() { "composite:with-nonsymmetric" } else { "composite:symmetric-only" });
    s.submit(
        Line::new("composite.step_length").us("kinds", &kinds).us("dims", &dims).fs("alphas", &alphas)
            .fs("dz", &dz).fs("ds", &ds).fs("z", &z).fs("s", &sv).f("amax", amax).f("msf", msf)
            .f("bstep", bstep).f("bamin", bamin).us("nsz", &nsz).us("nss", &nss).done(),
    );
}

/// nonnegative / zero cones only, entries of magnitude 1e15..1e18: the shift must still end
/// with every entry at least `target` (the code shifts in two stages because 1 − α = −α for
/// such α).  Second-order blocks are left out: their margin s₀ − ‖s₁‖ itself is only known to
/// an ulp of the data there.
fn gen_extreme_shift(s: &mut Session) {
    let ncones = 1 + s.rng.below(3);
    let mut kinds = vec![];
    let mut dims = vec![];
    let mut len = 0;
    for _ in 0..ncones {
        let k = *s.rng.choose(&[1usize, 1, 0]);
        let n = 1 + s.rng.below(4);
        kinds.push(k);
        dims.push(n);
        len += n;
    }
    if !kinds.contains(&1) {
        kinds.push(1);
        dims.push(2);
        len += 2;
    }
    let m = 10f64.powf(s.rng.uniform(15.0, 18.0));
    let allneg = s.rng.bool(0.6);
    let z: Vec<f64> = (0..len).map(|_| {
        let v = (s.rng.uniform(0.1, 9.0)) * m;
        if allneg || s.rng.bool(0.7) { -v } else { v * 1e-17 }
    }).collect();
    let primal = s.rng.bool(0.5);
    s.count("composite:extreme-shift");
    s.submit(Line::new("composite.shift_to_cone_interior").us("kinds", &kinds).us("dims", &dims).fs("z", &z).b("primal", primal).done());
}

fn gen_composite_shift(s: &mut Session) {
    if s.rng.bool(0.08) {
        gen_extreme_shift(s);
    }
    let ncones = 1 + s.rng.below(5);
    let with_psd = s.rng.bool(0.3);
    let mut kinds = vec![];
    let mut dims = vec![];
    let mut len = 0;
    for _ in 0..ncones {
        let k = if with_psd { *s.rng.choose(&[0usize, 1, 2, 4]) } else { s.rng.below(3) };
        let n = match k {
            0 => s.rng.below(4),
            1 => s.rng.below(5),
            2 => 2 + s.rng.below(5),
            _ => s.rng.below(4),
        };
        kinds.push(k);
        dims.push(n);
        len += if k == 4 { n * (n + 1) / 2 } else { n };
    }
    let has_psd = kinds.iter().any(|&k| k == 4);
    let m = mags(&mut s.rng);
    let small = s.rng.bool(0.3);
    let mut z: Vec<f64> = (0..len).map(|_| if small { s.rng.smallint(3) } else { s.rng.normal() * m }).collect();
    if s.rng.bool(0.2) {
        // already well inside: large positive entries in the leading positions
        z = z.iter().map(|v| v.abs() + 2.0).collect();
    }
    let primal = s.rng.bool(0.5);
    let a = if small { s.rng.smallint(3) } else { s.rng.normal() * mags(&mut s.rng) };
    let zs: Vec<f64> = (0..len).map(|_| s.rng.normal()).collect();
    if has_psd {
        // eigenvalues LAPACK returns for every PSD block (one standalone cone per block:
        // the composite hands exactly these slices to the same code)
        let (eigs, neig, eok) = psd_block_eigs(&kinds, &dims, &z, primal);
        s.submit(Line::new("psdcomp.margins").us("kinds", &kinds).us("dims", &dims).fs("z", &z).b("primal", primal).fs("eigs", &eigs).us("neig", &neig).us("eok", &eok).done());
        s.submit(Line::new("psdcomp.shift_to_cone_interior").us("kinds", &kinds).us("dims", &dims).fs("z", &z).b("primal", primal).fs("eigs", &eigs).us("neig", &neig).us("eok", &eok).done());
        // every PSD block on its own
        let mut start = 0;
        let mut ie = 0;
        for (i, (&k, &n)) in kinds.iter().zip(&dims).enumerate() {
            let len = if k == 4 { n * (n + 1) / 2 } else { n };
            if k == 4 {
                s.submit(Line::new("psd.margins").u("n", n).fs("z", &z[start..start + len]).b("primal", primal).fs("eigs", &eigs[ie..ie + neig[i]]).u("eok", eok[i]).done());
            }
            ie += neig[i];
            start += len;
        }
    } else {
        s.submit(Line::new("composite.margins").us("kinds", &kinds).us("dims", &dims).fs("z", &z).b("primal", primal).done());
        s.submit(Line::new("composite.shift_to_cone_interior").us("kinds", &kinds).us("dims", &dims).fs("z", &z).b("primal", primal).done());
    }
    s.submit(Line::new("composite.scaled_unit_shift").us("kinds", &kinds).us("dims", &dims).fs("z", &z).f("a", a).b("primal", primal).done());
    s.submit(Line::new("composite.unit_initialization").us("kinds", &kinds).us("dims", &dims).fs("z", &z).fs("s", &zs).done());
    if s.rng.bool(0.03) && len > 0 && !has_psd {
        s.submit(Line::new("composite.margins").us("kinds", &kinds).us("dims", &dims).fs("z", &z[..len - 1]).b("primal", primal).done());
    }
}

fn psd_point(rng: &mut Rng, n: usize, spread: f64, mag: f64) -> Vec<f64> {
    let b: Vec<Vec<f64>> = (0..n).map(|_| (0..n).map(|_| rng.normal()).collect()).collect();
    let mut m = vec![vec![0.0; n]; n];
    for i in 0..n {
        for j in 0..n {
            m[i][j] = (0..n).map(|k| b[i][k] * b[j][k]).sum::<f64>() * mag;
        }
        m[i][i] += spread * mag;
    }
    mat_to_svec(&m)
}
fn gen_psd_step(s: &mut Session) {
    let n = 1 + s.rng.below(4);
    let len = n * (n + 1) / 2;
    let sp = *s.rng.choose(&[1.0, 0.3, 0.1]);
    let (m1, m2) = (10f64.powf(s.rng.uniform(-2.0, 2.0)), 10f64.powf(s.rng.uniform(-2.0, 2.0)));
    let z = psd_point(&mut s.rng, n, sp, m1);
    let sv = psd_point(&mut s.rng, n, sp, m2);
    let dir = |rng: &mut Rng, x: &[f64], m: f64| -> Vec<f64> {
        match rng.below(4) {
            0 => x.iter().map(|v| -v * (1.0 + 0.3 * rng.normal())).collect(),
            1 => psd_point(rng, n, 0.1, m),
            2 => vec![0.0; len],
            _ => (0..len).map(|_| rng.normal() * m).collect(),
        }
    };
    let dz = dir(&mut s.rng, &z, m1);
    let ds = dir(&mut s.rng, &sv, m2);
    let amax = amax_of(&mut s.rng);
    let rec = psd_record(n, &sv, &z, &dz, &ds, amax);
    s.submit(
        Line::new("psd.step_length").u("n", n).fs("dz", &dz).fs("ds", &ds).fs("z", &z).fs("s", &sv).f("amax", amax)
            .b("usok", rec.usok).fs("R", &rec.r).fs("Rinv", &rec.rinv).f("gz", rec.gz).f("gs", rec.gs).b("gzok", rec.gzok).b("gsok", rec.gsok).done(),
    );
    if rec.usok {
        for (d, g, ok) in [(&rec.dzw, rec.gz, rec.gzok), (&rec.dsw, rec.gs, rec.gsok)] {
            s.submit(Line::new("psd.step_length_component").u("n", n).fs("z", &z).fs("s", &sv).fs("d", d).f("gamma", g).b("gok", ok).f("amax", amax).done());
            s.submit(Line::new("psd.scaled_direction").u("n", n).fs("z", &z).fs("s", &sv).fs("d", d).fs("lisqrt", &rec.lisqrt).done());
        }
        // a direction given directly in the scaled space (all branches of the formula)
        let mut d: Vec<f64> = match s.rng.below(3) {
            0 => psd_point(&mut s.rng, n, 0.1, 1.0),
            1 => psd_point(&mut s.rng, n, 0.1, 1.0).iter().map(|v| -v * 10f64.powf(s.rng.uniform(-2.0, 2.0))).collect(),
            _ => (0..len).map(|_| s.rng.normal() * 10f64.powf(s.rng.uniform(-2.0, 2.0))).collect(),
        };
        if s.rng.bool(0.03) {
            // numerical breakdown: a non-finite direction (LAPACK reports an error)
            let i = s.rng.below(len);
            d[i] = *s.rng.choose(&[f64::NAN, f64::INFINITY]);
        }
        let (mut k, _) = psd_cone_at(n, &sv, &z);
        let ok = hpstep::eigvals_ok(&mut k, &d);
        let (_, g) = hpsd::step_length_component_gamma(&mut k, &d, amax);
        let g = if ok { g } else { 0.0 };
        let finite = d.iter().all(|v| v.is_finite());
        let out = s.submit(Line::new("psd.step_length_component").u("n", n).fs("z", &z).fs("s", &sv).fs("d", &d).f("gamma", g).b("gok", ok).f("amax", amax).done());
        if let Ok(o) = resp(&out) {
            if o.has("a") {
                s.count(if !ok { "psd-component:lapack-failure" } else if !finite { if o.f("a") == amax { "psd-component:non-finite-direction, LAPACK ok, full step returned" } else { "psd-component:non-finite-direction, LAPACK ok, shortened" } } else if o.f("a") < amax { "psd-component:shortened(boundary)" } else { "psd-component:full-step" });
            }
        }
    }
}

/// `logdet_barrier` / `compute_barrier` at interior points along directions and step sizes that
/// stay inside, reach the boundary, and leave the cone (the `+∞` branch)
fn gen_psd_barrier(s: &mut Session) {
    let n = *s.rng.choose(&[1usize, 1, 2, 2, 3, 3, 4, 5]);
    let len = n * (n + 1) / 2;
    let sp = *s.rng.choose(&[1.0, 0.3, 0.1, 1e-3]);
    let (m1, m2) = (10f64.powf(s.rng.uniform(-3.0, 3.0)), 10f64.powf(s.rng.uniform(-3.0, 3.0)));
    let z = psd_point(&mut s.rng, n, sp, m1);
    let sv = psd_point(&mut s.rng, n, sp, m2);
    let dir = |rng: &mut Rng, x: &[f64], m: f64| -> Vec<f64> {
        match rng.below(5) {
            0 => x.iter().map(|v| -v * (1.0 + 0.3 * rng.normal())).collect(),
            1 => psd_point(rng, n, 0.1, m),
            2 => vec![0.0; len],
            3 => x.iter().map(|v| -v).collect(),
            _ => (0..len).map(|_| rng.normal() * m).collect(),
        }
    };
    let dz = dir(&mut s.rng, &z, m1);
    let ds = dir(&mut s.rng, &sv, m2);
    let a = match s.rng.below(6) {
        0 => 0.0,
        1 => 1.0,
        2 => 10f64.powf(s.rng.uniform(-6.0, -1.0)),
        3 => s.rng.uniform(0.0, 1.0),
        4 => 10f64.powf(s.rng.uniform(0.5, 4.0)),
        _ => s.rng.uniform(0.5, 2.0),
    };
    let mut parts = vec![];
    for (x, dx) in [(&z, &dz), (&sv, &ds)] {
        let mut k = PSDTriangleCone::<f64>::new(n);
        let (_v, _q, ok, l) = hpbar::logdet_barrier_parts(&mut k, x, dx, a);
        s.submit(Line::new("psd.barrier_matrix").u("n", n).fs("x", x).fs("dx", dx).f("a", a).done());
        let out = s.submit(Line::new("psd.logdet_barrier").u("n", n).fs("x", x).fs("dx", dx).f("a", a).b("ok", ok).fs("L", &l).done());
        if let Ok(o) = resp(&out) {
            if o.has("v") {
                s.count(if !ok { "psd-barrier:cholesky-failed(+inf)" } else if o.f("v") < 0.0 { "psd-barrier:finite-negative" } else { "psd-barrier:finite-nonnegative" });
            }
        }
        parts.push((ok, l));
    }
    s.submit(
        Line::new("psd.compute_barrier").u("n", n).fs("z", &z).fs("s", &sv).fs("dz", &dz).fs("ds", &ds).f("a", a)
            .b("okz", parts[0].0).fs("Lz", &parts[0].1).b("oks", parts[1].0).fs("Ls", &parts[1].1).done(),
    );
    if s.rng.bool(0.03) {
        // wrong length: the `waxpby` asserts fire
        let mut k = PSDTriangleCone::<f64>::new(n);
        let (_v, _q, ok, l) = hpbar::logdet_barrier_parts(&mut k, &z, &dz, a);
        s.submit(Line::new("psd.logdet_barrier").u("n", n).fs("x", &z[..len - 1]).fs("dx", &dz).f("a", a).b("ok", ok).fs("L", &l).done());
    }
}

struct PsdRec {
    usok: bool,
    r: Vec<f64>,
    rinv: Vec<f64>,
    lisqrt: Vec<f64>,
    dzw: Vec<f64>,
    dsw: Vec<f64>,
    gz: f64,
    gs: f64,
    gzok: bool,
    gsok: bool,
}
/// what LAPACK contributes to `PSDTriangleCone::step_length` at `(s, z)` along `(dz, ds)`:
/// the scaling factors and the two least eigenvalues (read through the hooks)
fn psd_record(n: usize, sv: &[f64], z: &[f64], dz: &[f64], ds: &[f64], amax: f64) -> PsdRec {
    let (mut k, usok) = psd_cone_at(n, sv, z);
    let len = n * (n + 1) / 2;
    if !usok {
        return PsdRec { usok, r: vec![], rinv: vec![], lisqrt: vec![], dzw: vec![], dsw: vec![], gz: 0.0, gs: 0.0, gzok: false, gsok: false };
    }
    let mut dzw = vec![0.0; len];
    k.mul_W(hsoc::matrix_shape(false), &mut dzw, dz, 1.0, 0.0);
    let gzok = hpstep::eigvals_ok(&mut k, &dzw);
    let (_, gz) = hpsd::step_length_component_gamma(&mut k, &dzw, amax);
    let mut dsw = vec![0.0; len];
    k.mul_Winv(hsoc::matrix_shape(true), &mut dsw, ds, 1.0, 0.0);
    let gsok = hpstep::eigvals_ok(&mut k, &dsw);
    let (_, gs) = hpsd::step_length_component_gamma(&mut k, &dsw, amax);
    PsdRec {
        usok,
        r: hpsd::R(&k).to_vec(),
        rinv: hpsd::Rinv(&k).to_vec(),
        lisqrt: hpsd::Λisqrt(&k).to_vec(),
        dzw,
        dsw,
        gz: if gzok { gz } else { 0.0 },
        gs: if gsok { gs } else { 0.0 },
        gzok,
        gsok,
    }
}
/// flat eigenvalue encoding of a composite request: `neig[k]` values for cone `k`
fn psd_block_eigs(kinds: &[usize], dims: &[usize], z: &[f64], primal: bool) -> (Vec<f64>, Vec<usize>, Vec<usize>) {
    let (mut eigs, mut neig, mut eok) = (vec![], vec![], vec![]);
    let mut start = 0;
    for (&k, &n) in kinds.iter().zip(dims) {
        let len = if k == 4 { n * (n + 1) / 2 } else { n };
        if k == 4 {
            let mut kk = PSDTriangleCone::<f64>::new(n);
            let mut blk = z[start..start + len].to_vec();
            let (_, e) = hpstep::margins_with_eigs(&mut kk, &mut blk, pd(primal));
            neig.push(e.len());
            eigs.extend(e);
            eok.push(1);
        } else {
            neig.push(0);
            eok.push(1);
        }
        start += len;
    }
    (eigs, neig, eok)
}

fn gen_alpha_vec(rng: &mut Rng, d1: usize) -> Vec<f64> {
    loop {
        let mut a: Vec<f64> = (0..d1).map(|_| rng.uniform(0.05, 1.0)).collect();
        let sum: f64 = a.iter().sum();
        for v in a.iter_mut() {
            *v /= sum;
        }
        if d1 > 1 {
            let head: f64 = a[..d1 - 1].iter().fold(0.0, |acc, x| acc + x);
            a[d1 - 1] = 1.0 - head;
        } else {
            a[0] = 1.0;
        }
        let sum = a.iter().fold(0.0, |acc, x| acc + x);
        if a.iter().all(|&v| v > 0.0) && (1.0 - sum).abs() < EPS * d1 as f64 * 0.5 {
            return a;
        }
    }
}
/// interior point of the generalised power cone (primal) or of its dual
fn genpow_point(rng: &mut Rng, al: &[f64], d2: usize, dual: bool) -> Vec<f64> {
    let k = GenPowerCone::<f64>::new(al.to_vec(), d2);
    for _ in 0..200 {
        let u: Vec<f64> = al.iter().map(|_| 10f64.powf(rng.uniform(-1.0, 1.0))).collect();
        let bound: f64 = u.iter().zip(al).map(|(x, a)| if dual { (x / a).powf(*a) } else { x.powf(*a) }).product();
        let w: Vec<f64> = (0..d2).map(|_| rng.normal()).collect();
        let nw = nrm(&w).max(f64::MIN_POSITIVE);
        let f = bound * rng.uniform(0.0, 0.95) / nw;
        let mut p = u.clone();
        p.extend(w.iter().map(|v| v * f));
        let ok = if dual { hgp::is_dual_feasible(&k, &p) } else { hgp::is_primal_feasible(&k, &p) };
        if ok {
            return p;
        }
    }
    let mut p: Vec<f64> = al.iter().map(|a| (1.0 + a).sqrt()).collect();
    p.extend(vec![0.0; d2]);
    p
}
fn any_dir(rng: &mut Rng, x: &[f64]) -> Vec<f64> {
    match rng.below(5) {
        0 => x.iter().map(|v| -v * (1.0 + 0.2 * rng.normal())).collect(),
        1 => vec![0.0; x.len()],
        2 => (0..x.len()).map(|_| rng.normal() * 10.0).collect(),
        3 => x.iter().map(|v| -v * rng.uniform(0.0, 2.0)).collect(),
        _ => (0..x.len()).map(|_| rng.normal()).collect(),
    }
}
fn gen_genpow(s: &mut Session) {
    let d1 = 1 + s.rng.below(4);
    let d2 = 1 + s.rng.below(3);
    let al = gen_alpha_vec(&mut s.rng, d1);
    let z = genpow_point(&mut s.rng, &al, d2, true);
    let sv = genpow_point(&mut s.rng, &al, d2, false);
    let dz = any_dir(&mut s.rng, &z);
    let ds = any_dir(&mut s.rng, &sv);
    let step = *s.rng.choose(&[0.8, 0.5, 0.9]);
    let amin = *s.rng.choose(&[1e-4, 1e-2, 0.3]);
    let amax = amax_of(&mut s.rng);
    let out = s.submit(Line::new("genpow.step_length").fs("al", &al).u("dim2", d2).fs("dz", &dz).fs("ds", &ds).fs("z", &z).fs("s", &sv).f("amax", amax).f("bstep", step).f("bamin", amin).done());
    if let Ok(o) = resp(&out) {
        for a in [o.f("az"), o.f("as")] {
            s.count(if a == 0.0 { "genpow:gave-up(0)" } else if a == amax { "genpow:first-candidate" } else { "genpow:backtracked" });
        }
    }
}

/// composite of every cone type, every cone run by its own model
fn gen_composite_full(s: &mut Session) {
    let ncones = 1 + s.rng.below(5);
    let (mut kinds, mut dims, mut alphas, mut gpal, mut gpd1) = (vec![], vec![], vec![], vec![], vec![]);
    let (mut z, mut sv, mut dz, mut ds) = (vec![], vec![], vec![], vec![]);
    let (mut psdg, mut psdok): (Vec<f64>, Vec<usize>) = (vec![], vec![]);
    let amax = amax_of(&mut s.rng);
    for _ in 0..ncones {
        match *s.rng.choose(&[0usize, 1, 2, 3, 3, 4, 4, 5]) {
            0 => {
                let n = s.rng.below(3);
                kinds.push(0);
                dims.push(n);
                for _ in 0..n {
                    z.push(s.rng.normal());
                    sv.push(0.0);
                    dz.push(s.rng.normal());
                    ds.push(s.rng.normal());
                }
            }
            1 => {
                let n = 1 + s.rng.below(3);
                kinds.push(1);
                dims.push(n);
                for _ in 0..n {
                    let (a, b) = (10f64.powf(s.rng.uniform(-2.0, 2.0)), 10f64.powf(s.rng.uniform(-2.0, 2.0)));
                    z.push(a);
                    sv.push(b);
                    dz.push(if s.rng.bool(0.3) { -a * s.rng.uniform(0.5, 3.0) } else { s.rng.normal() });
                    ds.push(if s.rng.bool(0.3) { -b * s.rng.uniform(0.5, 3.0) } else { s.rng.normal() });
                }
            }
            2 => {
                let n = 2 + s.rng.below(4);
                kinds.push(2);
                dims.push(n);
                let d = *s.rng.choose(&[1e-3, 0.1, 1.0]);
                let a = soc_interior(&mut s.rng, n, d, 1.0);
                let b = soc_interior(&mut s.rng, n, d, 1.0);
                dz.extend(soc_direction(&mut s.rng, &a));
                ds.extend(soc_direction(&mut s.rng, &b));
                z.extend(a);
                sv.extend(b);
            }
            3 => {
                let al = if s.rng.bool(0.5) { -1.0 } else { *s.rng.choose(&[0.5, 0.3, 0.9]) };
                kinds.push(3);
                dims.push(3);
                alphas.push(al);
                let a = nonsym_point(&mut s.rng, al, false);
                let b = nonsym_point(&mut s.rng, al, true);
                dz.extend(nonsym_dir(&mut s.rng, &a));
                ds.extend(nonsym_dir(&mut s.rng, &b));
                z.extend(a);
                sv.extend(b);
            }
            4 => {
                let n = 1 + s.rng.below(3);
                let len = n * (n + 1) / 2;
                kinds.push(4);
                dims.push(n);
                let sp = *s.rng.choose(&[1.0, 0.3]);
                let a = psd_point(&mut s.rng, n, sp, 1.0);
                let b = psd_point(&mut s.rng, n, sp, 1.0);
                let da: Vec<f64> = if s.rng.bool(0.4) { a.iter().map(|v| -v * s.rng.uniform(0.5, 3.0)).collect() } else { (0..len).map(|_| s.rng.normal()).collect() };
                let db: Vec<f64> = if s.rng.bool(0.4) { b.iter().map(|v| -v * s.rng.uniform(0.5, 3.0)).collect() } else { (0..len).map(|_| s.rng.normal()).collect() };
                let rec = psd_record(n, &b, &a, &da, &db, amax);
                psdg.push(rec.gz);
                psdg.push(rec.gs);
                psdok.push(rec.gzok as usize);
                psdok.push(rec.gsok as usize);
                z.extend(a);
                sv.extend(b);
                dz.extend(da);
                ds.extend(db);
            }
            _ => {
                let d1 = 1 + s.rng.below(3);
                let d2 = 1 + s.rng.below(2);
                let al = gen_alpha_vec(&mut s.rng, d1);
                kinds.push(5);
                dims.push(d1 + d2);
                let a = genpow_point(&mut s.rng, &al, d2, true);
                let b = genpow_point(&mut s.rng, &al, d2, false);
                dz.extend(any_dir(&mut s.rng, &a));
                ds.extend(any_dir(&mut s.rng, &b));
                z.extend(a);
                sv.extend(b);
                gpd1.push(d1);
                gpal.extend(al);
            }
        }
    }
    let msf = *s.rng.choose(&[0.99, 0.9, 0.5, 0.999]);
    let (bstep, bamin) = (*s.rng.choose(&[0.8, 0.5]), *s.rng.choose(&[1e-4, 1e-2]));
    let line = Line::new("composite.step_length_full").us("kinds", &kinds).us("dims", &dims).fs("alphas", &alphas)
        .fs("gpal", &gpal).us("gpd1", &gpd1).fs("psdg", &psdg).us("psdok", &psdok)
        .fs("dz", &dz).fs("ds", &ds).fs("z", &z).fs("s", &sv).f("amax", amax).f("msf", msf)
        .f("bstep", bstep).f("bamin", bamin).done();
    if s.run_impl(&line).starts_with("update_scaling=false") {
        s.count("composite-full:update_scaling=false (skipped)");
        return;
    }
    s.count(if kinds.iter().any(|&k| k == 3 || k == 5) { "composite-full:with-nonsymmetric" } else { "composite-full:symmetric-only" });
    s.submit(line);
}

fn generate(s: &mut Session) {
    if !s.is_searching() {
        soc_integer_cases(s);
    }
    for _ in 0..s.budget(2000, 20000) {
        gen_nn(s);
    }
    for _ in 0..s.budget(8000, 100000) {
        gen_soc(s);
    }
    for _ in 0..s.budget(600, 4000) {
        gen_psd_small(s);
    }
    for _ in 0..s.budget(2000, 20000) {
        gen_backtrack(s);
    }
    for _ in 0..s.budget(2000, 20000) {
        gen_nonsym(s);
    }
    for _ in 0..s.budget(3000, 30000) {
        gen_composite(s);
    }
    for _ in 0..s.budget(3000, 30000) {
        gen_composite_shift(s);
    }
    for _ in 0..s.budget(1200, 6000) {
        gen_psd_step(s);
    }
    for _ in 0..s.budget(1200, 8000) {
        gen_psd_barrier(s);
    }
    for _ in 0..s.budget(2000, 20000) {
        gen_genpow(s);
    }
    for _ in 0..s.budget(2500, 25000) {
        gen_composite_full(s);
    }
}

fn main() {
    Session::from_args("C15", channels()).run(generate)
}
