//! C12 — the sparse LDLᵀ engine factors, solves and refactors correctly or reports errors.
//!
//! Channels (one per modelled Rust function) compare the real implementation with the Lean
//! model bit for bit; the oracles state the property on the implementation's output:
//! structure of `triuA/AtoPAPt/L/etree/Lnz`, `ΠAΠ' = LDL'` and `Ax = b` to backward-stable
//! accuracy, the pivot rule, inertia, error ⇔ invalid input, and refactor ≡ fresh factor.
use clarabel::algebra::*;
use clarabel::qdldl::verif_hooks as hk;
use clarabel::qdldl::*;
use vharness::gen::{self, Vals};
use vharness::proto::{fb, ffs, fis, fus};
use vharness::*;

const EPS: f64 = f64::EPSILON;

// how often the numeric oracles really ran / had to skip (reported in the evidence notes)
use std::sync::atomic::{AtomicUsize, Ordering::Relaxed};
static N_NUMERIC: AtomicUsize = AtomicUsize::new(0);
static N_NONFINITE: AtomicUsize = AtomicUsize::new(0);
static N_SOLVE: AtomicUsize = AtomicUsize::new(0);
static N_REFACTOR_FRESH: AtomicUsize = AtomicUsize::new(0);

// ---------------------------------------------------------------- rendering

fn fmt_factors(f: &QDLDLFactorisation<f64>, sfx: &str) -> String {
    format!(
        "Lcolptr{s}={} Lrowval{s}={} Lnzval{s}={} D{s}={} Dinv{s}={} inertia{s}={} count{s}={}",
        fus(&f.L.colptr),
        fus(&f.L.rowval),
        ffs(&f.L.nzval),
        ffs(&f.D),
        ffs(&f.Dinv),
        f.positive_inertia(),
        f.regularize_count(),
        s = sfx
    )
}

fn fmt_state(f: &QDLDLFactorisation<f64>) -> String {
    let w = hk::workspace_view(f);
    format!(
        "perm={} iperm={} {} etree={} Lnz={} Pcolptr={} Prowval={} Pnzval={} AtoPAPt={} dsigns={} sym={}",
        fus(&f.perm),
        fus(&w.iperm),
        fmt_factors(f, ""),
        fus(&w.etree),
        fus(&w.Lnz),
        fus(&w.triuA.colptr),
        fus(&w.triuA.rowval),
        ffs(&w.triuA.nzval),
        fus(&w.AtoPAPt),
        fis(&w.Dsigns),
        fb(w.is_symbolic)
    )
}

fn dsigns_of(r: &Req) -> Option<Vec<i8>> {
    if r.has("dsigns") {
        Some(r.is("dsigns").iter().map(|&x| x as i8).collect())
    } else {
        None
    }
}

fn is_amd(r: &Req) -> bool {
    r.has("amd") && r.u("amd") == 1
}

/// settings of the request; `logical` can be overridden (the refactor oracle factors from scratch)
fn settings_of(r: &Req, logical: Option<bool>) -> QDLDLSettings<f64> {
    let mut o = QDLDLSettings::<f64>::default();
    o.logical = logical.unwrap_or_else(|| r.b("logical"));
    o.regularize_enable = r.b("enable");
    o.regularize_eps = r.f("eps");
    o.regularize_delta = r.f("delta");
    o.perm = if is_amd(r) { None } else { Some(r.us("perm")) };
    o.Dsigns = dsigns_of(r);
    o
}

/// `permute(&mut Dsigns, &ds, &perm)` reads `ds` unchecked: never hand the implementation a
/// sign vector that is too short (undefined behaviour, not a test outcome).
fn ub_guard(r: &Req) -> bool {
    if let Some(ds) = dsigns_of(r) {
        let a = r.csc("");
        let need = a.m.max(a.n).max(r.us("perm").len());
        return ds.len() < need;
    }
    false
}

fn construct(r: &Req, logical: Option<bool>) -> Result<QDLDLFactorisation<f64>, String> {
    if ub_guard(r) {
        return Err("guard:dsigns-too-short-is-UB".into());
    }
    let a = r.csc("");
    match QDLDLFactorisation::<f64>::new(&a, Some(settings_of(r, logical))) {
        Ok(f) => {
            if is_amd(r) {
                let w = hk::workspace_view(&f);
                if f.perm != r.us("perm") || w.iperm != r.us("iperm") {
                    return Err("amd-ordering-not-reproducible".into());
                }
            }
            Ok(f)
        }
        Err(e) => Err(format!("err:{:?}", e)),
    }
}

// ---------------------------------------------------------------- small dense helpers

fn is_perm(p: &[usize]) -> bool {
    let mut seen = vec![false; p.len()];
    for &j in p {
        if j >= p.len() || seen[j] {
            return false;
        }
        seen[j] = true;
    }
    true
}

fn well_formed(a: &CscMatrix<f64>) -> bool {
    a.colptr.len() == a.n + 1
        && a.colptr[0] == 0
        && a.colptr.windows(2).all(|w| w[0] <= w[1])
        && a.colptr[a.n] == a.rowval.len()
        && a.rowval.len() == a.nzval.len()
        && a.rowval.iter().all(|&r| r < a.m)
}

fn triu(a: &CscMatrix<f64>) -> bool {
    (0..a.n).all(|c| (a.colptr[c]..a.colptr[c + 1]).all(|k| a.rowval[k] <= c))
}

/// symmetric dense meaning of an upper-triangular CSC matrix (duplicates add)
fn sym_dense(a: &CscMatrix<f64>) -> Vec<Vec<f64>> {
    let n = a.n;
    let mut d = vec![vec![0.0; n]; n];
    for c in 0..n {
        for k in a.colptr[c]..a.colptr[c + 1] {
            let r = a.rowval[k];
            d[r][c] += a.nzval[k];
            if r != c {
                d[c][r] += a.nzval[k];
            }
        }
    }
    d
}

struct Fac {
    lp: Vec<usize>,
    li: Vec<usize>,
    lx: Vec<f64>,
    d: Vec<f64>,
    dinv: Vec<f64>,
    inertia: usize,
    count: usize,
}

fn fac_of(o: &Req, sfx: &str) -> Fac {
    Fac {
        lp: o.us(&format!("Lcolptr{}", sfx)),
        li: o.us(&format!("Lrowval{}", sfx)),
        lx: o.fs(&format!("Lnzval{}", sfx)),
        d: o.fs(&format!("D{}", sfx)),
        dinv: o.fs(&format!("Dinv{}", sfx)),
        inertia: o.u(&format!("inertia{}", sfx)),
        count: o.u(&format!("count{}", sfx)),
    }
}

fn fac_of_impl(f: &QDLDLFactorisation<f64>) -> Fac {
    Fac {
        lp: f.L.colptr.clone(),
        li: f.L.rowval.clone(),
        lx: f.L.nzval.clone(),
        d: f.D.clone(),
        dinv: f.Dinv.clone(),
        inertia: f.positive_inertia(),
        count: f.regularize_count(),
    }
}

fn bits_eq(a: &[f64], b: &[f64]) -> bool {
    // NaNs cross the protocol as `xnan` (payload dropped)
    a.len() == b.len() && a.iter().zip(b).all(|(x, y)| x.to_bits() == y.to_bits() || (x.is_nan() && y.is_nan()))
}

fn fac_same(a: &Fac, b: &Fac) -> Result<(), String> {
    if a.lp != b.lp || a.li != b.li {
        return Err("L pattern differs".into());
    }
    if !bits_eq(&a.lx, &b.lx) {
        let k = (0..a.lx.len().min(b.lx.len())).find(|&k| a.lx[k].to_bits() != b.lx[k].to_bits());
        return Err(format!("L.nzval differs (first at {:?}: {:?} vs {:?})", k, k.map(|k| a.lx[k]), k.map(|k| b.lx[k])));
    }
    if !bits_eq(&a.d, &b.d) {
        return Err("D differs".into());
    }
    if !bits_eq(&a.dinv, &b.dinv) {
        return Err("Dinv differs".into());
    }
    if a.inertia != b.inertia || a.count != b.count {
        return Err("inertia / regularize_count differ".into());
    }
    Ok(())
}

/// structure of `L` against an independent symbolic elimination of the pattern of `P`
fn check_symbolic(p: &CscMatrix<f64>, f: &Fac, etree: &[usize], lnz: &[usize]) -> Result<(), String> {
    let n = p.n;
    if f.lp.len() != n + 1 || f.lp[0] != 0 || f.lp[n] != f.li.len() || f.li.len() != f.lx.len() {
        return Err("L arrays inconsistent".into());
    }
    // filled pattern by dense symbolic elimination
    let mut s = vec![vec![false; n]; n];
    for c in 0..n {
        for k in p.colptr[c]..p.colptr[c + 1] {
            let r = p.rowval[k];
            s[r][c] = true;
            s[c][r] = true;
        }
    }
    for k in 0..n {
        let rows: Vec<usize> = (k + 1..n).filter(|&i| s[i][k]).collect();
        for &i in &rows {
            for &j in &rows {
                s[i][j] = true;
            }
        }
    }
    for c in 0..n {
        if f.lp[c] > f.lp[c + 1] {
            return Err("L.colptr not monotone".into());
        }
        let got: Vec<usize> = f.li[f.lp[c]..f.lp[c + 1]].to_vec();
        let want: Vec<usize> = (c + 1..n).filter(|&i| s[i][c]).collect();
        if got != want {
            return Err(format!("column {} of L has rows {:?}, symbolic elimination gives {:?}", c, got, want));
        }
        if lnz[c] != want.len() {
            return Err(format!("Lnz[{}]={} expected {}", c, lnz[c], want.len()));
        }
        let parent = want.first().copied().unwrap_or(usize::MAX);
        if etree[c] != parent {
            return Err(format!("etree[{}]={} expected {}", c, etree[c], parent));
        }
    }
    Ok(())
}

struct Reg<'a> {
    enable: bool,
    eps: f64,
    delta: f64,
    /// signs in *permuted* order (workspace Dsigns)
    signs: &'a [i64],
}

/// numeric part of the property on one factorisation of the (permuted) matrix `pd`.
/// Returns the dense `(I+L)D(I+L)'` and `(I+|L|)|D|(I+|L|)'`, or None when non-finite.
#[allow(clippy::type_complexity)]
fn check_numeric(pd: &[Vec<f64>], f: &Fac, reg: &Reg) -> Result<Option<(Vec<Vec<f64>>, Vec<Vec<f64>>)>, String> {
    let n = pd.len();
    if f.d.len() != n || f.dinv.len() != n {
        return Err("D / Dinv length".into());
    }
    let finite = f.d.iter().chain(&f.dinv).chain(&f.lx).all(|v| v.is_finite())
        && pd.iter().flatten().all(|v| v.is_finite());
    // pivots
    let mut pos = 0;
    let mut bumped = vec![false; n];
    for k in 0..n {
        if f.d[k] == 0.0 {
            return Err(format!("Ok returned with a zero pivot D[{}]", k));
        }
        if f.d[k] > 0.0 {
            pos += 1;
        }
        if f.d[k].is_finite() && (1.0 / f.d[k]).to_bits() != f.dinv[k].to_bits() {
            return Err(format!("Dinv[{}] is not 1/D[{}]", k, k));
        }
        if reg.enable {
            let s = reg.signs[k] as f64;
            bumped[k] = f.d[k].to_bits() == (reg.delta * s).to_bits();
            // an unperturbed pivot is at or above the threshold
            if !bumped[k] && f.d[k] * s < reg.eps {
                return Err(format!("pivot D[{}] is below the regularisation threshold but was not perturbed", k));
            }
        }
    }
    if pos != f.inertia {
        return Err(format!("positive_inertia={} but {} pivots are positive", f.inertia, pos));
    }
    let nb = bumped.iter().filter(|&&b| b).count();
    // every perturbed pivot is exactly delta*sign, so the counter cannot exceed their number.
    // (Equality is not demanded: with extreme growth an unperturbed pivot can come out as exactly
    // delta*sign — observed at n=33, pre-regularisation value 1e-07 — and the exact count is
    // pinned by the bit-exact correspondence with the model, theorem C12.pivot_step.)
    if f.count > nb || (!reg.enable && f.count != 0) {
        return Err(format!("regularize_count={} but {} pivots equal delta*sign", f.count, nb));
    }
    if !finite {
        N_NONFINITE.fetch_add(1, Relaxed);
        return Ok(None);
    }
    N_NUMERIC.fetch_add(1, Relaxed);
    // dense (I+L) and products
    let mut l = vec![vec![0.0; n]; n];
    for c in 0..n {
        l[c][c] = 1.0;
        for k in f.lp[c]..f.lp[c + 1] {
            l[f.li[k]][c] = f.lx[k];
        }
    }
    let mut m = vec![vec![0.0; n]; n];
    let mut w = vec![vec![0.0; n]; n];
    for i in 0..n {
        for j in 0..n {
            let mut acc = 0.0;
            let mut wacc = 0.0;
            for k in 0..=i.min(j) {
                let t = l[i][k] * f.d[k] * l[j][k];
                acc += t;
                wacc += t.abs();
            }
            m[i][j] = acc;
            w[i][j] = wacc;
        }
    }
    if !m.iter().flatten().chain(w.iter().flatten()).all(|v| v.is_finite()) {
        return Ok(None);
    }
    let c = 8.0 * (n as f64 + 2.0) * EPS;
    for i in 0..n {
        for j in 0..n {
            if i == j && bumped[i] {
                continue; // the factorisation is that of A + (perturbation of this diagonal entry)
            }
            let err = (m[i][j] - pd[i][j]).abs();
            if err > c * (w[i][j] + pd[i][j].abs()) + 1e-300 {
                return Err(format!(
                    "PAP' != LDL' at ({},{}): {} vs {} (|L||D||L'|={})",
                    i, j, pd[i][j], m[i][j], w[i][j]
                ));
            }
        }
    }
    Ok(Some((m, w)))
}

/// `‖b − M x‖` componentwise backward-stable, `M, W` in unpermuted order
fn check_solve(m: &[Vec<f64>], w: &[Vec<f64>], x: &[f64], b: &[f64]) -> Result<(), String> {
    let n = m.len();
    if x.len() != n {
        return Err("solution has the wrong length".into());
    }
    if !x.iter().chain(b).all(|v| v.is_finite()) {
        return Ok(());
    }
    let c = 40.0 * (n as f64 + 2.0) * EPS;
    N_SOLVE.fetch_add(1, Relaxed);
    for i in 0..n {
        let mut r = b[i];
        let mut scale = b[i].abs();
        for j in 0..n {
            r -= m[i][j] * x[j];
            scale += w[i][j] * x[j].abs();
        }
        if !r.is_finite() || !scale.is_finite() {
            return Ok(());
        }
        if r.abs() > c * scale + 1e-300 {
            return Err(format!("residual (b-Ax)[{}]={:e} exceeds {:e}", i, r, c * scale));
        }
    }
    Ok(())
}

fn unpermute(m: &[Vec<f64>], iperm: &[usize]) -> Vec<Vec<f64>> {
    let n = m.len();
    let mut o = vec![vec![0.0; n]; n];
    for i in 0..n {
        for j in 0..n {
            o[i][j] = m[iperm[i]][iperm[j]];
        }
    }
    o
}

// ---------------------------------------------------------------- channel: invperm

fn run_invperm(r: &Req) -> String {
    match hk::invperm(&r.us("p")) {
        Ok(b) => format!("ok b={}", fus(&b)),
        Err(e) => format!("err:{:?}", e),
    }
}
fn oracle_invperm(r: &Req, out: &str) -> Result<(), String> {
    let p = r.us("p");
    if is_perm(&p) {
        let o = Req::parse(out).ok_or("unparsable")?;
        if o.chan != "ok" {
            return Err(format!("valid permutation rejected: {}", out));
        }
        let b = o.us("b");
        if b.len() != p.len() || (0..p.len()).any(|i| b[p[i]] != i) {
            return Err("result is not the inverse permutation".into());
        }
    } else if out != "err:InvalidPermutation" {
        return Err(format!("non-permutation {:?} was not rejected: {}", p, out));
    }
    Ok(())
}

fn run_utils_invperm(r: &Req) -> String {
    format!("b={}", fus(&hk::utils_invperm(&r.us("p"))))
}
fn oracle_utils_invperm(r: &Req, out: &str) -> Result<(), String> {
    // only the positive half is part of C12: `algebra::utils::invperm` is handed internally
    // generated permutations; on those it must return the inverse.
    let p = r.us("p");
    if is_perm(&p) {
        let o = Req::parse(&format!("x {}", out)).ok_or("unparsable")?;
        if !o.has("b") {
            return Err(format!("valid permutation rejected: {}", out));
        }
        let b = o.us("b");
        if b.len() != p.len() || (0..p.len()).any(|i| b[p[i]] != i) {
            return Err("result is not the inverse permutation".into());
        }
    }
    Ok(())
}

// ---------------------------------------------------------------- channel: check_structure

fn structure_verdict(a: &CscMatrix<f64>) -> &'static str {
    if a.m != a.n {
        "err:IncompatibleDimension"
    } else if !triu(a) {
        "err:NotUpperTriangular"
    } else if !(0..a.n).all(|c| a.colptr[c] < a.colptr[c + 1]) {
        "err:EmptyColumn"
    } else {
        "ok"
    }
}

fn run_check_structure(r: &Req) -> String {
    match hk::check_structure(&r.csc("")) {
        Ok(()) => "ok".into(),
        Err(e) => format!("err:{:?}", e),
    }
}
fn oracle_check_structure(r: &Req, out: &str) -> Result<(), String> {
    let a = r.csc("");
    if !well_formed(&a) {
        return Ok(());
    }
    let want = structure_verdict(&a);
    if out != want {
        return Err(format!("check_structure says {} expected {}", out, want));
    }
    Ok(())
}

// ---------------------------------------------------------------- channel: etree

fn run_etree(r: &Req) -> String {
    match hk::etree(r.u("n"), &r.us("Ap"), &r.us("Ai")) {
        Ok((lnz, et)) => format!("Lnz={} etree={}", fus(&lnz), fus(&et)),
        Err(e) => format!("err:{:?}", e),
    }
}
fn oracle_etree(r: &Req, out: &str) -> Result<(), String> {
    let n = r.u("n");
    let ap = r.us("Ap");
    let ai = r.us("Ai");
    let a = CscMatrix { m: n, n, colptr: ap, rowval: ai.clone(), nzval: vec![1.0; ai.len()] };
    if !well_formed(&a) || !triu(&a) {
        return Ok(());
    }
    let o = Req::parse(&format!("x {}", out)).ok_or("unparsable")?;
    let lnz = o.us("Lnz");
    let et = o.us("etree");
    // independent: symbolic elimination
    let mut s = vec![vec![false; n]; n];
    for c in 0..n {
        for k in a.colptr[c]..a.colptr[c + 1] {
            s[a.rowval[k]][c] = true;
            s[c][a.rowval[k]] = true;
        }
    }
    for k in 0..n {
        let rows: Vec<usize> = (k + 1..n).filter(|&i| s[i][k]).collect();
        for &i in &rows {
            for &j in &rows {
                s[i][j] = true;
            }
        }
    }
    for c in 0..n {
        let want: Vec<usize> = (c + 1..n).filter(|&i| s[i][c]).collect();
        if lnz[c] != want.len() {
            return Err(format!("Lnz[{}]={} expected {}", c, lnz[c], want.len()));
        }
        let parent = want.first().copied().unwrap_or(usize::MAX);
        if et[c] != parent {
            return Err(format!("etree[{}]={} expected {}", c, et[c], parent));
        }
    }
    Ok(())
}

// ---------------------------------------------------------------- channel: permute_symmetric

fn run_permute_symmetric(r: &Req) -> String {
    let a = r.csc("");
    let (p, map) = hk::permute_symmetric(&a, &r.us("iperm"));
    format!("{} AtoPAPt={}", proto::fmt_csc(&p), fus(&map))
}

fn check_permuted(a: &CscMatrix<f64>, iperm: &[usize], p: &CscMatrix<f64>, map: &[usize]) -> Result<(), String> {
    let n = a.n;
    if p.m != n || p.n != n || !well_formed(p) || p.nzval.len() != a.nzval.len() {
        return Err("triuA is not a well-formed n x n matrix with nnz(A) entries".into());
    }
    if !triu(p) {
        return Err("triuA is not upper triangular".into());
    }
    if map.len() != a.nzval.len() {
        return Err("AtoPAPt length".into());
    }
    let mut hit = vec![false; map.len()];
    for c in 0..n {
        for k in a.colptr[c]..a.colptr[c + 1] {
            let t = map[k];
            if t >= hit.len() || hit[t] {
                return Err(format!("AtoPAPt is not injective at entry {}", k));
            }
            hit[t] = true;
            if p.nzval[t].to_bits() != a.nzval[k].to_bits() {
                return Err(format!("triuA.nzval[AtoPAPt[{}]] != A.nzval[{}]", k, k));
            }
            let (pr, pc) = (iperm[a.rowval[k]], iperm[c]);
            let (pr, pc) = (pr.min(pc), pr.max(pc));
            let col_of_t = (0..n).find(|&cc| p.colptr[cc] <= t && t < p.colptr[cc + 1]);
            if p.rowval[t] != pr || col_of_t != Some(pc) {
                return Err(format!("entry {} of A is not stored at (iperm r, iperm c) in triuA", k));
            }
        }
    }
    Ok(())
}

fn oracle_permute_symmetric(r: &Req, out: &str) -> Result<(), String> {
    let a = r.csc("");
    let iperm = r.us("iperm");
    if !well_formed(&a) || a.m != a.n || !triu(&a) || iperm.len() != a.n || !is_perm(&iperm) {
        return Ok(());
    }
    let o = Req::parse(&format!("x {}", out)).ok_or("unparsable")?;
    if !o.has("AtoPAPt") {
        return Err(format!("valid input rejected: {}", out));
    }
    check_permuted(&a, &iperm, &o.csc(""), &o.us("AtoPAPt"))
}

// ---------------------------------------------------------------- channels: permute / ipermute

fn run_permute(r: &Req) -> String {
    let (mut x, b, p) = (r.fs("x"), r.fs("b"), r.us("p"));
    if p.iter().take(x.len()).any(|&j| j >= b.len()) {
        return "panic:guard-unchecked-read-is-UB".into();
    }
    hk::permute(&mut x, &b, &p);
    format!("x={}", ffs(&x))
}
fn run_ipermute(r: &Req) -> String {
    let (mut x, b, p) = (r.fs("x"), r.fs("b"), r.us("p"));
    if p.iter().take(b.len()).any(|&j| j >= x.len()) {
        return "panic:guard-unchecked-write-is-UB".into();
    }
    hk::ipermute(&mut x, &b, &p);
    format!("x={}", ffs(&x))
}
fn oracle_permute(r: &Req, out: &str) -> Result<(), String> {
    let (x, b, p) = (r.fs("x"), r.fs("b"), r.us("p"));
    if !(is_perm(&p) && x.len() == p.len() && b.len() == p.len()) {
        return Ok(());
    }
    let o = Req::parse(&format!("x {}", out)).ok_or("unparsable")?;
    let y = o.fs("x");
    let ok = if r.chan == "qdldl.permute" {
        (0..p.len()).all(|i| y[i].to_bits() == b[p[i]].to_bits())
    } else {
        (0..p.len()).all(|i| y[p[i]].to_bits() == b[i].to_bits())
    };
    if !ok {
        return Err("not the (inverse) permuted vector".into());
    }
    Ok(())
}

// ---------------------------------------------------------------- channels: triangular solves

fn l_valid(n: usize, lp: &[usize], li: &[usize], lx: &[f64]) -> bool {
    lp.len() == n + 1
        && lp[0] == 0
        && lp.windows(2).all(|w| w[0] <= w[1])
        && lp[n] == li.len()
        && li.len() == lx.len()
        && (0..n).all(|c| (lp[c]..lp[c + 1]).all(|k| li[k] > c && li[k] < n))
}

fn run_tri(r: &Req) -> String {
    let (lp, li, lx, mut b) = (r.us("Lp"), r.us("Li"), r.fs("Lx"), r.fs("b"));
    let n = b.len();
    if !l_valid(n, &lp, &li, &lx) || (r.has("Dinv") && r.fs("Dinv").len() != n) {
        return "panic:guard-unchecked-indexing-is-UB".into();
    }
    match r.chan.as_str() {
        "qdldl.lsolve" => hk::lsolve(&lp, &li, &lx, &mut b),
        "qdldl.ltsolve" => hk::ltsolve(&lp, &li, &lx, &mut b),
        "qdldl.dltsolve" => hk::dltsolve(&lp, &li, &lx, &r.fs("Dinv"), &mut b),
        _ => hk::solve(&lp, &li, &lx, &r.fs("Dinv"), &mut b),
    }
    // the bounds-checked twins must agree bit for bit
    if r.chan == "qdldl.lsolve" || r.chan == "qdldl.ltsolve" {
        let mut c = r.fs("b");
        if r.chan == "qdldl.lsolve" {
            hk::lsolve_safe(&lp, &li, &lx, &mut c);
        } else {
            hk::ltsolve_safe(&lp, &li, &lx, &mut c);
        }
        if !bits_eq(&b, &c) {
            return format!("x={} safe-variant-differs", ffs(&b));
        }
    }
    format!("x={}", ffs(&b))
}
fn oracle_tri(r: &Req, out: &str) -> Result<(), String> {
    let (lp, li, lx, b) = (r.us("Lp"), r.us("Li"), r.fs("Lx"), r.fs("b"));
    let n = b.len();
    if !l_valid(n, &lp, &li, &lx) {
        return Ok(());
    }
    let o = Req::parse(&format!("x {}", out)).ok_or("unparsable")?;
    if !o.has("x") || out.contains("safe-variant-differs") {
        return Err(format!("unexpected response {}", out));
    }
    let x = o.fs("x");
    let mut l = vec![vec![0.0; n]; n];
    for c in 0..n {
        l[c][c] = 1.0;
        for k in lp[c]..lp[c + 1] {
            l[li[k]][c] += lx[k];
        }
    }
    let dinv = if r.has("Dinv") { r.fs("Dinv") } else { vec![1.0; n] };
    if dinv.iter().any(|&d| d == 0.0 || !d.is_finite()) {
        return Ok(());
    }
    // the operator that was inverted, dense
    let mut m = vec![vec![0.0; n]; n];
    let mut w = vec![vec![0.0; n]; n];
    for i in 0..n {
        for j in 0..n {
            let (v, a) = match r.chan.as_str() {
                "qdldl.lsolve" => (l[i][j], l[i][j].abs()),
                "qdldl.ltsolve" => (l[j][i], l[j][i].abs()),
                "qdldl.dltsolve" => (l[j][i] / dinv[i], (l[j][i] / dinv[i]).abs()),
                _ => {
                    let mut acc = 0.0;
                    let mut wa = 0.0;
                    for k in 0..n {
                        let t = l[i][k] * (1.0 / dinv[k]) * l[j][k];
                        acc += t;
                        wa += t.abs();
                    }
                    (acc, wa)
                }
            };
            m[i][j] = v;
            w[i][j] = a;
        }
    }
    if !m.iter().flatten().all(|v| v.is_finite()) {
        return Ok(());
    }
    check_solve(&m, &w, &x, &b)
}

// ---------------------------------------------------------------- channel: factor_raw

fn run_factor_raw(r: &Req) -> String {
    let a = r.csc("");
    let ds: Vec<i8> = r.is("dsigns").iter().map(|&x| x as i8).collect();
    match hk::factor_raw(&a, &ds, r.b("enable"), r.f("eps"), r.f("delta"), r.b("logical")) {
        Ok(f) => format!(
            "Lcolptr={} Lrowval={} Lnzval={} D={} Dinv={} inertia={} count={} etree={} Lnz={}",
            fus(&f.L.colptr),
            fus(&f.L.rowval),
            ffs(&f.L.nzval),
            ffs(&f.D),
            ffs(&f.Dinv),
            f.positive_inertia,
            f.regularize_count,
            fus(&f.etree),
            fus(&f.Lnz)
        ),
        Err(e) => format!("err:{:?}", e),
    }
}
fn oracle_factor_raw(r: &Req, out: &str) -> Result<(), String> {
    let a = r.csc("");
    let n = a.n;
    if !well_formed(&a) || a.m != n || n == 0 || !triu(&a) || (0..n).any(|c| a.colptr[c] == a.colptr[c + 1]) {
        return Ok(());
    }
    let signs = r.is("dsigns");
    let reg = Reg { enable: r.b("enable"), eps: r.f("eps"), delta: r.f("delta"), signs: &signs };
    zero_pivot_rule(r, out, &reg)?;
    if out.starts_with("err") {
        return Ok(());
    }
    let o = Req::parse(&format!("x {}", out)).ok_or("unparsable")?;
    let f = fac_of(&o, "");
    check_symbolic(&a, &f, &o.us("etree"), &o.us("Lnz"))?;
    if !r.b("logical") {
        check_numeric(&sym_dense(&a), &f, &reg)?;
    }
    Ok(())
}

/// "error returned ⇔ invalid input" for the pivots: with the regulariser on, positive
/// threshold, nonzero shift and nonzero signs a zero pivot cannot survive; the generator
/// tags cases whose exact arithmetic has (no) zero pivot with `expect`.
fn zero_pivot_rule(r: &Req, out: &str, reg: &Reg) -> Result<(), String> {
    let is_zp = out == "err:ZeroPivot";
    if out.starts_with("err") && !is_zp {
        return Err(format!("structurally valid input rejected with {}", out));
    }
    if r.b("logical") && is_zp {
        return Err("logical factorisation reported a zero pivot".into());
    }
    let safe = reg.enable
        && reg.eps > 0.0
        && reg.delta.abs() > 1e-300
        && reg.delta.is_finite()
        && reg.signs.iter().all(|&s| s != 0);
    if safe && is_zp {
        return Err("ZeroPivot although every pivot is regularised away from zero".into());
    }
    if r.has("expect") {
        match r.str("expect") {
            "zeropivot" if !is_zp => return Err(format!("exact zero pivot not reported: {}", &out[..out.len().min(60)])),
            "ok" if is_zp => return Err("ZeroPivot reported on a matrix with nonzero exact pivots".into()),
            _ => {}
        }
    }
    Ok(())
}

// ---------------------------------------------------------------- channel: new

fn run_new(r: &Req) -> String {
    match construct(r, None) {
        Ok(f) => fmt_state(&f),
        Err(e) => e,
    }
}

/// verdict the property demands before any arithmetic happens
fn input_verdict(r: &Req) -> Option<&'static str> {
    let a = r.csc("");
    let sv = structure_verdict(&a);
    if sv != "ok" {
        return Some(sv);
    }
    if !is_amd(r) {
        let perm = r.us("perm");
        if !is_perm(&perm) {
            return Some("err:InvalidPermutation");
        }
    }
    None
}

struct NewView {
    fac: Fac,
    perm: Vec<usize>,
    iperm: Vec<usize>,
    p: CscMatrix<f64>,
    signs: Vec<i64>,
}

/// full check of a factorisation object rendered by `fmt_state`
fn check_state(r: &Req, a: &CscMatrix<f64>, out: &str, logical: bool) -> Result<Option<NewView>, String> {
    let n = a.n;
    let o = Req::parse(&format!("x {}", out)).ok_or("unparsable")?;
    let perm_full = o.us("perm");
    let iperm_full = o.us("iperm");
    if !is_perm(&perm_full) || perm_full.len() != iperm_full.len()
        || (0..perm_full.len()).any(|i| iperm_full[perm_full[i]] != i)
    {
        return Err("perm / iperm are not inverse permutations".into());
    }
    if perm_full.len() < n || !is_perm(&perm_full[..n]) {
        return Err("accepted ordering is not a permutation of 0..n".into());
    }
    // (an over-long ordering whose first n entries permute 0..n is used through that prefix)
    let perm = perm_full[..n].to_vec();
    let iperm = iperm_full[..n].to_vec();
    let p = CscMatrix {
        m: n,
        n,
        colptr: o.us("Pcolptr"),
        rowval: o.us("Prowval"),
        nzval: o.fs("Pnzval"),
    };
    check_permuted(a, &iperm, &p, &o.us("AtoPAPt"))?;
    // workspace signs = user signs permuted (default +1)
    let signs = o.is("dsigns");
    let want: Vec<i64> = match dsigns_of(r) {
        Some(ds) => (0..n).map(|i| ds[perm[i]] as i64).collect(),
        None => vec![1; n],
    };
    if signs != want {
        return Err("workspace Dsigns is not the permuted sign vector".into());
    }
    let fac = fac_of(&o, "");
    check_symbolic(&p, &fac, &o.us("etree"), &o.us("Lnz"))?;
    if logical {
        if fac.inertia != 0 || fac.count != 0 {
            return Err("logical factorisation reports inertia / regularisation".into());
        }
        return Ok(None);
    }
    Ok(Some(NewView { fac, perm, iperm, p, signs }))
}

// NB (repaired defect c474176, `D[0] = Ax[0]` with an empty first column of `triuA`): inputs
// whose permuted matrix has no stored (0,0) entry are ordinary cases of every oracle below —
// no tag, no exemption.  `gen_units` submits the minimal instance with `expect=zeropivot`, so
// the old behaviour (Ok with D[0] = 1, x = (1/3,1/3)) alarms on three independent checks.
/// oracle clause for the empty matrix: the object rendered by `fmt_state` is `Ok` with empty factors
fn empty_state_ok(out: &str, logical: bool) -> Result<(), String> {
    if out.starts_with("panic") || out.starts_with("err") {
        return Err(format!("the 0x0 matrix must be factored (Ok, empty factors), got {}", &out[..out.len().min(80)]));
    }
    let o = Req::parse(&format!("x {}", out)).ok_or("unparsable")?;
    empty_factors_ok(&fac_of(&o, ""))?;
    if o.us("Pcolptr") != vec![0] || !o.us("Prowval").is_empty() || !o.fs("Pnzval").is_empty() || !o.us("AtoPAPt").is_empty()
        || !o.us("etree").is_empty() || !o.us("Lnz").is_empty()
    {
        return Err("0x0 matrix: triuA / AtoPAPt / etree / Lnz are not empty".into());
    }
    if o.b("sym") != logical {
        return Err("0x0 matrix: is_symbolic does not echo the logical flag".into());
    }
    Ok(())
}

fn empty_factors_ok(f: &Fac) -> Result<(), String> {
    if f.lp != vec![0] || !f.li.is_empty() || !f.lx.is_empty() || !f.d.is_empty() || !f.dinv.is_empty() {
        return Err("0x0 matrix: L / D / Dinv are not empty".into());
    }
    if f.inertia != 0 || f.count != 0 {
        return Err("0x0 matrix: positive_inertia / regularize_count are not 0".into());
    }
    Ok(())
}

fn oracle_new(r: &Req, out: &str) -> Result<(), String> {
    oracle_new_inner(r, out)
}

fn oracle_new_inner(r: &Req, out: &str) -> Result<(), String> {
    let a = r.csc("");
    if !well_formed(&a) || out.starts_with("guard") {
        return Ok(());
    }
    if let Some(v) = input_verdict(r) {
        if out != v {
            return Err(format!("invalid input: expected {} got {}", v, &out[..out.len().min(80)]));
        }
        return Ok(());
    }
    let n = a.n;
    if n == 0 {
        // 0×0 ⇒ Ok, empty factors (repaired defect C12-empty-matrix-panic, /repo 6c94e42: `_factor_inner`
        // read Ap[1] / D[0] of the empty matrix; `C12.empty_matrix_ok`)
        return empty_state_ok(out, r.b("logical"));
    }
    let plen = r.us("perm").len();
    if plen != n {
        // Length mismatch (not part of `_invperm`'s contract): a short ordering panics on an
        // index, a long one is used through its first n entries when those permute 0..n.
        // What C12 demands is "never a silently wrong result": an Ok must pass every check below.
        if out.starts_with("panic") || out.starts_with("err") {
            return Ok(());
        }
    } else if out.starts_with("panic") {
        return Err(format!("valid input panicked: {}", out));
    }
    let signs_user: Vec<i64> = dsigns_of(r).map(|d| d.iter().map(|&x| x as i64).collect()).unwrap_or(vec![1; n]);
    let reg0 = Reg { enable: r.b("enable"), eps: r.f("eps"), delta: r.f("delta"), signs: &signs_user };
    zero_pivot_rule(r, out, &reg0)?;
    if out.starts_with("err") {
        return Ok(());
    }
    if let Some(v) = check_state(r, &a, out, r.b("logical"))? {
        let reg = Reg { enable: reg0.enable, eps: reg0.eps, delta: reg0.delta, signs: &v.signs };
        check_numeric(&sym_dense(&v.p), &v.fac, &reg)?;
        let _ = (&v.perm, &v.iperm);
    }
    Ok(())
}

// ---------------------------------------------------------------- channel: ops

fn run_ops(r: &Req) -> String {
    let mut f = match construct(r, None) {
        Ok(f) => f,
        Err(e) => return e,
    };
    let mut out = String::new();
    for t in 0..r.u("nops") {
        match r.str(&format!("op{}", t)) {
            "update" => f.update_values(&r.us(&format!("i{}", t)), &r.fs(&format!("v{}", t))),
            "scale" => f.scale_values(&r.us(&format!("i{}", t)), r.f(&format!("s{}", t))),
            "offset" => {
                let sg: Vec<i8> = r.is(&format!("g{}", t)).iter().map(|&x| x as i8).collect();
                f.offset_values(&r.us(&format!("i{}", t)), r.f(&format!("s{}", t)), &sg)
            }
            "refactor" => match f.refactor() {
                Ok(()) => out.push_str(&format!("r{}=ok {} ", t, fmt_factors(&f, &t.to_string()))),
                Err(e) => {
                    // a refactor that failed must fail again on the unchanged data (seed C12-g)
                    let again = match f.refactor() {
                        Ok(()) => "ok".to_string(),
                        Err(e2) => format!("err:{:?}", e2),
                    };
                    return format!("{}r{}=err:{:?} again{}={}", out, t, e, t, again);
                }
            },
            "solve" => {
                let mut b = r.fs(&format!("b{}", t));
                f.solve(&mut b);
                out.push_str(&format!("x{}={} ", t, ffs(&b)));
            }
            other => panic!("unknown op {}", other),
        }
    }
    let w = hk::workspace_view(&f);
    format!("{}Pnzval={} sym={}", out, ffs(&w.triuA.nzval), fb(w.is_symbolic))
}

/// The history oracle: the implementation's refactor results must be bit-identical to a
/// from-scratch factorisation of the updated matrix (built only with `new`), and every
/// solve must solve the matrix of the last factorisation.
fn oracle_ops(r: &Req, out: &str) -> Result<(), String> {
    oracle_ops_inner(r, out)
}

fn oracle_ops_inner(r: &Req, out: &str) -> Result<(), String> {
    let a0 = r.csc("");
    let n = a0.n;
    if !well_formed(&a0) || input_verdict(r).is_some() || r.us("perm").len() != n || ub_guard(r) {
        return Ok(());
    }
    let nops = r.u("nops");
    if n == 0 {
        // 0×0 ⇒ every refactor is Ok with empty factors, every solve of the empty right-hand side returns
        // the empty vector; any index is out of range (nnz = 0), a non-empty b fails the length assert
        let mut symbolic = r.b("logical");
        let mut contract_panic = false;
        for t in 0..nops {
            let op = r.str(&format!("op{}", t));
            if matches!(op, "update" | "scale") && !r.us(&format!("i{}", t)).is_empty() {
                contract_panic = true;
            }
            if op == "offset" {
                let (i, g) = (r.us(&format!("i{}", t)), r.is(&format!("g{}", t)));
                if i.len() != g.len() || g.iter().any(|&x| x != 0) {
                    contract_panic = true;
                }
            }
            if op == "refactor" {
                symbolic = false;
            }
            if op == "solve" && (symbolic || !r.fs(&format!("b{}", t)).is_empty()) {
                contract_panic = true;
            }
        }
        if out.starts_with("panic") {
            return if contract_panic { Ok(()) } else { Err(format!("valid history on the 0x0 matrix panicked: {}", out)) };
        }
        if out.starts_with("err") {
            return Err(format!("the 0x0 matrix must be factored (Ok, empty factors), got {}", out));
        }
        let o = Req::parse(&format!("x {}", out)).ok_or("unparsable")?;
        for t in 0..nops {
            match r.str(&format!("op{}", t)) {
                "refactor" => {
                    if o.kv.get(&format!("r{}", t)).map(|s| s.as_str()) != Some("ok") {
                        return Err(format!("refactor {} of the 0x0 matrix is not Ok", t));
                    }
                    empty_factors_ok(&fac_of(&o, &t.to_string()))?;
                }
                "solve" => {
                    if !o.fs(&format!("x{}", t)).is_empty() {
                        return Err(format!("solve {} on the 0x0 matrix returned a non-empty vector", t));
                    }
                }
                _ => {}
            }
        }
        if !o.fs("Pnzval").is_empty() {
            return Err("0x0 matrix: triuA.nzval is not empty".into());
        }
        return Ok(());
    }
    // a history with an out-of-range index / a solve on a symbolic factorisation panics by contract
    let nnz = a0.nzval.len();
    let mut symbolic = r.b("logical");
    let mut contract_panic = false;
    for t in 0..nops {
        let op = r.str(&format!("op{}", t));
        if matches!(op, "update" | "scale" | "offset") && r.us(&format!("i{}", t)).iter().any(|&i| i >= nnz) {
            contract_panic = true;
        }
        if op == "update" && r.fs(&format!("v{}", t)).len() < r.us(&format!("i{}", t)).len() {
            contract_panic = true;
        }
        if op == "offset" && r.is(&format!("g{}", t)).len() != r.us(&format!("i{}", t)).len() {
            contract_panic = true;
        }
        if op == "refactor" {
            symbolic = false;
        }
        if op == "solve" && (symbolic || r.fs(&format!("b{}", t)).len() != n) {
            contract_panic = true;
        }
    }
    if out.starts_with("panic") {
        return if contract_panic { Ok(()) } else { Err(format!("valid history panicked: {}", out)) };
    }
    if out.starts_with("err") {
        // the initial factorisation failed: same rules as `new`
        return oracle_new_inner(r, out);
    }
    let o = Req::parse(&format!("x {}", out)).ok_or("unparsable")?;
    let mut shadow = a0.clone();
    {
        let su: Vec<i64> = dsigns_of(r).map(|d| d.iter().map(|&x| x as i64).collect()).unwrap_or(vec![1; n]);
        zero_pivot_rule(r, "ok", &Reg { enable: r.b("enable"), eps: r.f("eps"), delta: r.f("delta"), signs: &su })?;
    }
    // matrix and dense factors of the last successful factorisation
    let mut last: Option<(Vec<Vec<f64>>, Vec<Vec<f64>>)> = None;
    let signs_user: Vec<i64> = dsigns_of(r).map(|d| d.iter().map(|&x| x as i64).collect()).unwrap_or(vec![1; n]);
    let reg0 = Reg { enable: r.b("enable"), eps: r.f("eps"), delta: r.f("delta"), signs: &signs_user };
    let fresh_of = |m: &CscMatrix<f64>| -> Result<QDLDLFactorisation<f64>, String> {
        let mut rr = r.clone();
        rr.kv.insert("nzval".into(), ffs(&m.nzval));
        construct(&rr, Some(false))
    };
    let dense_of = |f: &QDLDLFactorisation<f64>| -> Result<Option<(Vec<Vec<f64>>, Vec<Vec<f64>>)>, String> {
        let w = hk::workspace_view(f);
        let signs: Vec<i64> = w.Dsigns.iter().map(|&x| x as i64).collect();
        let reg = Reg { enable: reg0.enable, eps: reg0.eps, delta: reg0.delta, signs: &signs };
        let mw = check_numeric(&sym_dense(&w.triuA), &fac_of_impl(f), &reg)?;
        Ok(mw.map(|(m, wd)| (unpermute(&m, &w.iperm), unpermute(&wd, &w.iperm))))
    };
    if !r.b("logical") {
        if let Ok(f) = fresh_of(&shadow) {
            last = dense_of(&f)?;
        }
    }
    for t in 0..nops {
        let key = |k: &str| format!("{}{}", k, t);
        match r.str(&key("op")) {
            "update" => {
                let (idx, v) = (r.us(&key("i")), r.fs(&key("v")));
                for (i, &k) in idx.iter().enumerate() {
                    shadow.nzval[k] = v[i];
                }
            }
            "scale" => {
                let s = r.f(&key("s"));
                for &k in &r.us(&key("i")) {
                    shadow.nzval[k] *= s;
                }
            }
            "offset" => {
                let s = r.f(&key("s"));
                for (&k, &g) in r.us(&key("i")).iter().zip(&r.is(&key("g"))) {
                    if g > 0 {
                        shadow.nzval[k] += s;
                    } else if g < 0 {
                        shadow.nzval[k] -= s;
                    }
                }
            }
            "refactor" => {
                let fresh = fresh_of(&shadow);
                let status = o.kv.get(&key("r")).cloned().unwrap_or_default();
                match fresh {
                    Err(e) => {
                        if status != e {
                            return Err(format!("refactor {} says {:?}, factoring the updated matrix from scratch says {}", t, status, e));
                        }
                        let mut rr = r.clone();
                        rr.kv.insert("nzval".into(), ffs(&shadow.nzval));
                        rr.kv.insert("logical".into(), "0".into());
                        rr.kv.remove("expect");
                        zero_pivot_rule(&rr, &status, &reg0)?;
                        let again = o.kv.get(&key("again")).cloned().unwrap_or_default();
                        if again != status {
                            return Err(format!("refactor {} failed with {} but refactor() once more on the unchanged data says {:?}", t, status, again));
                        }
                        return Ok(()); // the history stops at the first error
                    }
                    Ok(f) => {
                        if status != "ok" {
                            return Err(format!("refactor {} failed with {} but the updated matrix factors from scratch", t, status));
                        }
                        N_REFACTOR_FRESH.fetch_add(1, Relaxed);
                        fac_same(&fac_of(&o, &t.to_string()), &fac_of_impl(&f))
                            .map_err(|e| format!("refactor {} is not bit-identical to a fresh factorisation of the updated matrix: {}", t, e))?;
                        last = dense_of(&f)?;
                    }
                }
            }
            "solve" => {
                let x = o.fs(&key("x"));
                if let Some((m, w)) = &last {
                    check_solve(m, w, &x, &r.fs(&key("b")))?;
                }
            }
            _ => {}
        }
    }
    // the stored permuted copy is the permutation of the updated matrix
    let fin = o.fs("Pnzval");
    let mut rr = r.clone();
    rr.kv.insert("nzval".into(), ffs(&shadow.nzval));
    if let Ok(f) = construct(&rr, Some(true)) {
        let w = hk::workspace_view(&f);
        if !bits_eq(&w.triuA.nzval, &fin) {
            return Err("triuA after the updates is not the permutation of the updated matrix".into());
        }
    }
    Ok(())
}

fn channels() -> Vec<Channel> {
    let c = |name, run, oracle, rust_fn, lean| Channel { name, tol: Tol::Exact, run, oracle: Some(oracle), modelled: true, rust_fn, lean };
    vec![
        c("qdldl.invperm", run_invperm as RunFn, oracle_invperm as OracleFn, "qdldl::_invperm", "Perm.invperm / C12.invperm_iff"),
        c("utils.invperm", run_utils_invperm, oracle_utils_invperm, "algebra::utils::invperm", "Perm.utilsInvperm"),
        c("qdldl.check_structure", run_check_structure, oracle_check_structure, "qdldl::check_structure", "Qdldl.checkStructure / C12.check_structure"),
        c("qdldl.etree", run_etree, oracle_etree, "qdldl::_etree", "Qdldl.etree / C12.etree_*"),
        c("qdldl.permute_symmetric", run_permute_symmetric, oracle_permute_symmetric, "qdldl::permute_symmetric + _permute_symmetric_inner", "Qdldl.permuteSymmetric / C12.permute_symmetric, C12.update_commutes"),
        c("qdldl.permute", run_permute, oracle_permute, "qdldl::permute", "Perm.permute"),
        c("qdldl.ipermute", run_ipermute, oracle_permute, "qdldl::ipermute", "Perm.ipermute"),
        c("qdldl.lsolve", run_tri, oracle_tri, "qdldl::_lsolve_unsafe (+_lsolve_safe)", "Qdldl.lsolve / C12.lsolve_correct"),
        c("qdldl.ltsolve", run_tri, oracle_tri, "qdldl::_ltsolve_unsafe (+_ltsolve_safe)", "Qdldl.ltsolve"),
        c("qdldl.dltsolve", run_tri, oracle_tri, "qdldl::_dltsolve_unsafe", "Qdldl.dltsolve"),
        c("qdldl.solve_raw", run_tri, oracle_tri, "qdldl::_solve", "Qdldl.solveRaw / C12.solve_correct"),
        c("qdldl.factor_raw", run_factor_raw, oracle_factor_raw, "QDLDLWorkspace::new + _factor + _factor_inner", "Qdldl.factor / Qdldl.factorInner / C12.pivot_rule"),
        c("qdldl.new", run_new, oracle_new, "QDLDLFactorisation::new / _qdldl_new (perm = None: the ordering returned by get_amd_ordering (external amd crate) is read back (perm, iperm) and handed to the model as an input; the run answers amd-ordering-not-reproducible if a second call orders differently)", "Qdldl.new"),
        c("qdldl.ops", run_ops, oracle_ops, "QDLDLFactorisation::{update_values,scale_values,offset_values,refactor,solve}", "Qdldl.{updateValues,scaleValues,offsetValues,refactor,solve} / C12.update_commutes"),
    ]
}

type RunFn = fn(&Req) -> String;
type OracleFn = fn(&Req, &str) -> Result<(), String>;

// ---------------------------------------------------------------- generators

#[derive(Clone, Copy, Debug, PartialEq)]
enum Fam {
    SmallInt,
    QuasiDef,
    Random,
    ExactLdl,
}

struct Case {
    a: CscMatrix<f64>,
    dsigns: Option<Vec<i8>>,
    expect: Option<&'static str>,
}

/// upper-triangular pattern from a bitmask over the strictly-upper cells, full diagonal
fn pattern_of(n: usize, mask: u64) -> Vec<Vec<usize>> {
    let mut cols = vec![vec![]; n];
    let mut bit = 0;
    for c in 0..n {
        for r in 0..c {
            if mask >> bit & 1 == 1 {
                cols[c].push(r);
            }
            bit += 1;
        }
        cols[c].push(c);
    }
    cols
}

/// remove the structural diagonal entry of the columns selected by `dmask`, where the column
/// stays non-empty (column 0 can never lose its only possible entry)
fn drop_diagonals(cols: &[Vec<usize>], dmask: u64) -> Vec<Vec<usize>> {
    let mut out = cols.to_vec();
    for (c, col) in out.iter_mut().enumerate() {
        if dmask >> c & 1 == 1 && col.len() > 1 {
            col.retain(|&r| r != c);
        }
    }
    out
}

fn has_missing_diag(a: &CscMatrix<f64>) -> bool {
    (0..a.n).any(|c| !(a.colptr[c]..a.colptr[c + 1]).any(|k| a.rowval[k] == c))
}

/// Histories aimed at state that survives in the factorisation object between two numeric
/// passes (`D`, `Dinv`, `L.nzval`, the scratch buffers): logical(true) → refactor → solve,
/// and factor → modify every value → refactor → solve → refactor.  The oracle compares every
/// refactor bit for bit with a from-scratch factorisation and checks the residual of the solves.
fn submit_reuse_histories(s: &mut Session, c: &Case, perm: &[usize], fam: Fam) {
    let n = c.a.n;
    let nnz = c.a.nzval.len();
    let all: Vec<usize> = (0..nnz).collect();
    let c2 = Case { a: c.a.clone(), dsigns: c.dsigns.clone(), expect: None };
    let mut o = rand_opts(&mut s.rng, fam);
    o.logical = true;
    let b = rand_values(&mut s.rng, n);
    let l = base_line("qdldl.ops", &c2, perm, None, &o)
        .u("nops", 2)
        .s("op0", "refactor")
        .s("op1", "solve")
        .fs("b1", &b);
    s.submit(l.done());
    o.logical = false;
    let v = rand_values(&mut s.rng, nnz);
    let l = base_line("qdldl.ops", &c2, perm, None, &o)
        .u("nops", 6)
        .s("op0", "scale").us("i0", &all).f("s0", 2.0)
        .s("op1", "refactor")
        .s("op2", "solve").fs("b2", &b)
        .s("op3", "update").us("i3", &all).fs("v3", &v)
        .s("op4", "refactor")
        .s("op5", "solve").fs("b5", &b);
    s.submit(l.done());
    s.count("reuse-histories");
}

fn fill_values(rng: &mut Rng, n: usize, cols: &[Vec<usize>], fam: Fam, perm: &[usize]) -> Case {
    let mut colptr = vec![0];
    let mut rowval = vec![];
    let mut nzval = vec![];
    let mut dsigns = None;
    let mut expect = None;
    match fam {
        Fam::ExactLdl => {
            // A = (I+L) D (I+L)' with small integer L on (a subset of) the pattern and
            // D in {±1, ±2, ±4, 0}: every intermediate of the factorisation is an exactly
            // representable small number, so exact zero pivots stay exactly zero.
            let mut l = vec![vec![0.0; n]; n];
            for c in 0..n {
                l[c][c] = 1.0;
            }
            // dense lower factor on the filled pattern is not needed: a dense L keeps exactness
            for c in 0..n {
                for &r in &cols[c] {
                    if r != c {
                        l[c][r] = rng.smallint(2);
                    }
                }
            }
            let zero_at = if rng.bool(0.5) { Some(rng.below(n)) } else { None };
            let d: Vec<f64> = (0..n)
                .map(|k| {
                    if Some(k) == zero_at {
                        0.0
                    } else {
                        *rng.choose(&[1.0, -1.0, 2.0, -2.0, 4.0])
                    }
                })
                .collect();
            let mut m = vec![vec![0.0; n]; n];
            for i in 0..n {
                for j in 0..n {
                    for k in 0..n {
                        m[i][j] += l[i][k] * d[k] * l[j][k];
                    }
                }
            }
            // A = Π' M Π, so that the matrix that is factored (ΠAΠ') is M itself
            assert_eq!(perm.len(), n);
            let mut ip = vec![0; n];
            for (i, &p) in perm.iter().enumerate() {
                ip[p] = i;
            }
            for c in 0..n {
                for r in 0..=c {
                    let v = m[ip[r]][ip[c]];
                    if r == c || v != 0.0 {
                        rowval.push(r);
                        nzval.push(v);
                    }
                }
                colptr.push(rowval.len());
            }
            expect = Some(if zero_at.is_some() { "zeropivot" } else { "ok" });
        }
        _ => {
            let npos = rng.below(n + 1);
            let mut ds = vec![1i8; n];
            for c in 0..n {
                for &r in &cols[c] {
                    rowval.push(r);
                    let v = match fam {
                        Fam::SmallInt => rng.smallint(3),
                        Fam::QuasiDef => {
                            if r == c {
                                let mag = n as f64 + rng.uniform(0.5, 3.0);
                                if c < npos { mag } else { ds[c] = -1; -mag }
                            } else {
                                rng.uniform(-1.0, 1.0)
                            }
                        }
                        _ => {
                            if rng.bool(0.1) { rng.logmag(-6.0, 6.0) } else { rng.normal() }
                        }
                    };
                    nzval.push(v);
                }
                colptr.push(rowval.len());
            }
            if fam == Fam::QuasiDef {
                dsigns = Some(ds);
            } else if rng.bool(0.4) {
                dsigns = Some((0..n).map(|_| if rng.bool(0.5) { 1 } else { -1 }).collect());
            } else if rng.bool(0.05) {
                dsigns = Some((0..n).map(|_| *rng.choose(&[0i8, 1, -1, 2, -3, 127, -128])).collect());
            }
        }
    }
    Case { a: CscMatrix { m: n, n, colptr, rowval, nzval }, dsigns, expect }
}

struct Opts {
    enable: bool,
    eps: f64,
    delta: f64,
    logical: bool,
}

fn rand_opts(rng: &mut Rng, fam: Fam) -> Opts {
    if fam == Fam::ExactLdl {
        // `expect` is stated for the un-regularised factorisation
        return Opts { enable: false, eps: 1e-12, delta: 1e-7, logical: false };
    }
    Opts {
        enable: rng.bool(0.7),
        eps: *rng.choose(&[1e-12, 1e-12, 0.5, 1.5, 0.0, -1.0]),
        delta: *rng.choose(&[1e-7, 1e-7, 0.3, 1e-3, 5e-1 + 1e-9]),
        logical: rng.bool(0.15),
    }
}

fn base_line(chan: &str, c: &Case, perm: &[usize], amd_iperm: Option<&[usize]>, o: &Opts) -> Line {
    let mut l = Line::new(chan).csc("", &c.a).us("perm", perm);
    if let Some(ip) = amd_iperm {
        l = l.u("amd", 1).us("iperm", ip);
    }
    if let Some(ds) = &c.dsigns {
        l = l.is("dsigns", ds);
    }
    if let Some(e) = c.expect {
        if !o.logical {
            l = l.s("expect", e);
        }
    }
    l.b("enable", o.enable).f("eps", o.eps).f("delta", o.delta).b("logical", o.logical)
}

fn rand_values(rng: &mut Rng, k: usize) -> Vec<f64> {
    (0..k).map(|_| if rng.bool(0.5) { rng.smallint(3) } else { rng.normal() }).collect()
}

fn rand_indices(rng: &mut Rng, nnz: usize, a: &CscMatrix<f64>) -> Vec<usize> {
    if nnz == 0 {
        return vec![];
    }
    match rng.below(4) {
        0 => (0..nnz).collect(),
        // the diagonal entries (what the KKT solver shifts)
        1 => (0..a.n).filter(|&c| a.colptr[c + 1] > a.colptr[c]).map(|c| a.colptr[c + 1] - 1).collect(),
        _ => {
            let k = 1 + rng.below(nnz.min(6));
            (0..k).map(|_| rng.below(nnz)).collect()
        }
    }
}

/// append an operation history (length <= 10) to a `new`-style line
fn with_ops(rng: &mut Rng, mut l: Line, a: &CscMatrix<f64>, logical: bool, allow_bad: bool) -> Line {
    let nnz = a.nzval.len();
    let n = a.n;
    let nops = 1 + rng.below(10);
    let mut symbolic = logical;
    l = l.u("nops", nops);
    for t in 0..nops {
        let last = t + 1 == nops;
        let pick = rng.below(10);
        let key = |k: &str| format!("{}{}", k, t);
        match pick {
            0 | 1 => {
                let mut idx = rand_indices(rng, nnz, a);
                if allow_bad && last && rng.bool(0.3) {
                    idx.push(nnz + rng.below(2));
                }
                let v = rand_values(rng, idx.len());
                l = l.s(&key("op"), "update").us(&key("i"), &idx).fs(&key("v"), &v);
            }
            2 => {
                let idx = rand_indices(rng, nnz, a);
                let s = *rng.choose(&[2.0, 0.5, -1.0, 1.0, 3.0, 0.1]);
                l = l.s(&key("op"), "scale").us(&key("i"), &idx).f(&key("s"), s);
            }
            3 => {
                let idx = rand_indices(rng, nnz, a);
                let g: Vec<i8> = idx.iter().map(|_| *rng.choose(&[1i8, -1, 1, -1, 0, 5, -7])).collect();
                let s = *rng.choose(&[1.0, 0.25, 1e-8, 3.5]);
                l = l.s(&key("op"), "offset").us(&key("i"), &idx).f(&key("s"), s).is(&key("g"), &g);
            }
            4..=6 => {
                symbolic = false;
                l = l.s(&key("op"), "refactor");
            }
            _ => {
                if symbolic && !(allow_bad && last) {
                    symbolic = false;
                    l = l.s(&key("op"), "refactor");
                } else {
                    let b = rand_values(rng, n);
                    l = l.s(&key("op"), "solve").fs(&key("b"), &b);
                }
            }
        }
    }
    l
}

fn all_perms(n: usize) -> Vec<Vec<usize>> {
    fn rec(cur: &mut Vec<usize>, used: &mut Vec<bool>, n: usize, out: &mut Vec<Vec<usize>>) {
        if cur.len() == n {
            out.push(cur.clone());
            return;
        }
        for i in 0..n {
            if !used[i] {
                used[i] = true;
                cur.push(i);
                rec(cur, used, n, out);
                cur.pop();
                used[i] = false;
            }
        }
    }
    let mut out = vec![];
    rec(&mut vec![], &mut vec![false; n], n, &mut out);
    out
}

/// everything that is submitted for one (matrix, ordering)
fn submit_case(s: &mut Session, c: &Case, perm: &[usize], fam: Fam) {
    let o = rand_opts(&mut s.rng, fam);
    s.submit(base_line("qdldl.new", c, perm, None, &o).done());
    // a history; the solver's own usage is logical=true followed by refactor
    let o2 = Opts { logical: fam != Fam::ExactLdl && s.rng.bool(0.4), ..rand_opts(&mut s.rng, fam) };
    let mut rng = s.rng.fork();
    let mut c2 = Case { a: c.a.clone(), dsigns: c.dsigns.clone(), expect: None };
    if fam == Fam::ExactLdl {
        c2.expect = c.expect;
    }
    let l = with_ops(&mut rng, base_line("qdldl.ops", &c2, perm, None, &o2), &c.a, o2.logical, false);
    s.submit(l.done());
    if fam != Fam::ExactLdl && (has_missing_diag(&c.a) || s.rng.bool(0.15)) {
        if has_missing_diag(&c.a) {
            s.count("missing-diagonal-input");
        }
        submit_reuse_histories(s, c, perm, fam);
    }
}

fn gen_exhaustive(s: &mut Session) {
    let nmax = if s.thorough() { 5 } else { 4 };
    for n in 1..=nmax {
        let cells = n * (n - 1) / 2;
        let perms = all_perms(n);
        for mask in 0u64..(1u64 << cells) {
            let cols = pattern_of(n, mask);
            for fam in [Fam::SmallInt, Fam::QuasiDef, Fam::Random, Fam::ExactLdl] {
                let plist: Vec<Vec<usize>> = if n <= 3 {
                    perms.clone()
                } else {
                    (0..if s.thorough() { 3 } else { 2 }).map(|_| s.rng.perm(n)).collect()
                };
                let mut c = fill_values(&mut s.rng, n, &cols, fam, &plist[0]);
                for p in &plist {
                    c = fill_values(&mut s.rng, n, &cols, fam, p);
                    submit_case(s, &c, p, fam);
                }
                // the same pattern with structural diagonal entries removed (columns stay
                // non-empty): all subsets for n <= 3 (thorough: n <= 4), two random ones beyond
                if fam != Fam::ExactLdl && n >= 2 {
                    let all_subsets = n <= 3 || (s.thorough() && n <= 4);
                    let dmasks: Vec<u64> = if all_subsets {
                        (1..(1u64 << n)).collect()
                    } else {
                        (0..2).map(|_| 1 + s.rng.next_u64() % ((1u64 << n) - 1)).collect()
                    };
                    let mut seen = std::collections::HashSet::new();
                    for dm in dmasks {
                        let cols2 = drop_diagonals(&cols, dm);
                        if cols2 == cols || !seen.insert(cols2.clone()) {
                            continue;
                        }
                        let p = if n <= 3 { plist[s.rng.below(plist.len())].clone() } else { s.rng.perm(n) };
                        let c2 = fill_values(&mut s.rng, n, &cols2, fam, &p);
                        submit_case(s, &c2, &p, fam);
                    }
                }
                // symbolic pieces on the pattern itself
                if fam == Fam::SmallInt {
                    s.submit(Line::new("qdldl.etree").u("n", n).us("Ap", &c.a.colptr).us("Ai", &c.a.rowval).done());
                    let ip = s.rng.perm(n);
                    s.submit(Line::new("qdldl.permute_symmetric").csc("", &c.a).us("iperm", &ip).done());
                }
            }
        }
        s.count(&format!("exhaustive-patterns:n={}", n));
    }
}

fn random_case(s: &mut Session, nmax: usize) -> (Case, Fam, Vec<usize>) {
    let n = 1 + s.rng.below(nmax);
    let p = *s.rng.choose(&[0.05, 0.15, 0.3, 0.6, 1.0]);
    let mut cols = vec![vec![]; n];
    for c in 0..n {
        for r in 0..c {
            if s.rng.bool(p) {
                cols[c].push(r);
            }
        }
        cols[c].push(c);
    }
    let fam = *s.rng.choose(&[Fam::SmallInt, Fam::QuasiDef, Fam::QuasiDef, Fam::Random, Fam::ExactLdl]);
    let fam = if fam == Fam::ExactLdl && n > 8 { Fam::QuasiDef } else { fam };
    if fam != Fam::ExactLdl && s.rng.bool(0.3) {
        let dm = if s.rng.bool(0.3) { u64::MAX } else { s.rng.next_u64() };
        cols = drop_diagonals(&cols, dm);
    }
    let perm = if s.rng.bool(0.2) { (0..n).collect() } else { s.rng.perm(n) };
    (fill_values(&mut s.rng, n, &cols, fam, &perm), fam, perm)
}

fn gen_random(s: &mut Session) {
    for _ in 0..s.budget(1200, 12000) {
        let (c, fam, perm) = random_case(s, 40);
        submit_case(s, &c, &perm, fam);
        s.count(&format!("random:{:?}", fam));
    }
    // perm = None: the ordering chosen by AMD is an input of the model
    for _ in 0..s.budget(400, 4000) {
        let (mut c, fam, _) = random_case(s, 40);
        c.expect = None; // stated for the ordering the matrix was built for, not for AMD's
        let mut st = QDLDLSettings::<f64>::default();
        st.logical = true;
        if let Ok(f) = QDLDLFactorisation::<f64>::new(&c.a, Some(st)) {
            let w = hk::workspace_view(&f);
            let o = rand_opts(&mut s.rng, fam);
            s.submit(base_line("qdldl.new", &c, &f.perm, Some(&w.iperm), &o).done());
            let mut rng = s.rng.fork();
            let l = with_ops(&mut rng, base_line("qdldl.ops", &c, &f.perm, Some(&w.iperm), &o), &c.a, o.logical, false);
            s.submit(l.done());
            s.count("amd-ordering");
        }
    }
    // histories that break the calling contract at their last step (index out of range,
    // solve on a symbolic factorisation): both sides must panic
    for _ in 0..s.budget(150, 1500) {
        let (c, fam, perm) = random_case(s, 8);
        let o = rand_opts(&mut s.rng, fam);
        let mut rng = s.rng.fork();
        let c2 = Case { a: c.a.clone(), dsigns: c.dsigns.clone(), expect: None };
        let l = with_ops(&mut rng, base_line("qdldl.ops", &c2, &perm, None, &o), &c.a, o.logical, true);
        s.submit(l.done());
    }
}

fn vectors_upto(len: usize, maxval: usize, f: &mut dyn FnMut(&[usize])) {
    let mut v = vec![0usize; len];
    loop {
        f(&v);
        let mut i = 0;
        loop {
            if i == len {
                return;
            }
            v[i] += 1;
            if v[i] <= maxval {
                break;
            }
            v[i] = 0;
            i += 1;
        }
    }
}

fn gen_invalid(s: &mut Session) {
    // every vector of length <= 4 over 0..=len (out-of-range value included): `_invperm`
    // alone and as the ordering of a factorisation of a matching matrix
    if !s.is_searching() {
        for len in 0..=4usize {
            let mut all = vec![];
            vectors_upto(len, len, &mut |v| all.push(v.to_vec()));
            for v in all {
                s.submit(Line::new("qdldl.invperm").us("p", &v).done());
                s.submit(Line::new("utils.invperm").us("p", &v).done());
                if len >= 1 {
                    let cells = len * (len - 1) / 2;
                    let mask = s.rng.next_u64() & ((1u64 << cells) - 1);
                    let c = fill_values(&mut s.rng, len, &pattern_of(len, mask), Fam::QuasiDef, &[]);
                    let o = Opts { enable: true, eps: 1e-12, delta: 1e-7, logical: false };
                    let l = base_line("qdldl.ops", &c, &v, None, &o)
                        .u("nops", 1)
                        .s("op0", "solve")
                        .fs("b0", &rand_values(&mut s.rng, len));
                    s.submit(l.done());
                    s.submit(base_line("qdldl.new", &c, &v, None, &o).done());
                }
            }
            s.count(&format!("all-vectors:len={}", len));
        }
    }
    for _ in 0..s.budget(150, 4000) {
        let n = 1 + s.rng.below(8);
        let mut p = s.rng.perm(n);
        match s.rng.below(4) {
            0 => { let (i, j) = (s.rng.below(n), s.rng.below(n)); p[i] = p[j]; }
            1 => { let i = s.rng.below(n); p[i] = n + s.rng.below(3); }
            2 => { p.push(n); }             // too long, valid prefix
            _ => { p.pop(); }               // too short
        }
        s.submit(Line::new("qdldl.invperm").us("p", &p).done());
        let cols: Vec<Vec<usize>> = (0..n).map(|c| (0..=c).filter(|&r| r == c || s.rng.bool(0.4)).collect()).collect();
        let c = fill_values(&mut s.rng, n, &cols, Fam::QuasiDef, &[]);
        let o = Opts { enable: true, eps: 1e-12, delta: 1e-7, logical: s.rng.bool(0.2) };
        let mut c = c;
        if p.len() > n {
            // keep the sign vector long enough for the unchecked read
            c.dsigns = c.dsigns.map(|mut d| { d.resize(p.len(), 1); d });
        }
        s.submit(base_line("qdldl.new", &c, &p, None, &o).done());
        s.count("bad-ordering");
    }
    // structurally invalid matrices
    for _ in 0..s.budget(250, 5000) {
        let n = s.rng.below(7);
        let kind = s.rng.below(5);
        let mut a = match kind {
            0 => { let extra = 1 + s.rng.below(2); gen::csc(&mut s.rng, n, n + extra, 0.5, Vals::SmallIntNZ(3)) } // non-square
            1 => gen::csc(&mut s.rng, n + 1, n, 0.5, Vals::SmallIntNZ(3)),
            2 => gen::csc(&mut s.rng, n, n, 0.5, Vals::SmallIntNZ(3)), // lower entries
            3 => gen::csc_triu(&mut s.rng, n, 0.4, false, Vals::SmallIntNZ(3)), // empty columns / missing diagonals
            _ => gen::csc_triu(&mut s.rng, n, 0.4, true, Vals::SmallInt(1)), // zero diagonals
        };
        if kind == 3 && n > 0 && s.rng.bool(0.5) {
            // make sure an empty column occurs
            let c = s.rng.below(n);
            let (lo, hi) = (a.colptr[c], a.colptr[c + 1]);
            a.rowval.drain(lo..hi);
            a.nzval.drain(lo..hi);
            for k in c + 1..=n {
                a.colptr[k] -= hi - lo;
            }
        }
        if (kind == 2 || kind == 0) && s.rng.bool(0.5) {
            // the same entries with the rows of each column in random order: the structural
            // tests must not depend on the column being sorted (an entry below the diagonal
            // need not be the last one stored)
            for c in 0..a.n {
                let (lo, hi) = (a.colptr[c], a.colptr[c + 1]);
                for i in (lo + 1..hi).rev() {
                    let j = lo + s.rng.below(i - lo + 1);
                    a.rowval.swap(i, j);
                    a.nzval.swap(i, j);
                }
            }
            s.count("structure:unsorted-columns");
        }
        s.submit(Line::new("qdldl.check_structure").csc("", &a).done());
        let perm = s.rng.perm(a.n);
        let o = Opts { enable: s.rng.bool(0.5), eps: 1e-12, delta: 1e-7, logical: false };
        let c = Case { a, dsigns: None, expect: None };
        s.submit(base_line("qdldl.new", &c, &perm, None, &o).done());
        s.count(&format!("structure-kind:{}", kind));
    }
}

fn gen_units(s: &mut Session) {
    // permute / ipermute
    for _ in 0..s.budget(150, 3000) {
        let n = s.rng.below(9);
        let p = s.rng.perm(n);
        let x = gen::vec_of(&mut s.rng, n, Vals::Normal);
        let b = gen::vec_of(&mut s.rng, n, Vals::Normal);
        s.submit(Line::new("qdldl.permute").fs("x", &x).fs("b", &b).us("p", &p).done());
        s.submit(Line::new("qdldl.ipermute").fs("x", &x).fs("b", &b).us("p", &p).done());
    }
    // triangular solves on random strictly lower triangular L
    for _ in 0..s.budget(800, 6000) {
        let n = s.rng.below(13);
        let dens = *s.rng.choose(&[0.0, 0.2, 0.5, 1.0]);
        let mut lp = vec![0usize];
        let mut li = vec![];
        let mut lx = vec![];
        for c in 0..n {
            for r in c + 1..n {
                if s.rng.bool(dens) {
                    li.push(r);
                    lx.push(if s.rng.bool(0.5) { s.rng.smallint(3) } else { s.rng.normal() });
                }
            }
            lp.push(li.len());
        }
        let dinv: Vec<f64> = (0..n).map(|_| if s.rng.bool(0.5) { *s.rng.choose(&[1.0, -1.0, 0.5, -0.25, 2.0]) } else { 1.0 / s.rng.logmag(-2.0, 2.0) }).collect();
        let b = rand_values(&mut s.rng, n);
        for ch in ["qdldl.lsolve", "qdldl.ltsolve"] {
            s.submit(Line::new(ch).us("Lp", &lp).us("Li", &li).fs("Lx", &lx).fs("b", &b).done());
        }
        for ch in ["qdldl.dltsolve", "qdldl.solve_raw"] {
            s.submit(Line::new(ch).us("Lp", &lp).us("Li", &li).fs("Lx", &lx).fs("Dinv", &dinv).fs("b", &b).done());
        }
    }
    // etree / permute_symmetric / factor_raw on random patterns; factor_raw also sees
    // columns in arbitrary row order (what permute_symmetric produces)
    for _ in 0..s.budget(800, 6000) {
        let (c, fam, cperm) = random_case(s, 24);
        let n = c.a.n;
        s.submit(Line::new("qdldl.etree").u("n", n).us("Ap", &c.a.colptr).us("Ai", &c.a.rowval).done());
        let ip = s.rng.perm(n);
        s.submit(Line::new("qdldl.permute_symmetric").csc("", &c.a).us("iperm", &ip).done());
        let mut a = c.a.clone();
        if s.rng.bool(0.7) {
            for col in 0..n {
                let (lo, hi) = (a.colptr[col], a.colptr[col + 1]);
                let mut idx: Vec<usize> = (lo..hi).collect();
                s.rng.shuffle(&mut idx);
                let (rv, nv): (Vec<usize>, Vec<f64>) = idx.iter().map(|&k| (c.a.rowval[k], c.a.nzval[k])).unzip();
                a.rowval[lo..hi].copy_from_slice(&rv);
                a.nzval[lo..hi].copy_from_slice(&nv);
            }
        }
        let o = rand_opts(&mut s.rng, fam);
        let ds: Vec<i8> = c.dsigns.clone().unwrap_or(vec![1; n]);
        let mut l = Line::new("qdldl.factor_raw").csc("", &a).is("dsigns", &ds);
        if let (Some(e), true) = (c.expect, cperm.iter().enumerate().all(|(i, &p)| i == p)) {
            l = l.s("expect", e);
        }
        s.submit(l.b("enable", o.enable).f("eps", o.eps).f("delta", o.delta).b("logical", o.logical).done());
    }
    // minimal instances with a structurally missing diagonal entry, every ordering
    if !s.is_searching() {
        let a = CscMatrix { m: 2, n: 2, colptr: vec![0, 1, 2], rowval: vec![0, 0], nzval: vec![1.0, 2.0] };
        for perm in [vec![0usize, 1], vec![1, 0]] {
            for enable in [false, true] {
                // ΠAΠ' = [[0,2],[2,1]] for perm = [1,0]: exact zero first pivot
                let expect = if enable { None } else if perm[0] == 1 { Some("zeropivot") } else { Some("ok") };
                let c = Case { a: a.clone(), dsigns: None, expect };
                let o = Opts { enable, eps: 1e-12, delta: 1e-7, logical: false };
                s.submit(base_line("qdldl.new", &c, &perm, None, &o).done());
                let l = base_line("qdldl.ops", &c, &perm, None, &o).u("nops", 1).s("op0", "solve").fs("b0", &[1.0, 1.0]);
                s.submit(l.done());
            }
        }
        s.count("missing-diagonal-2x2");
    }
    // the empty matrix
    if !s.is_searching() {
        let e = Case { a: CscMatrix { m: 0, n: 0, colptr: vec![0], rowval: vec![], nzval: vec![] }, dsigns: None, expect: None };
        for logical in [false, true] {
            for enable in [true, false] {
                let o = Opts { enable, eps: 1e-12, delta: 1e-7, logical };
                s.submit(base_line("qdldl.new", &e, &[], None, &o).done());
                // AMD on the empty matrix returns the empty ordering
                s.submit(base_line("qdldl.new", &e, &[], Some(&[]), &o).done());
                // refactor / solve / empty updates on the empty object (a solve needs a numeric object)
                let l = base_line("qdldl.ops", &e, &[], None, &o)
                    .u("nops", 5)
                    .s("op0", "update").us("i0", &[]).fs("v0", &[])
                    .s("op1", "refactor")
                    .s("op2", "solve").fs("b2", &[])
                    .s("op3", "scale").us("i3", &[]).f("s3", 2.0)
                    .s("op4", "refactor");
                s.submit(l.done());
            }
        }
        s.count("empty-matrix");
    }
}

fn generate(s: &mut Session) {
    if !s.is_searching() {
        gen_exhaustive(s);
    }
    gen_random(s);
    gen_invalid(s);
    gen_units(s);
    s.note(format!(
        "oracle activity: LDL' backward-error checks={} (skipped non-finite={}), solve residual checks={}, refactor-vs-fresh bitwise comparisons={}",
        N_NUMERIC.load(Relaxed), N_NONFINITE.load(Relaxed), N_SOLVE.load(Relaxed), N_REFACTOR_FRESH.load(Relaxed)
    ));
}

fn main() {
    Session::from_args("C12", channels()).run(generate)
}
